import time, subprocess
from z3 import *
t0=time.time()
B=SeqSort(IntSort())
def U(x): return Unit(x)
def sl(s,a,b=None):
    n=Length(s)
    a_=If(a>n,n,a)
    if b is None: b_=n
    else: b_=If(b>n,n,b)
    return Extract(s,a_,If(b_>a_,b_-a_,0))
p=Const('p',B)
def setup():
    s=Solver(); s.set('timeout',30000)
    i=Int('i')
    s.add(*[And(p[j]>=0,p[j]<256) for j in range(3)])
    s.add(Length(p)>=3, p[0]>=192, p[0]<224)
    return s
dlen=p[0]*256+p[1]
ln=((dlen-(192*256)) - ((dlen-(192*256)) % 256)) + ((dlen%256)+192)
rest=sl(p,2); typ=rest[0]; rest2=sl(rest,1)
body=sl(rest2,0,ln-1); rest3=sl(rest2,ln-1)
elen=((ln - ln%256) % 65536 + 192*256) + ((ln%256)-192)
out=Concat(U(elen/256), U(elen%256), U(typ), body)
whole=Concat(out,rest3)
s=setup(); s.add(Length(rest2)>=ln-1)
s.push(); s.add(Not(Length(whole)==Length(p))); print('len', s.check(), time.time()-t0); s.pop()
k=Int('k')
s.push(); s.add(0<=k,k<Length(p)); s.add(Not(whole[k]==p[k])); print('nth', s.check(), time.time()-t0); s.pop()
# variant: replace arithmetic heads by facts first
s.push(); s.add(Not(And(elen/256==p[0], elen%256==p[1]))); print('heads', s.check(), time.time()-t0); s.pop()
s.push(); s.add(Not(Concat(U(p[0]),U(p[1]),U(typ),body,rest3)==p)); print('struct', s.check(), time.time()-t0); s.pop()
# cvc5 on the original
s.push(); s.add(Not(whole==p)); smt=s.to_smt2(); s.pop()
open('q.smt2','w').write('(set-logic ALL)\n'+smt)
t1=time.time()
try:
    r=subprocess.run(['/usr/bin/cvc5','--strings-exp','--tlimit=60000','q.smt2'],capture_output=True,text=True,timeout=90); print('cvc5', r.stdout.strip()[:100], r.stderr.strip()[:200], time.time()-t1)
except Exception as e: print('cvc5 err', e)
