import warnings; warnings.simplefilter('ignore')
import pgpy, hashlib, os, copy, datetime
from datetime import timezone, timedelta
from pgpy.constants import *
from pgpy.packet import Packet
from pgpy.errors import *
P=dict(hashes=[HashAlgorithm.SHA256], ciphers=[SymmetricKeyAlgorithm.AES256, SymmetricKeyAlgorithm.AES128], compression=[CompressionAlgorithm.ZLIB, CompressionAlgorithm.Uncompressed])
def mk(name, alg=PubKeyAlgorithm.EdDSA, size=EllipticCurveOID.Ed25519, enc=(PubKeyAlgorithm.ECDH, EllipticCurveOID.Curve25519)):
    k = pgpy.PGPKey.new(alg, size)
    k.add_uid(pgpy.PGPUID.new(name), usage={KeyFlags.Certify, KeyFlags.Sign}, **P)
    if enc:
        sk = pgpy.PGPKey.new(*enc); k.add_subkey(sk, usage={KeyFlags.EncryptCommunications, KeyFlags.EncryptStorage})
    return k
def split(b):
    d=bytearray(b); out=[]
    while d:
        p=Packet(d); out.append(p)
    return out
a=mk('Alice'); b=mk('Bob', enc=(PubKeyAlgorithm.ECDH, EllipticCurveOID.NIST_P256))
# --- C03/C04
for ciph in [SymmetricKeyAlgorithm.AES256, SymmetricKeyAlgorithm.CAST5, SymmetricKeyAlgorithm.TripleDES, SymmetricKeyAlgorithm.Camellia192, SymmetricKeyAlgorithm.Blowfish]:
    for body in [b'', b'x', b'hello world'*100, os.urandom(70000)]:
        m = pgpy.PGPMessage.new(body, compression=CompressionAlgorithm.ZIP)
        sk = ciph.gen_key()
        e = a.pubkey.encrypt(m, cipher=ciph, sessionkey=sk); e = b.pubkey.encrypt(e, cipher=ciph, sessionkey=sk); e = e.encrypt("pw", sessionkey=sk, cipher=ciph)
        e2 = pgpy.PGPMessage.from_blob(bytes(e))
        for who,dec in (('a',lambda: a.decrypt(e2)),('b',lambda: b.decrypt(e2)),('pw',lambda: e2.decrypt("pw"))):
            try:
                d=dec(); ok = bytes(d.message)==body if not isinstance(d.message,str) else d.message.encode()==body
                if not ok: print('MISMATCH', ciph.name, len(body), who)
            except Exception as ex: print('FAIL', ciph.name, len(body), who, type(ex).__name__, ex)
print('roundtrips done')
m = pgpy.PGPMessage.new(b'attack at dawn', compression=CompressionAlgorithm.Uncompressed)
e = a.pubkey.encrypt(m); raw=bytearray(bytes(e)); bad=0; n=0
for i in range(len(raw)*8):
    r=bytearray(raw); r[i//8]^=1<<(i%8); n+=1
    try:
        d=a.decrypt(pgpy.PGPMessage.from_blob(bytes(r)))
        if d.message != m.message: bad+=1; print('TAMPER ACCEPTED bit',i, repr(d.message))
        else: pass
    except Exception as ex: pass
print('bitflips', n, 'accepted-different', bad)
c=mk('Carol')
try: c.decrypt(pgpy.PGPMessage.from_blob(bytes(e))); print('NONRECIPIENT DECRYPTED')
except Exception as ex: print('nonrecipient ->', type(ex).__name__)
e3=pgpy.PGPMessage.new(b'zz').encrypt('right')
try: e3.decrypt('wrong'); print('WRONG PW DECRYPTED')
except Exception as ex: print('wrongpw ->', type(ex).__name__)
