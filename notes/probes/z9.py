import time
from z3 import *
B=SeqSort(IntSort()); U=Unit
def be(n,k): return Concat(*[U((n/(256**(k-1-j)))%256) for j in range(k)])
K,K2,Uu,U2,HS,HS2,R,R2=Consts('K K2 Uu U2 HS HS2 R R2',B); t,p,h,t2,p2,h2=Ints('t p h t2 p2 h2')
def chk(name, hyps, goal):
    s=Solver(); s.set('timeout',20000); s.add(*hyps); s.add(Not(goal)); t0=time.time(); r=s.check(); print('%-40s %s %.2fs'%(name,r,time.time()-t0)); return r
dom=[0<=t,t<256,0<=p,p<256,0<=h,h<256,0<=t2,t2<256,0<=p2,p2<256,0<=h2,h2<256, Length(K)<65536, Length(K2)<65536, Length(Uu)<2**32, Length(U2)<2**32, Length(HS)<2**32-4, Length(HS2)<2**32-4]
# forward peeling: generic step  F ++ X ++ R == F' ++ X' ++ R'  with F = fixed tag + be(len X)
n1,n2=Ints('n1 n2')
chk('be16 injective', [0<=n1,n1<65536,0<=n2,n2<65536, be(n1,2)==be(n2,2)], n1==n2)
chk('be32 injective', [0<=n1,n1<2**32,0<=n2,n2<2**32, be(n1,4)==be(n2,4)], n1==n2)
# step1: 0x99 be16|K| K R == 0x99 be16|K2| K2 R2 => K==K2 and R==R2
h1=dom+[Concat(U(IntVal(0x99)),be(Length(K),2),K,R)==Concat(U(IntVal(0x99)),be(Length(K2),2),K2,R2)]
chk('step1 len', h1, Length(K)==Length(K2))
chk('step1 K,R', h1+[Length(K)==Length(K2)], And(K==K2,R==R2))
# step2 same with 0xb4 be32
h2_=dom+[Concat(U(IntVal(0xb4)),be(Length(Uu),4),Uu,R)==Concat(U(IntVal(0xb4)),be(Length(U2),4),U2,R2)]
chk('step2 len', h2_, Length(Uu)==Length(U2))
chk('step2 U,R', h2_+[Length(Uu)==Length(U2)], And(Uu==U2,R==R2))
# step3 trailer: [4,t,p,h] HS [4,255] be32(4+|HS|)  -- from the end
T =Concat(U(IntVal(4)),U(t),U(p),U(h),HS,U(IntVal(4)),U(IntVal(255)),be(4+Length(HS),4))
T2=Concat(U(IntVal(4)),U(t2),U(p2),U(h2),HS2,U(IntVal(4)),U(IntVal(255)),be(4+Length(HS2),4))
h3=dom+[T==T2]
chk('step3 len (same start)', h3, Length(HS)==Length(HS2))
chk('step3 all', h3+[Length(HS)==Length(HS2)], And(HS==HS2,t==t2,p==p2,h==h2))
# document from the end: d ++ T == d2 ++ T2
d1,d2=Consts('d1 d2',B)
h4=dom+[Concat(d1,T)==Concat(d2,T2)]
# last 4 octets equal -> lengths equal
L=Length(Concat(d1,T)); 
chk('step4 suffix be32', h4, be(4+Length(HS),4)==be(4+Length(HS2),4))
chk('step4 len', h4+[be(4+Length(HS),4)==be(4+Length(HS2),4)], Length(HS)==Length(HS2))
chk('step4 doc', h4+[Length(HS)==Length(HS2)], And(d1==d2, T==T2))
