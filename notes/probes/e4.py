import warnings; warnings.simplefilter('ignore')
import pgpy, datetime
from pgpy.constants import *
from pgpy.packet import Packet
def mk(name, alg=PubKeyAlgorithm.EdDSA, size=EllipticCurveOID.Ed25519, **kw):
    k = pgpy.PGPKey.new(alg, size)
    u = pgpy.PGPUID.new(name, **kw)
    k.add_uid(u, usage={KeyFlags.Sign, KeyFlags.Certify}, hashes=[HashAlgorithm.SHA256], ciphers=[SymmetricKeyAlgorithm.AES256], compression=[CompressionAlgorithm.ZLIB])
    return k
k = mk('A'); k2=mk('B'); k3=mk('C')
# OPS flags
for n in (1,2,3):
    m = pgpy.PGPMessage.new("hi", compression=CompressionAlgorithm.Uncompressed)
    for kk in (k,k2,k3)[:n]:
        m |= kk.sign(m)
    d = bytearray(bytes(m)); flags=[]; order=[]
    while d:
        p = Packet(d); order.append(type(p).__name__ + (':'+p.signer[-4:] if hasattr(p,'signer') else ''))
        if type(p).__name__=='OnePassSignatureV3': flags.append(bytes(p.__bytearray__())[-1])
    print(n, flags, order)
# cleartext trailing whitespace
text = "line one  \nline two\t\n- dash\nFrom me\n"
m = pgpy.PGPMessage.new(text, cleartext=True)
sig = k.sign(m); m |= sig
hd = sig.hashdata(m.message)
print(repr(hd[:60]))
s = str(m); print(repr(s[:120]))
m2 = pgpy.PGPMessage.from_blob(s); print(repr(m2.message), bool(k.pubkey.verify(m2)))
# text w/o trailing newline / CR only
for t in ["a\r\nb", "a\rb", "", "-", "a\n", "-----BEGIN PGP SIGNATURE-----\nx"]:
    m = pgpy.PGPMessage.new(t, cleartext=True); m |= k.sign(m)
    try:
        m2 = pgpy.PGPMessage.from_blob(str(m)); print(repr(t), '->', repr(m2.message), m2.message==t, bool(k.pubkey.verify(m2)))
    except Exception as e: print(repr(t), 'ERR', type(e).__name__, e)
