import warnings; warnings.simplefilter('ignore')
import pgpy, copy, datetime
from datetime import timezone, timedelta
from pgpy.constants import *
from pgpy.packet import Packet
P=dict(hashes=[HashAlgorithm.SHA256], ciphers=[SymmetricKeyAlgorithm.AES256], compression=[CompressionAlgorithm.ZLIB])
t0=datetime.datetime(2024,1,1,tzinfo=timezone.utc)
def mk(name, t=t0):
    k = pgpy.PGPKey.new(PubKeyAlgorithm.EdDSA, EllipticCurveOID.Ed25519, created=t)
    k.add_uid(pgpy.PGPUID.new(name), usage={KeyFlags.Certify, KeyFlags.Sign}, created=t, **P); return k
def shape(k):
    return dict(fp=str(k.fingerprint), uids=[(u.userid or 'UA', sorted((s.type.name, s.signer, s.created.isoformat()) for s in u._signatures)) for u in k._uids],
                keysigs=sorted((s.type.name, s.signer) for s in k._signatures if not s.embedded),
                subs=[(str(s.fingerprint), sorted((x.type.name,x.signer) for x in s._signatures if not x.embedded)) for s in k.subkeys.values()])
a=mk('Alice'); b=mk('Bob'); c=mk('Carol')
a.add_uid(pgpy.PGPUID.new('Alice Two', email='a2@x'), usage={KeyFlags.Certify}, created=t0, **P)   # same second as first uid
sk=pgpy.PGPKey.new(PubKeyAlgorithm.EdDSA, EllipticCurveOID.Ed25519, created=t0); a.add_subkey(sk, usage={KeyFlags.Sign}, created=t0)
sk2=pgpy.PGPKey.new(PubKeyAlgorithm.ECDH, EllipticCurveOID.Curve25519, created=t0); a.add_subkey(sk2, usage={KeyFlags.EncryptCommunications}, created=t0)
u1,u2=a.userids[0],a.userids[1]
u1 |= b.certify(u1, SignatureType.Generic_Cert, created=t0, exportable=True)
u1 |= c.certify(u1, SignatureType.Casual_Cert, created=t0, exportable=False)
u2 |= b.certify(u2, SignatureType.Persona_Cert, created=t0)
u2 |= a.revoke(u2, created=t0+timedelta(seconds=1))
sk |= a.revoke(sk, created=t0+timedelta(seconds=2))
a |= a.revoker(b, created=t0)
for label,blob in (('bin',bytes(a)),('asc',str(a)),('pubbin',bytes(a.pubkey))):
    k2,_=pgpy.PGPKey.from_blob(blob)
    s1=shape(a if 'pub' not in label else a.pubkey); s2=shape(k2)
    # expected: non-exportable removed
    for u in s1['uids']: u[1][:] = [x for x in u[1] if not (x[0]=='Casual_Cert')]
    print(label, 'same' if s1==s2 else 'DIFF')
    if s1!=s2:
        print('  exp', s1); print('  got', s2)
    try: print('  verify', bool(k2.pubkey.verify(k2.pubkey) if not k2.is_public else k2.verify(k2)))
    except Exception as ex: print('  verify ERR', type(ex).__name__, ex)
# concatenation
blob=bytes(a.pubkey)+bytes(b.pubkey)+bytes(c.pubkey)
k,others=pgpy.PGPKey.from_blob(blob); print('concat', [str(v.fingerprint)[-8:] for v in others.values()], [x[-8:] for x in (a.fingerprint,b.fingerprint,c.fingerprint)])
print('copy identical', bytes(copy.copy(a))==bytes(a))
