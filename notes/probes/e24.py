# C10 probe: armor round trips and corruption detection, with an independent RFC 4880 section 6 decoder
import warnings, base64, re, collections, os
import pgpy
from pgpy.constants import *
def crc24(data):
    crc=0xB704CE
    for b in data:
        crc^=b<<16
        for _ in range(8):
            crc<<=1
            if crc&0x1000000: crc^=0x1864CFB
    return crc&0xFFFFFF
def dearmor(text):
    lines=text.replace('\r\n','\n').split('\n')
    i=next(j for j,l in enumerate(lines) if l.startswith('-----BEGIN PGP '))
    label=lines[i][15:-5]; i+=1; hdrs=[]
    while lines[i].strip()!='':
        hdrs.append(tuple(lines[i].split(': ',1))); i+=1
    i+=1; body=''
    while not lines[i].startswith('='): 
        assert len(lines[i])<=76; body+=lines[i]; i+=1
    crc=int.from_bytes(base64.b64decode(lines[i][1:]),'big'); i+=1
    assert lines[i]=='-----END PGP %s-----'%label
    return label,hdrs,base64.b64decode(body),crc
res=collections.OrderedDict(); n=0
def note(k,d): res.setdefault(k,[]).append(d)
for L in list(range(0,200))+[1000,2999,3000,5000]:
    for fill in (b'\x00', b'\xff', None):
        content=(fill*L) if fill else os.urandom(L)
        m=pgpy.PGPMessage.new(content, compression=CompressionAlgorithm.Uncompressed, format='b')
        m.ascii_headers['Comment']='hello: x'; m.ascii_headers['Version']='1'
        s=str(m); raw=bytes(m); n+=1
        try:
            label,hdrs,payload,crc=dearmor(s)
            if label!='MESSAGE': note('label', label)
            if payload!=raw: note('independent decode != binary export', L)
            if crc!=crc24(raw): note('crc != reference', L)
            if dict(hdrs)!={'Comment':'hello: x','Version':'1'}: note('headers lost', hdrs)
        except Exception as ex: note('independent decoder fails %s'%type(ex).__name__, L)
        for variant,txt in (('lf',s),('crlf',s.replace('\n','\r\n')),('surrounded','junk\n\n'+s+'\ntrailing junk\n'),('bytes',s.encode('latin-1','replace')),('bytearray',bytearray(s.encode('latin-1','replace')))):
            try:
                with warnings.catch_warnings(record=True) as w:
                    warnings.simplefilter('always')
                    m2=pgpy.PGPMessage.from_blob(txt)
                if bytes(m2)!=raw: note('reload differs (%s)'%variant, L)
                if any('crc' in str(x.message).lower() for x in w): note('spurious crc warning (%s)'%variant, L)
            except Exception as ex: note('reload EXC %s (%s): %s'%(type(ex).__name__,variant,str(ex)[:40]), L)
# corruption: every single character of body and crc line of one block
m=pgpy.PGPMessage.new(os.urandom(100), compression=CompressionAlgorithm.Uncompressed, format='b'); s=str(m); raw=bytes(m)
start=s.index('\n\n')+2; end=s.index('\n-----END')
silent=0; total=0
for i in range(start,end):
    if s[i]=='\n': continue
    for repl in ('A' if s[i]!='A' else 'B',):
        t=s[:i]+repl+s[i+1:]; total+=1
        try:
            with warnings.catch_warnings(record=True) as w:
                warnings.simplefilter('always')
                m2=pgpy.PGPMessage.from_blob(t)
            if not any('crc' in str(x.message).lower() for x in w): silent+=1; note('corruption not reported', (i, s[i], repl, bytes(m2)==raw))
        except Exception: pass
print('blocks',n,'corruptions',total,'silent',silent,'problem kinds',len(res))
for k_,v in res.items(): print('  ',k_,'::',len(v),'e.g.',v[:4])
# wrong kind
k=pgpy.PGPKey.new(PubKeyAlgorithm.EdDSA,EllipticCurveOID.Ed25519); k.add_uid(pgpy.PGPUID.new('K'),usage={KeyFlags.Sign},hashes=[HashAlgorithm.SHA256],ciphers=[SymmetricKeyAlgorithm.AES256],compression=[CompressionAlgorithm.ZLIB])
sig=k.sign('x')
for name,cls,blob in (('key as message',pgpy.PGPMessage,str(k)),('key as signature',pgpy.PGPSignature,str(k)),('sig as key',pgpy.PGPKey,str(sig)),('message as key',pgpy.PGPKey,s),('message as signature',pgpy.PGPSignature,s),('pubkey label', None, str(k.pubkey).split('\n')[0]),('privkey label',None,str(k).split('\n')[0]),('sig label',None,str(sig).split('\n')[0])):
    if cls is None: print('  ',name,blob); continue
    try: cls.from_blob(blob); print('  ',name,'ACCEPTED')
    except Exception as ex: print('  ',name,'rejected',type(ex).__name__)
