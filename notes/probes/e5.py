import warnings; warnings.simplefilter('ignore')
import pgpy, datetime, time
from pgpy.constants import *
def mk(name, **kw):
    k = pgpy.PGPKey.new(PubKeyAlgorithm.EdDSA, EllipticCurveOID.Ed25519)
    u = pgpy.PGPUID.new(name, **kw)
    k.add_uid(u, usage={KeyFlags.Sign, KeyFlags.Certify}, hashes=[HashAlgorithm.SHA256], ciphers=[SymmetricKeyAlgorithm.AES256], compression=[CompressionAlgorithm.ZLIB])
    return k
k1=mk('X', email='a@x'); k2=mk('X', email='b@x'); k3=mk('X', email='c@x')
kr = pgpy.PGPKeyring()
def sel(kr, ident):
    try:
        with kr.key(ident) as k: return k.fingerprint[-8:]
    except KeyError: return None
    except Exception as e: return 'ERR %s %s'%(type(e).__name__, e)
def show(tag):
    print(tag, [dict((str(a)[-8:],hex(p)[-5:]) for a,p in m.items() if a in ('X','a@x','b@x','c@x')) for m in kr._aliases], 'X->', sel(kr,'X'))
kr.load(k1); show('load k1')
kr.load(k2); show('load k2')
kr.unload(k2); show('unload k2')
kr.load(k3); show('load k3')
kr.unload(k3); show('unload k3')
print('k1 loaded?', k1.fingerprint in kr.fingerprints(), "select 'X':", sel(kr,'X'), "'X' in kr:", 'X' in kr)
# load, unload, load again
kr = pgpy.PGPKeyring(); kr.load(k1); kr.unload(k1); 
try:
    kr.load(k1); print('reload ok', sel(kr,'X'))
except Exception as e: print('reload ERR', type(e).__name__, e)
# pub + priv halves
kr = pgpy.PGPKeyring(); kr.load(k1, k1.pubkey); print(len(kr), [len(m) for m in kr._aliases]); kr.unload(k1); print(sel(kr,'X'), sel(kr,k1.fingerprint), [len(m) for m in kr._aliases])
try:
    kr.unload(k1.pubkey); print('after', [len(m) for m in kr._aliases]); kr.load(k2); print(sel(kr,'X'))
except Exception as e: print('ERR', type(e).__name__, e)
