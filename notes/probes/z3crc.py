import time
from z3 import *
t0=time.time()
W=64
crc=BitVec('crc',W); b=BitVec('b',W)
P=BitVecVal(0x1864CFB,W)
# code step: crc ^= b<<16; 8x: crc<<=1; if crc & 0x1000000: crc ^= P   (python ints unbounded -> use 64 bits wide, prove no overflow via invariant crc<2^24)
c=crc ^ (b<<16)
for i in range(8):
    c=c<<1
    c=If((c & 0x1000000)!=0, c^P, c)
# spec: polynomial remainder: exists q (8 bits) s.t. clmul(q,P) ^ c' == (crc<<8) ^ (b<<24), c' < 2^24   [(crc ^ b<<16) * x^8 mod P]
q=BitVec('q',W)
def clmul(q,Pv):
    acc=BitVecVal(0,W)
    for i in range(8):
        acc=acc ^ If(Extract(i,i,q)==1, Pv<<i, BitVecVal(0,W))
    return acc
s=Solver()
s.add(ULT(crc,1<<24), ULT(b,256))
# 1) invariant preserved
s.push(); s.add(Not(ULT(c,1<<24))); print('inv', s.check(), time.time()-t0); s.pop()
# 2) result is the unique remainder: for q := top bits computed as ((crc<<8)^(b<<24)^c) / ... show exists q<256
s.push()
s.add(ForAll([q], Implies(ULT(q,256), clmul(q,P)^c != ((crc<<8)^(b<<24)))))
print('exists q', s.check(), time.time()-t0); s.pop()
