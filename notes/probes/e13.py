import warnings; warnings.simplefilter('ignore')
import pgpy, os
from pgpy.constants import *
P=dict(hashes=[HashAlgorithm.SHA256], ciphers=[SymmetricKeyAlgorithm.AES256], compression=[CompressionAlgorithm.ZLIB])
def mk(name):
    k = pgpy.PGPKey.new(PubKeyAlgorithm.EdDSA, EllipticCurveOID.Ed25519)
    k.add_uid(pgpy.PGPUID.new(name), usage={KeyFlags.Certify, KeyFlags.Sign}, **P); return k
keys=[mk('K%d'%i) for i in range(3)]
for content in [b'caf\xe9', 'hello']:
  for ns in (0,1,2,3):
    m=pgpy.PGPMessage.new(content, compression=CompressionAlgorithm.Uncompressed)
    for k in keys[:ns]: m |= k.sign(m)
    m2=pgpy.PGPMessage.from_blob(bytes(m))
    print(repr(content), ns, 'msg',m2.message==m.message,'fn', m2.filename==m.filename, 'comp', m2.is_compressed==m.is_compressed, 'sigs', [bytes(s) for s in m2.signatures]==[bytes(s) for s in m.signatures], sorted(bytes(s) for s in m2.signatures)==sorted(bytes(s) for s in m.signatures), 'fmt', m2._message.format==m._message.format, 'bytes', bytes(m2)==bytes(m), [s.created.isoformat() for s in m.signatures])
