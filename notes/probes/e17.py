# prototype of the C11 bounded stand-in: exhaustive texts over an adversarial alphabet
import warnings; warnings.simplefilter('ignore')
import pgpy, itertools, sys, re, collections
from pgpy.constants import *
P=dict(hashes=[HashAlgorithm.SHA256], ciphers=[SymmetricKeyAlgorithm.AES256], compression=[CompressionAlgorithm.ZLIB])
k = pgpy.PGPKey.new(PubKeyAlgorithm.EdDSA, EllipticCurveOID.Ed25519); k.add_uid(pgpy.PGPUID.new('K'), usage={KeyFlags.Certify, KeyFlags.Sign}, **P)
sig0 = k.sign(pgpy.PGPMessage.new('x', cleartext=True))
# spec (RFC 4880 7.1)
def spec_escape(t): return ''.join(('- '+l if l.startswith('-') else l) for l in re.split(r'(?<=\n)', t))
def spec_signed(t):
    lines = t.replace('\r\n','\n').split('\n')
    return '\r\n'.join(l.rstrip(' \t') for l in lines).encode()
ALPHA=['-',' ','F','a','\n','\r','\t']
N=int(sys.argv[1]) if len(sys.argv)>1 else 5
kinds=collections.OrderedDict(); cnt=0
for L in range(0,N+1):
    for tup in itertools.product(ALPHA, repeat=L):
        t=''.join(tup); cnt+=1
        m=pgpy.PGPMessage.new(t, cleartext=True); m._signatures.insort(sig0)
        s=str(m)
        body=s.split('\n\n',1)[1].rsplit('\n-----BEGIN PGP SIGNATURE-----',1)[0]
        def note(kind):
            kinds.setdefault(kind, repr(t))
        if PGPMessage_escape := pgpy.PGPMessage.dash_escape(t):
            pass
        if pgpy.PGPMessage.dash_escape(t)!=spec_escape(t): note('escape differs from spec')
        if pgpy.PGPMessage.dash_unescape(pgpy.PGPMessage.dash_escape(t))!=t: note('unescape(escape(t)) != t')
        for line in pgpy.PGPMessage.dash_escape(t).split('\n'):
            if line.startswith('-') and not line.startswith('- '): note('unescaped dash line in output')
        hd=sig0.hashdata(m.message)
        trailer_len=len(sig0.hashdata(b''))   # type 0 sig: same trailer
        signed=hd[:len(hd)-trailer_len]
        if signed!=spec_signed(t):
            has_trailing = any(l.endswith((' ','\t')) for l in t.replace('\r\n','\n').split('\n'))
            has_lone_cr = re.search(r'\r(?!\n)', t) is not None
            note('signed octets differ: trailing-blank=%s lone-CR=%s'%(has_trailing, has_lone_cr))
        try:
            m2=pgpy.PGPMessage.from_blob(s)
            if m2.message!=t: note('read back differs (lone-CR=%s, endsCR=%s)'%(re.search(r'\r(?!\n)', t) is not None, t.endswith('\r')))
        except Exception as ex:
            note('read back EXC %s'%type(ex).__name__)
print('texts',cnt,'kinds',len(kinds))
for k_,v in kinds.items(): print('  ',k_,'::',v)
