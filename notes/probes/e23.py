# C06/C08 probe: secret keys protected by an independent implementation (usage 254/255; simple/salted/iterated S2K) read by PGPy
import warnings; warnings.simplefilter('ignore')
import pgpy, datetime, os, struct, hashlib, collections
from datetime import timezone
from pgpy.constants import *
from cryptography.hazmat.primitives.ciphers import Cipher, algorithms, modes
import indep
P=dict(hashes=[HashAlgorithm.SHA256], ciphers=[SymmetricKeyAlgorithm.AES256], compression=[CompressionAlgorithm.ZLIB])
t0=datetime.datetime(2024,1,1,tzinfo=timezone.utc)
def protect(secret_body, publen, usage, s2ktype, halg, algid, pw):
    pub=secret_body[:publen]; assert secret_body[publen]==0
    mpis=secret_body[publen+1:-2]
    cls,klen,bs=indep.CIPHERS[algid]
    salt=os.urandom(8); iv=os.urandom(bs)
    spec=bytes([s2ktype,halg])+(salt if s2ktype in (1,3) else b'')+(bytes([96]) if s2ktype==3 else b'')
    key,_=indep.s2k_key(spec, pw, klen)
    pt=mpis+(hashlib.sha1(mpis).digest() if usage==254 else struct.pack('>H',sum(mpis)%65536))
    e=Cipher(cls(key),modes.CFB(iv)).encryptor(); ct=e.update(pt)+e.finalize()
    return pub+bytes([usage,algid])+spec+iv+ct
def pkt(tag, body):
    l=len(body); lh=bytes([l]) if l<192 else (bytes([((l-192)>>8)+192,(l-192)&0xff]) if l<8384 else b'\xff'+struct.pack('>I',l))
    return bytes([0xc0|tag])+lh+body
res=collections.OrderedDict()
for alg,size in [(PubKeyAlgorithm.EdDSA,EllipticCurveOID.Ed25519),(PubKeyAlgorithm.ECDSA,EllipticCurveOID.NIST_P256),(PubKeyAlgorithm.RSAEncryptOrSign,2048),(PubKeyAlgorithm.DSA,2048),(PubKeyAlgorithm.ECDH,EllipticCurveOID.Curve25519)]:
    if alg==PubKeyAlgorithm.ECDH:
        k=pgpy.PGPKey.new(PubKeyAlgorithm.EdDSA,EllipticCurveOID.Ed25519,created=t0); k.add_uid(pgpy.PGPUID.new('K'),usage={KeyFlags.Certify,KeyFlags.Sign},created=t0,**P)
        e=pgpy.PGPKey.new(alg,size,created=t0); k.add_subkey(e,usage={KeyFlags.EncryptCommunications},created=t0)
    else:
        k=pgpy.PGPKey.new(alg,size,created=t0); k.add_uid(pgpy.PGPUID.new('K'),usage={KeyFlags.Certify,KeyFlags.Sign},created=t0,**P)
    pk=indep.packets(bytes(k))
    for usage in (254,255):
        for s2ktype in (0,1,3):
            for algid,halg in ((7,2),(9,8),(3,1)):
                out=b''
                for t,b,raw in pk:
                    if t in (5,7):
                        out+=pkt(t, protect(b, indep.pubkey(b)['publen'], usage, s2ktype, halg, algid, b'pw'))
                    else: out+=raw
                label='%s usage=%d s2k=%d cipher=%d hash=%d'%(alg.name,usage,s2ktype,algid,halg)
                try:
                    k2,_=pgpy.PGPKey.from_blob(out)
                    if bytes(k2)!=out: res.setdefault('re-export differs', []).append(label)
                    if not k2.is_protected or k2.is_unlocked: res.setdefault('not seen as protected', []).append(label)
                    with k2.unlock('pw'):
                        same=all(bytes(getattr(a._key.keymaterial,f).to_mpibytes())==bytes(getattr(b_._key.keymaterial,f).to_mpibytes()) for a,b_ in zip([k2]+list(k2.subkeys.values()),[k]+list(k.subkeys.values())) for f in a._key.keymaterial.__privfields__)
                        if not same: res.setdefault('recovered secret differs', []).append(label)
                        if alg.can_sign:
                            if not k.pubkey.verify('m', k2.sign('m')): res.setdefault('unlocked key signs wrongly', []).append(label)
                    try:
                        with k2.unlock('wrong'): res.setdefault('WRONG PASSPHRASE ACCEPTED', []).append(label)
                    except pgpy.errors.PGPDecryptionError: pass
                except Exception as ex:
                    res.setdefault('EXC %s: %s'%(type(ex).__name__, str(ex)[:60]), []).append(label)
print('problem kinds', len(res))
for k_,v in res.items(): print('  ',k_,'::',len(v),'e.g.',v[:3])
