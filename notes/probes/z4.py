import time
from z3 import *
t0=time.time()
B=SeqSort(IntSort())
def U(x): return Unit(x)
def sl(s,a,b=None):
    # python slice s[a:b] with 0<=a, b>=a assumed nonneg ints; clamp to len
    n=Length(s)
    a_=If(a>n,n,a)
    if b is None: b_=n
    else: b_=If(b>n,n,b)
    return Extract(s,a_,If(b_>a_,b_-a_,0))
# subpacket-like parse: [len1][type][body...]; new-format length decode (1,2,5 octets), then body = packet[:length-1]
p=Const('p',B); tail=Const('tail',B)
s=Solver(); s.set('timeout',30000)
i=Int('i')
s.add(ForAll([i], Implies(And(0<=i,i<Length(p)), And(p[i]>=0,p[i]<256)), patterns=[p[i]]))
fo=p[0]
# case 2-octet
s.add(Length(p)>=3, fo>=192, fo<224)
dlen=p[0]*256+p[1]
ln=((dlen-(192*256)) - ((dlen-(192*256)) % 256)) + ((dlen%256)+192)   # (x & 0xFF00) for 0<=x<65536 = x - x%256
rest=sl(p,2)
typ=rest[0]; rest2=sl(rest,1)
s.add(Length(rest2)>=ln-1)
body=sl(rest2,0,ln-1); rest3=sl(rest2,ln-1)
# serialise: encode_length(ln) (2-octet branch when 192<=ln<8384) ++ [typ] ++ body
elen=((ln - ln%256) % 65536 + 192*256) + ((ln%256)-192)
out=Concat(U(elen/256), U(elen%256), U(typ), body)
s.push(); s.add(Not(And(ln>=192, ln<8384))); print('range', s.check(), time.time()-t0); s.pop()
s.push(); s.add(Not(Concat(out,rest3)==p)); print('roundtrip', s.check(), time.time()-t0); s.pop()
