# C01 probe: every single-bit flip in the protected parts of a signature packet / subject must make verification falsy or raise
import warnings; warnings.simplefilter('ignore')
import pgpy, datetime, collections, sys
from datetime import timezone, timedelta
from pgpy.constants import *
import indep
P=dict(hashes=[HashAlgorithm.SHA256], ciphers=[SymmetricKeyAlgorithm.AES256], compression=[CompressionAlgorithm.ZLIB])
t0=datetime.datetime(2024,1,1,tzinfo=timezone.utc)
res=collections.OrderedDict()
def note(k,d): res.setdefault(k,[]).append(d)
def regions(raw):
    """byte ranges of a v4 signature packet: header, fixed4, hashed, unhashed, left16, mpis"""
    assert raw[0]&0x40
    hl=2 if raw[1]<192 else 3
    b=hl
    h=int.from_bytes(raw[b+4:b+6],'big'); u0=b+6+h; u=int.from_bytes(raw[u0:u0+2],'big')
    return {'fixed4':(b,b+4),'hashed':(b+4,u0),'unhashed':(u0,u0+2+u),'left16':(u0+2+u,u0+4+u),'mpis':(u0+4+u,len(raw))}
for alg,size in [(PubKeyAlgorithm.EdDSA,EllipticCurveOID.Ed25519),(PubKeyAlgorithm.ECDSA,EllipticCurveOID.NIST_P256),(PubKeyAlgorithm.RSAEncryptOrSign,2048)]:
    k=pgpy.PGPKey.new(alg,size,created=t0); k.add_uid(pgpy.PGPUID.new('Alice',email='a@x'),usage={KeyFlags.Certify,KeyFlags.Sign},created=t0,**P)
    k.add_uid(pgpy.PGPUID.new('Alice2'),usage={KeyFlags.Certify,KeyFlags.Sign},created=t0,**P)
    sk=pgpy.PGPKey.new(PubKeyAlgorithm.ECDSA,EllipticCurveOID.NIST_P256,created=t0); k.add_subkey(sk,usage={KeyFlags.Sign},created=t0)
    k2=pgpy.PGPKey.new(alg,size,created=t0); k2.add_uid(pgpy.PGPUID.new('Mallory'),usage={KeyFlags.Certify,KeyFlags.Sign},created=t0,**P)
    pub=k.pubkey
    u=pub.userids[0]; u2=pub.userids[1]; psk=list(pub.subkeys.values())[0]
    cases=[('binary doc', k.sign(b'document',created=t0), b'document'),
           ('uid cert', k.certify(k.userids[0],SignatureType.Positive_Cert,created=t0), u),
           ('direct key', k.certify(k,created=t0), pub),
           ('key revocation', k.revoke(k,created=t0), pub),
           ('subkey binding', [s for s in sk._signatures if s.type==SignatureType.Subkey_Binding][0], psk),
           ('subkey revocation', k.revoke(sk,created=t0), psk)]
    for name,sig,subj in cases:
        raw=bytes(sig); L='%s/%s'%(alg.name,name)
        assert pub.verify(subj, pgpy.PGPSignature.from_blob(raw)), L
        reg=regions(raw)
        for rname in ('fixed4','hashed','mpis'):
            a,b=reg[rname]
            acc=0; tot=0
            for i in range(a*8,b*8):
                r=bytearray(raw); r[i//8]^=1<<(i%8); tot+=1
                try:
                    s2=pgpy.PGPSignature.from_blob(bytes(r))
                    if pub.verify(subj, s2): acc+=1; note('ACCEPTED after bit flip in %s'%rname, (L,i-a*8))
                except Exception: pass
        # subject mutations
        def expect_fail(what, subj2, key=pub):
            try:
                if key.verify(subj2, pgpy.PGPSignature.from_blob(raw)): note('ACCEPTED with %s'%what, L)
            except Exception: pass
        if isinstance(subj,bytes):
            for i in range(len(subj)*8):
                d=bytearray(subj); d[i//8]^=1<<(i%8); expect_fail('document bit flip', bytes(d))
            expect_fail('document + trailing byte', subj+b'\x00'); expect_fail('empty document', b'')
        if name=='uid cert':
            expect_fail('other uid of same key', u2); expect_fail('same uid text on another key', k2.pubkey.userids[0])
            expect_fail('key instead of uid', pub)
        if name in ('direct key','key revocation'):
            expect_fail('subkey instead of key', psk); expect_fail('uid instead of key', u)
        if name.startswith('subkey'):
            expect_fail('primary instead of subkey', pub)
        expect_fail('another key verifying', subj if not isinstance(subj,(pgpy.PGPKey,)) else subj, key=k2.pubkey)
print('problem kinds', len(res))
for k_,v in res.items(): print('  ',k_,'::',len(v),'e.g.',v[:4])
