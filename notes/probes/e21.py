# C03 probe: PGPy-encrypted messages opened by the independent decryptor (indep.py)
import warnings; warnings.simplefilter('ignore')
import pgpy, datetime, collections, os, sys
from datetime import timezone
from pgpy.constants import *
import indep
P=dict(hashes=[HashAlgorithm.SHA256], ciphers=[SymmetricKeyAlgorithm.AES256], compression=[CompressionAlgorithm.ZLIB])
t0=datetime.datetime(2024,1,1,tzinfo=timezone.utc)
problems=collections.OrderedDict(); n=0
def note(kind, detail): problems.setdefault(kind, []).append(detail)
def mk(alg,size,encalg,encsize):
    k=pgpy.PGPKey.new(alg,size,created=t0); k.add_uid(pgpy.PGPUID.new('R'),usage={KeyFlags.Certify,KeyFlags.Sign},created=t0,**P)
    e=pgpy.PGPKey.new(encalg,encsize,created=t0); k.add_subkey(e,usage={KeyFlags.EncryptCommunications},created=t0); return k
recips=[mk(PubKeyAlgorithm.EdDSA,EllipticCurveOID.Ed25519,PubKeyAlgorithm.ECDH,EllipticCurveOID.Curve25519),
        mk(PubKeyAlgorithm.ECDSA,EllipticCurveOID.NIST_P256,PubKeyAlgorithm.ECDH,EllipticCurveOID.NIST_P256),
        mk(PubKeyAlgorithm.ECDSA,EllipticCurveOID.NIST_P384,PubKeyAlgorithm.ECDH,EllipticCurveOID.NIST_P384),
        mk(PubKeyAlgorithm.ECDSA,EllipticCurveOID.NIST_P521,PubKeyAlgorithm.ECDH,EllipticCurveOID.NIST_P521),
        mk(PubKeyAlgorithm.EdDSA,EllipticCurveOID.Ed25519,PubKeyAlgorithm.RSAEncryptOrSign,2048)]
def secret_of(sub):
    body=[b for t,b,_ in indep.packets(bytes(sub)) if t==7][0]
    return indep.seckey(body)
CIPH=[SymmetricKeyAlgorithm.AES256,SymmetricKeyAlgorithm.AES128,SymmetricKeyAlgorithm.AES192,SymmetricKeyAlgorithm.TripleDES,SymmetricKeyAlgorithm.CAST5,SymmetricKeyAlgorithm.Blowfish,SymmetricKeyAlgorithm.Camellia128,SymmetricKeyAlgorithm.Camellia192,SymmetricKeyAlgorithm.Camellia256]
bodies=[b'', b'x', b'hello world\n'*50, os.urandom(5000)]
def open_msg(raw, how, arg):
    pk=indep.packets(raw)
    tags=[t for t,_,_ in pk]
    if not (tags[-1]==18 and all(t in (1,3) for t in tags[:-1])): note('encrypted message grammar', tags)
    for t,b,_ in pk:
        try:
            if t==3 and how=='pw': return indep.seipd_open(pk[-1][1], *indep.skesk_session_key(b, arg))
            if t==1 and how=='key' and b[1:9]==arg['keyid']: return indep.seipd_open(pk[-1][1], *indep.pkesk_session_key(b, arg))
        except AssertionError as ex: note('independent decryptor: %s'%ex, how); return None
    note('no usable session key packet', how); return None
for ciph in CIPH:
  for body in bodies:
    for comp in (CompressionAlgorithm.Uncompressed, CompressionAlgorithm.ZIP, CompressionAlgorithm.ZLIB, CompressionAlgorithm.BZ2):
        m=pgpy.PGPMessage.new(body, compression=comp)
        for r in recips:
            n+=1
            sub=list(r.subkeys.values())[0]
            e=r.pubkey.encrypt(m, cipher=ciph)
            pt=open_msg(bytes(e),'key',secret_of(sub))
            if pt is None: continue
            inner=indep.packets(pt)
            if comp!=CompressionAlgorithm.Uncompressed:
                if [t for t,_,_ in inner]!=[8]: note('inner grammar (compressed)', [t for t,_,_ in inner]); continue
                inner=indep.packets(indep.decompress(inner[0][1]))
            if [t for t,_,_ in inner]!=[11]: note('inner grammar', [t for t,_,_ in inner]); continue
            if indep.literal(inner[0][1])['data']!=body: note('plaintext differs', (ciph.name, len(body)))
        for hs in (HashAlgorithm.SHA256, HashAlgorithm.SHA1, HashAlgorithm.MD5, HashAlgorithm.SHA512):
            n+=1
            e=m.encrypt('pässword', cipher=ciph, hash=hs)
            pt=open_msg(bytes(e),'pw','pässword'.encode())
            if pt is None: continue
            inner=indep.packets(pt)
            if comp!=CompressionAlgorithm.Uncompressed: inner=indep.packets(indep.decompress(inner[0][1]))
            if indep.literal(inner[0][1])['data']!=body: note('plaintext differs (pw)', (ciph.name, hs.name, len(body)))
print('messages', n, 'problem kinds', len(problems))
for k_,v in problems.items(): print('  ',k_,'::',len(v),'e.g.',v[:3])
