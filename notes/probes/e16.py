# prototype of the C15 bounded stand-in: seeded random walks over key-management operations
import warnings; warnings.simplefilter('ignore')
import pgpy, random, sys, copy, datetime, traceback
from datetime import timezone, timedelta
from pgpy.constants import *
from pgpy.errors import PGPError
P=dict(hashes=[HashAlgorithm.SHA256], ciphers=[SymmetricKeyAlgorithm.AES256], compression=[CompressionAlgorithm.ZLIB])
t0=datetime.datetime(2024,1,1,tzinfo=timezone.utc)
FLAGSETS=[{KeyFlags.Sign},{KeyFlags.Certify,KeyFlags.Sign},{KeyFlags.Sign,KeyFlags.Authentication}]
def newkey(t): return pgpy.PGPKey.new(PubKeyAlgorithm.EdDSA, EllipticCurveOID.Ed25519, created=t)
other=newkey(t0); other.add_uid(pgpy.PGPUID.new('Other'), usage={KeyFlags.Certify,KeyFlags.Sign}, created=t0, **P)
def walk(seed, steps):
    rnd=random.Random(seed); clock=[t0]
    def now(same=False):
        if not same: clock[0]+=timedelta(seconds=rnd.choice([0,0,1,5]))
        return clock[0]
    k=newkey(t0); k.add_uid(pgpy.PGPUID.new('U0', email='u0@x'), usage={KeyFlags.Certify,KeyFlags.Sign}, created=now(), **P)
    hist=['new']; nuid=1; expect_flags={'U0':{KeyFlags.Certify,KeyFlags.Sign}}; revoked_uids=set(); revoked_subs=set(); key_revoked=False; pw=None
    def unlocked(f):
        if k.is_protected:
            with k.unlock(pw): return f()
        return f()
    for step in range(steps):
        op=rnd.choice(['add_uid','add_ua','add_subkey','recert','thirdparty','revoke_uid','revoke_sub','revoke_key','revoker','del_uid','protect','pubkey','copy','roundtrip'])
        hist.append(op)
        try:
            if op=='add_uid':
                name='U%d'%nuid; nuid+=1; fl=rnd.choice(FLAGSETS)
                unlocked(lambda: k.add_uid(pgpy.PGPUID.new(name, email=name.lower()+'@x'), usage=fl, created=now(), **P)); expect_flags[name]=set(fl)
            elif op=='add_ua':
                unlocked(lambda: k.add_uid(pgpy.PGPUID.new(bytearray(open('/repo/tests/testdata/simple.jpg','rb').read())), created=now()))
            elif op=='add_subkey' and len(k.subkeys)<3:
                sk=newkey(now()); unlocked(lambda: k.add_subkey(sk, usage={KeyFlags.Sign}, created=now()))
                if pw: pass
            elif op=='recert' and k.userids:
                u=rnd.choice(k.userids); fl=rnd.choice(FLAGSETS)
                sig=unlocked(lambda: k.certify(u, SignatureType.Positive_Cert, usage=fl, created=now(), **P)); u|=sig; expect_flags[u.name]=set(fl)
            elif op=='thirdparty' and k.userids:
                u=rnd.choice(k.userids); u|=other.certify(u, SignatureType.Generic_Cert, created=now())
            elif op=='revoke_uid' and k.userids:
                u=rnd.choice(k.userids); u|=unlocked(lambda: k.revoke(u, created=now())); revoked_uids.add(u.name)
            elif op=='revoke_sub' and k.subkeys:
                sk=rnd.choice(list(k.subkeys.values())); sk|=unlocked(lambda: k.revoke(sk, created=now())); revoked_subs.add(str(sk.fingerprint))
            elif op=='revoke_key':
                k|=unlocked(lambda: k.revoke(k, created=now())); key_revoked=True
            elif op=='revoker':
                k|=unlocked(lambda: k.revoker(other, created=now()))
            elif op=='del_uid' and len(k.userids)>1:
                u=rnd.choice(k.userids); k.del_uid(u.name); expect_flags.pop(u.name,None); revoked_uids.discard(u.name)
            elif op=='protect' and not k.is_protected:
                pw='pw%d'%step; k.protect(pw, SymmetricKeyAlgorithm.AES128, HashAlgorithm.SHA256)
            elif op=='pubkey':
                _=k.pubkey
            elif op=='copy':
                k2=copy.copy(k)
                if bytes(k2)!=bytes(k): return ('copy export differs', hist)
            elif op=='roundtrip':
                k2,_=pgpy.PGPKey.from_blob(bytes(k))
                if bytes(k2)!=bytes(k): return ('import/export not a fixed point', hist)
                k=k2
                if pw is not None and not k.is_protected: return ('protection lost', hist)
        except Exception as ex:
            return ('EXC in %s: %s %s'%(op,type(ex).__name__,str(ex)[:80]), hist)
        # invariant
        try:
            for kk,label in ((k.pubkey,'pub'),(pgpy.PGPKey.from_blob(bytes(k.pubkey))[0],'pub-reimported')):
                v=kk.verify(kk)
                if not v: return ('self-verification fails on %s: %s'%(label,[ (s.signature.type.name, s.issues) for s in v.bad_signatures]), hist)
                names=[u.name for u in kk.userids]
                if sorted(names)!=sorted(expect_flags): return ('uid set differs on %s: %s vs %s'%(label,names,sorted(expect_flags)), hist)
                for u in kk.userids:
                    eff=u.selfsig.key_flags if u.selfsig else None
                    if u.name not in revoked_uids and eff!=expect_flags[u.name]: return ('effective flags of %s on %s: %s expected %s'%(u.name,label,eff,expect_flags[u.name]), hist)
                rs={str(s.fingerprint) for s in kk.subkeys.values() if list(s.revocation_signatures)}
                if rs!=revoked_subs: return ('revoked subkeys on %s: %s vs %s'%(label,rs,revoked_subs), hist)
                if bool(list(kk.revocation_signatures))!=key_revoked: return ('key revocation on %s'%label, hist)
        except Exception as ex:
            return ('EXC in check: %s %s'%(type(ex).__name__,str(ex)[:100]), hist)
    return None
import collections
kinds=collections.OrderedDict()
n=int(sys.argv[1]) if len(sys.argv)>1 else 200
for seed in range(n):
    r=walk(seed, 12)
    if r:
        key=r[0].split(':')[0][:60]
        kinds.setdefault(key,(seed,r))
print('walks',n,'problem kinds',len(kinds))
for k_,(seed,r) in kinds.items(): print(' seed',seed,'::',r[0][:200],'::',' '.join(r[1]))
