import warnings; warnings.simplefilter('ignore')
import pgpy, datetime
from pgpy.constants import *
from pgpy.packet import Packet
from pgpy.packet.subpackets import Signature as SP
from datetime import timezone, timedelta
# Boolean subpacket parse
for raw in [b'\x02\x04\x01', b'\x02\x07\x01', b'\x02\x19\x01', b'\x02\x19\x00', b'\x02\x1b\x43', b'\x03\x1b\x03\x01', b'\x05\x1a\xc3\xa9ab', b'\xff\x00\x00\x00\x02\x04\x00', b'\x02\x64\x41', b'\x02\x84\x00']:
    d=bytearray(raw)
    try:
        sp=SP(d); out=bytes(sp.__bytearray__())
        print(raw.hex(), type(sp).__name__, out.hex(), 'SAME' if out==raw else 'DIFF', 'left', len(d))
    except Exception as e:
        print(raw.hex(), 'ERR', type(e).__name__, e)
# literal filename
lit = bytearray(b'\xcb' + bytes([1+1+2+4+3]) + b'b' + b'\x02' + 'é'.encode() + b'\x00\x00\x00\x00' + b'abc')
p = Packet(bytearray(lit)); out = bytes(p.__bytearray__()); print('lit', lit.hex(), out.hex(), out==bytes(lit), repr(p.filename))
# S2K simple empty
from pgpy.packet.fields import String2Key
s=String2Key(); s.usage=255; s.encalg=SymmetricKeyAlgorithm.AES128; s.specifier=0; s.halg=HashAlgorithm.SHA1
try: print(s.derive_key(b'').hex())
except Exception as e: print('S2K ERR', type(e).__name__, e)
print(s.derive_key(b'a').hex())
