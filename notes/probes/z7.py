import time, subprocess
from z3 import *
def portfolio(name, s, goal):
    t0=time.time()
    s.push(); s.add(Not(goal)); r=s.check(); tz=time.time()-t0
    smt=s.to_smt2(); s.pop()
    open('q.smt2','w').write('(set-logic ALL)\n'+smt)
    t1=time.time()
    try:
        c=subprocess.run(['/usr/bin/cvc5','--strings-exp','--tlimit=30000','q.smt2'],capture_output=True,text=True,timeout=60); cr=(c.stdout.strip() or c.stderr.strip())[:60]
    except Exception as e: cr='err %s'%e
    print('%-28s z3=%-8s %.2fs   cvc5=%-10s %.2fs'%(name, r, tz, cr, time.time()-t1))
B=SeqSort(IntSort()); O=IntSort(); OS=SeqSort(O)
# --- probe 2: loop invariant with recursive spec via ground unfolding
vals=Const('vals',OS); i=Int('i'); acc=Const('acc',B); hdr=Const('hdr',B)
SER=Function('SER',O,B); CS=Function('CS',OS,B)
s=Solver(); s.set('timeout',30000)
s.add(0<=i, i<Length(vals))
s.add(acc==Concat(hdr, CS(Extract(vals,0,i))))             # invariant at i
x=vals[i]
# ground unfolding instance supplied by engine for (prefix, x)
pre=Extract(vals,0,i)
s.add(CS(Concat(pre,Unit(x)))==Concat(CS(pre),SER(x)))
acc2=Concat(acc,SER(x))
portfolio('inv-preserve (needs seq fact)', s, acc2==Concat(hdr, CS(Extract(vals,0,i+1))))
s.add(Extract(vals,0,i+1)==Concat(pre,Unit(x)))            # engine-supplied prefix-extension fact
portfolio('inv-preserve (+prefix fact)', s, acc2==Concat(hdr, CS(Extract(vals,0,i+1))))
s2=Solver(); s2.add(0<=i,i<Length(vals))
portfolio('prefix fact itself', s2, Extract(vals,0,i+1)==Concat(Extract(vals,0,i),Unit(vals[i])))
# exit: i==len => Extract(vals,0,len)==vals
s3=Solver(); portfolio('exit fact', s3, Extract(vals,0,Length(vals))==vals)
