import time
from z3 import *
# (E-c) S2K stream lemma
t0=time.time()
L,k,r,j,count=Ints('L k r j count')
X=Array('X',IntSort(),IntSort()); R=Array('R',IntSort(),IntSort())
s=Solver(); s.set('timeout',60000)
s.add(L>0, count>=L, k==count/L, r==count-k*L)
i=Int('i')
s.add(ForAll([i], Implies(And(0<=i,i<k*L), R[i]==X[i%L])))
# hashdata[j] = R[j] if j<k*L else X[j-k*L]
hd = If(j<k*L, R[j], X[j-k*L])
s.add(0<=j, j<count)
s.push(); s.add(Not(And(0<=r, r<L))); print('range r', s.check(), time.time()-t0); s.pop()
s.push(); s.add(Not(k*L + r == count)); print('len', s.check(), time.time()-t0); s.pop()
s.push(); s.add(Not(hd==X[j%L])); print('elem', s.check(), time.time()-t0); s.pop()
