import warnings; warnings.simplefilter('ignore')
from pgpy.packet import Packet
import itertools, os
bad=0; n=0
for tag in range(0,64):
    for body in [b'', b'\x09', b'\x03abc', b'\x04'+os.urandom(20), b'\x05'+os.urandom(300), os.urandom(9000)]:
        for fmt in ('new','old1','old2','old4','oldind'):
            l=len(body)
            if fmt=='new':
                if l<192: h=bytes([l])
                elif l<8384: x=l-192; h=bytes([(x>>8)+192,x&0xff])
                else: h=b'\xff'+l.to_bytes(4,'big')
                raw=bytes([0xc0|tag])+h+body
            else:
                if tag>15: continue
                if fmt=='oldind': raw=bytes([0x80|(tag<<2)|3])+body
                else:
                    w=int(fmt[3]); 
                    if l>=256**w: continue
                    raw=bytes([0x80|(tag<<2)|{1:0,2:1,4:2}[w]])+l.to_bytes(w,'big')+body
            tail=b'' if fmt=='oldind' else b'\xc0\x01'
            buf=bytearray(raw+tail); n+=1
            try:
                p=Packet(buf)
            except Exception as ex:
                continue   # rejected: fine
            rem=bytes(buf)
            out=bytes(p.__bytearray__())
            ok = rem==tail
            if not ok: bad+=1; print('CONSUME', tag, fmt, len(body), type(p).__name__, len(rem), len(tail)); 
            try:
                p2=Packet(bytearray(out)); out2=bytes(p2.__bytearray__())
                if out2!=out: bad+=1; print('NOT FIXED POINT', tag, fmt, len(body), type(p).__name__)
                if fmt!='oldind' and len(out)!=len(raw): print('LEN CHANGED', tag, fmt, len(body), type(p).__name__, len(raw), len(out)); bad+=1
            except Exception as ex:
                bad+=1; print('REPARSE EXC', tag, fmt, len(body), type(p).__name__, type(ex).__name__, str(ex)[:60])
print('cases', n, 'bad', bad)
