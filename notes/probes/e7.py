import warnings; warnings.simplefilter('ignore')
import pgpy, datetime
from datetime import timezone, timedelta
from pgpy.constants import *
P=dict(hashes=[HashAlgorithm.SHA256], ciphers=[SymmetricKeyAlgorithm.AES256], compression=[CompressionAlgorithm.ZLIB])
t0=datetime.datetime(2024,1,1,tzinfo=timezone.utc)
k = pgpy.PGPKey.new(PubKeyAlgorithm.EdDSA, EllipticCurveOID.Ed25519, created=t0)
k.add_uid(pgpy.PGPUID.new('A'), usage={KeyFlags.Certify}, created=t0, **P)
sk = pgpy.PGPKey.new(PubKeyAlgorithm.EdDSA, EllipticCurveOID.Ed25519, created=t0)
k.add_subkey(sk, usage={KeyFlags.Sign}, created=t0+timedelta(days=1))
print('flags1', sk._get_key_flags())
s = k.sign("x"); print('signer is subkey', s.signer == sk.fingerprint.keyid)
b2 = k.bind(sk, usage={KeyFlags.Authentication}, created=t0+timedelta(days=2)); sk |= b2
print('flags2 (most recent says Authentication):', sk._get_key_flags())
try:
    s = k.sign("x"); print('still signs with subkey:', s.signer == sk.fingerprint.keyid)
except Exception as e: print('refused', e)
# uid re-certification most recent wins for primary
u = k.userids[0]
u |= k.certify(u, SignatureType.Positive_Cert, usage={KeyFlags.Certify, KeyFlags.Sign}, created=t0+timedelta(days=3), **P)
print('primary flags', k._get_key_flags())
