import deal
from pgpy.types import Header
from pgpy.constants import SecurityIssues

def _spec_new(l):
    if l < 192: return bytes([l])
    if l < 8384: return bytes([((l - 192) >> 8) + 192, (l - 192) & 0xFF])
    return b'\xff' + l.to_bytes(4, 'big')

@deal.pre(lambda length: 0 <= length < 2**32)
@deal.ensure(lambda length, result: bytes(result) == _spec_new(length))
def encode_new(length: int) -> bytes:
    return Header.encode_length(length, True, 1)

FAIL = 1 | 2 | 4 | 16 | 1024
@deal.pre(lambda issues: 0 <= issues < 2**11)
@deal.ensure(lambda issues, result: result == bool(issues & FAIL))
def causes_fail(issues: int) -> bool:
    return SecurityIssues(issues).causes_signature_verify_to_fail
