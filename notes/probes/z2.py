import time
from z3 import *
t0=time.time()
B=SeqSort(IntSort())
def U(x): return Unit(x)
# BE as uninterpreted + axioms
BE=Function('BE',IntSort(),IntSort(),B); B2I=Function('B2I',B,IntSort()); BL=Function('bitlen',IntSort(),IntSort())
n,kk=Ints('n kk')
ax=[ForAll([n,kk], Implies(And(kk>=0,n>=0), Length(BE(n,kk))==kk), patterns=[BE(n,kk)]),
    ForAll([n,kk], Implies(And(kk>=0,n>=0, BL(n)<=8*kk), B2I(BE(n,kk))==n), patterns=[BE(n,kk)]),
    ForAll([n], And(BL(n)>=0, Implies(n==0, BL(n)==0), Implies(n>0, BL(n)>=1)), patterns=[BL(n)]),
    B2I(Empty(B))==0]
def I2B(v,minlen):
    bl=(BL(v)+7)/8
    l=If(minlen>=bl, If(minlen>=1,minlen,1), If(bl>=1,bl,1))
    return BE(v,l)
# MPI roundtrip
v=Int('v'); tail=Const('tail',B)
enc=Concat(I2B(BL(v),2), I2B(v,(BL(v)+7)/8))
buf=Concat(enc,tail)
fl=(B2I(Extract(buf,0,2))+7)/8
val=B2I(Extract(buf,2,fl))
rest=Extract(buf,2+fl,Length(buf)-2-fl)
s=Solver(); s.set('timeout',30000); s.add(ax); s.add(v>=0, BL(v)<65536, BL(BL(v))<=16)
s.push(); s.add(v>0); s.add(Not(And(val==v, rest==tail))); print('mpi rt v>0', s.check(), time.time()-t0); s.pop()
s.push(); s.add(Not(And(val==v, rest==tail))); r=s.check(); print('mpi rt all', r, time.time()-t0)
if r==sat:
    m=s.model(); print(' v=',m[v])
s.pop()
# hashdata-like: code builds 0x99 ++ I2B(len(ks),2) ++ ks ++ 0xb4 ++ I2B(len(us),4) ++ us ++ [4,ty,pa,ha] ++ hs ++ [4,255] ++ I2B(4+len(hs),4)
ks,us,hs=Consts('ks us hs',B); ty,pa,ha=Ints('ty pa ha')
code=Concat(U(IntVal(0x99)), I2B(Length(ks),2), ks, U(IntVal(0xb4)), I2B(Length(us),4), us, Concat(U(IntVal(4)),U(ty),U(pa),U(ha)), hs, Concat(U(IntVal(4)),U(IntVal(255))), I2B(4+Length(hs),4))
spec=Concat(U(IntVal(0x99)), BE(Length(ks),2), ks, U(IntVal(0xb4)), BE(Length(us),4), us, U(IntVal(4)),U(ty),U(pa),U(ha), hs, U(IntVal(4)),U(IntVal(255)), BE(4+Length(hs),4))
s=Solver(); s.set('timeout',30000); s.add(ax)
lenax=lambda x,bits: BL(x)<=bits
s.add(Length(ks)<65536, BL(Length(ks))<=16, BL(Length(us))<=32, BL(4+Length(hs))<=32)
s.add(Not(code==spec)); print('hashdata layout', s.check(), time.time()-t0)
