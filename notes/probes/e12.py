import warnings; warnings.simplefilter('ignore')
import pgpy, os, datetime, itertools, tempfile
from datetime import timezone, timedelta
from pgpy.constants import *
from pgpy.packet import Packet
P=dict(hashes=[HashAlgorithm.SHA256], ciphers=[SymmetricKeyAlgorithm.AES256], compression=[CompressionAlgorithm.ZLIB])
def mk(name):
    k = pgpy.PGPKey.new(PubKeyAlgorithm.EdDSA, EllipticCurveOID.Ed25519)
    k.add_uid(pgpy.PGPUID.new(name), usage={KeyFlags.Certify, KeyFlags.Sign}, **P); return k
def split(b):
    d=bytearray(b); out=[]
    while d: out.append(Packet(d))
    return out
keys=[mk('K%d'%i) for i in range(3)]
bad=0
contents=[b'', 'ascii text\n', 'ünïcödé ☃ \U0001F600', os.urandom(3000), b'\xff\xfe\x00binary', 'line1\r\nline2\r\n', 'caf\xe9'.encode('latin-1')]
for content in contents:
  for comp in CompressionAlgorithm:
    for ns in (0,1,2,3):
      for fmt in (None,'b','t','u'):
        try:
            m=pgpy.PGPMessage.new(content, compression=comp, **({'format':fmt} if fmt else {}))
        except Exception as ex:
            print('NEW FAIL', repr(content)[:30], comp.name, fmt, type(ex).__name__, str(ex)[:60]); bad+=1; break
        for k in keys[:ns]: m |= k.sign(m)
        for how in ('bin','asc'):
            try:
                m2=pgpy.PGPMessage.from_blob(bytes(m) if how=='bin' else str(m))
                ok = (m2.message==m.message and m2.filename==m.filename and m2.is_compressed==m.is_compressed and [bytes(s) for s in m2.signatures]==[bytes(s) for s in m.signatures] and m2._message.format==m._message.format and m2._message.mtime.replace(microsecond=0)==m._message.mtime.replace(microsecond=0))
                if not ok: print('RT DIFF', repr(content)[:30], comp.name, ns, fmt, how, repr(m2.message)[:30]); bad+=1
                for k in keys[:ns]:
                    if not k.pubkey.verify(m2): print('VERIFY FAIL', repr(content)[:30], comp.name, ns, fmt, how); bad+=1
                # grammar
                pk=split(bytes(m))
                if comp!=CompressionAlgorithm.Uncompressed:
                    if len(pk)!=1 or type(pk[0]).__name__!='CompressedData': print('GRAMMAR comp', [type(p).__name__ for p in pk]); bad+=1
                    pk=pk[0].packets
                names=[type(p).__name__ for p in pk]
                exp=['OnePassSignatureV3']*ns+['LiteralData']+['SignatureV4']*ns
                if names!=exp: print('GRAMMAR', names); bad+=1
            except Exception as ex:
                print('RT FAIL', repr(content)[:30], comp.name, ns, fmt, how, type(ex).__name__, str(ex)[:80]); bad+=1
print('bad', bad)
# filename cases
for fn in ['plain.txt', 'ünï.txt', 'x'*255, '_CONSOLE', 'x'*256]:
    d=tempfile.mkdtemp(); p=os.path.join(d,fn)
    try:
        open(p,'wb').write(b'data')
        m=pgpy.PGPMessage.new(p, file=True, compression=CompressionAlgorithm.Uncompressed)
        m2=pgpy.PGPMessage.from_blob(bytes(m)); print('file', repr(fn)[:20], m2.filename==fn, m2.message==m.message, m2.is_sensitive)
    except Exception as ex: print('file', repr(fn)[:20], 'ERR', type(ex).__name__, str(ex)[:70])
