import sys, time, z3
sys.path.insert(0, '/tmp/scratch/spike')
from pyvc import *
repo = Repo()
from run1 import discharge, U, cat, be
from run2 import report
print('-'*100)
ST = repo.enum_members('pgpy.constants.SignatureType')

def method_hook(fn):
    fn.is_method = True
    return fn

def scenario(sigtype_name, subject_kind):
    t0 = time.time()
    ex = Exec(repo); st = State()
    KB = z3.Const('KB', BYTES)       # primary key body (what PGPKey.hashdata returns, by its own contract)
    SB = z3.Const('SB', BYTES)       # subkey body
    UB = z3.Const('UB', BYTES)       # user id / attribute body
    HS = z3.Const('HS', BYTES)       # hashed subpacket area incl. its 2-octet length
    DOC = z3.Const('DOC', BYTES)
    pa, ha, ver = z3.Ints('pubalg halg version')
    st.pc += [z3.Length(KB) >= 6, z3.Length(SB) >= 6, z3.Length(KB) < 65536, z3.Length(SB) < 65536, z3.Length(UB) < 2**32, z3.Length(HS) < 2**32 - 4,
              pa >= 0, pa < 256, ha >= 0, ha < 256, ver >= 0, ver < 256]
    # abstract objects
    sig = VObj('pgpy.pgp.PGPSignature', 'sig')
    spkt = VObj('pgpy.packet.packets.SignatureV4', 'spkt')
    hdr = VObj('pgpy.packet.types.VersionedHeader', 'hdr')
    subp = VObj('pgpy.packet.fields.SubPackets', 'subp')
    sigfield = VObj('pgpy.packet.fields.RSASignature', 'sigfield')
    st.heap[('sig', '_signature')] = spkt
    st.heap[('spkt', '_sigtype')] = VInt(ST[sigtype_name], enum='pgpy.constants.SignatureType')
    st.heap[('spkt', '_pubalg')] = VInt(pa)
    st.heap[('spkt', '_halg')] = VInt(ha)
    st.heap[('spkt', 'header')] = hdr
    st.heap[('hdr', '_version')] = VInt(ver)
    st.heap[('spkt', 'subpackets')] = subp
    st.heap[('spkt', '_signature')] = sigfield
    key = VObj('pgpy.pgp.PGPKey', 'key'); sub = VObj('pgpy.pgp.PGPKey', 'sub'); uid = VObj('pgpy.pgp.PGPUID', 'uid')
    # contracts (hooks) for callees outside this function
    ex.hooks[('pgpy.types.ParentRef', 'parent')] = lambda ex, st, o, a: [(st, {'sig': VNone(), 'uid': key, 'sub': key, 'key': VNone()}[o.ref])]
    ex.hooks[('pgpy.types.ParentRef', '_parent')] = ex.hooks[('pgpy.types.ParentRef', 'parent')]
    ex.hooks[('pgpy.pgp.PGPKey', 'hashdata')] = lambda ex, st, o, a: [(st, VBytes(KB if o.ref == 'key' else SB))]
    ex.hooks[('pgpy.pgp.PGPUID', 'hashdata')] = lambda ex, st, o, a: [(st, VBytes(UB))]
    ex.hooks[('pgpy.pgp.PGPKey', 'is_primary')] = lambda ex, st, o, a: [(st, VBool(o.ref == 'key'))]
    ex.hooks[('pgpy.pgp.PGPUID', 'is_uid')] = lambda ex, st, o, a: [(st, VBool(subject_kind != 'ua'))]
    ex.hooks[('pgpy.packet.fields.SubPackets', '__hashbytearray__')] = method_hook(lambda ex, st, o, a: [(st, ex.new_buf(st, HS))])
    ex.hooks[('pgpy.packet.fields.RSASignature', '__iter__')] = method_hook(lambda ex, st, o, a: [(st, ex.new_list(st, [VInt(z3.Int('mpi'))]))])
    st.pc += [z3.Int('mpi') > 0]
    subject = {'uid': uid, 'ua': uid, 'key': key, 'sub': sub, 'doc': VBytes(DOC)}[subject_kind]
    lk = repo.lookup('pgpy.pgp.PGPSignature', 'hashdata')
    outs = ex.call_func(VFunc(lk[2], None, cls=lk[1], self_val=sig, mod='pgpy.pgp'), [subject], {}, st, {'mod': 'pgpy.pgp'})
    # spec (RFC 4880 5.2.4)
    t = ST[sigtype_name]
    trailer = cat(U(ver), U(t), U(pa), U(ha), HS, U(4), U(255), be(4 + z3.Length(HS), 4))
    k99 = lambda body: cat(U(0x99), be(z3.Length(body), 2), body)
    if sigtype_name in ('Generic_Cert', 'Persona_Cert', 'Casual_Cert', 'Positive_Cert', 'CertRevocation', 'Attestation'):
        spec = cat(k99(KB), U(0xb4 if subject_kind == 'uid' else 0xd1), be(z3.Length(UB), 4), UB, trailer)
    elif sigtype_name in ('Subkey_Binding', 'PrimaryKey_Binding'):
        spec = cat(k99(KB), k99(SB), trailer)
    elif sigtype_name == 'SubkeyRevocation':
        spec = cat(k99(KB), k99(SB), trailer)
    elif sigtype_name in ('KeyRevocation', 'DirectlyOnKey'):
        spec = cat(k99(KB), trailer)
    elif sigtype_name == 'BinaryDocument':
        spec = cat(DOC, trailer)
    elif sigtype_name in ('Standalone', 'Timestamp'):
        spec = trailer
    obls = []
    lab = 'C01/hashdata[%s over %s]' % (sigtype_name, subject_kind)
    for s, v in outs:
        if isinstance(v, Raise):
            obls.append(Obligation('%s/safety/%s@L%s' % (lab, v.exc, v.where), s.facts + s.pc, z3.BoolVal(False)))
        else:
            obls.append(Obligation(lab + '/post/rfc5.2.4', s.facts + s.pc, ex.seq(v, s) == spec))
    return report(lab, outs, obls, t0)

scenario('Positive_Cert', 'uid')
scenario('Generic_Cert', 'ua')
scenario('CertRevocation', 'uid')
scenario('Subkey_Binding', 'sub')
scenario('SubkeyRevocation', 'sub')
scenario('KeyRevocation', 'key')
scenario('DirectlyOnKey', 'key')
scenario('BinaryDocument', 'doc')
scenario('Timestamp', 'doc')
scenario('Attestation', 'uid')
