import sys, time, z3
sys.path.insert(0, '/tmp/scratch/spike')
from pyvc import *

repo = Repo()
print('modules', len(repo.modules), 'classes', len(repo.classes))
print('MRO RSAPriv', [c.split('.')[-1] for c in repo.mro('pgpy.packet.fields.RSAPriv')])
print('sdprops Header', {k: list(v['set']) for k, v in repo.classes['pgpy.types.Header'].sdprops.items()})


def discharge(obls, timeout=20000):
    ok = True
    for o in obls:
        s = z3.Solver()
        s.set('timeout', timeout)
        s.add(*o.hyps)
        s.add(z3.Not(o.goal))
        t0 = time.time()
        r = s.check()
        o.t = time.time() - t0
        o.result = r
        if r == z3.sat:
            o.model = s.model()
        if r != z3.unsat:
            ok = False
    return ok


def run(label, qual_cls, fname, setup, post, allowed=()):
    ex = Exec(repo)
    ex.label = label
    st = State()
    lk = repo.lookup(qual_cls, fname)
    kind, cls, node = lk
    args, selfv = setup(ex, st)
    f = VFunc(node, None, cls=cls, self_val=selfv, mod=repo.classes[cls].module)
    t0 = time.time()
    outs = ex.call_func(f, args, {}, st, {'mod': repo.classes[cls].module})
    npaths = len(outs)
    for s, v in outs:
        if isinstance(v, Raise):
            if v.exc.split(':')[0] in allowed:
                continue
            ex.obls.append(Obligation('%s/safety/%s@L%s' % (label, v.exc, v.where), s.facts + s.pc, z3.BoolVal(False)))
        else:
            for name, g in post(ex, s, v):
                ex.obls.append(Obligation('%s/post/%s' % (label, name), s.facts + s.pc, g))
    ok = discharge(ex.obls)
    print('%-44s paths=%-3d obligations=%-3d %s  %.2fs' % (label, npaths, len(ex.obls), 'OK' if ok else 'FAILED', time.time() - t0))
    for o in ex.obls:
        if o.result != z3.unsat:
            print('   NOT DISCHARGED', o.name, o.result, ('model: ' + str({str(d): o.model[d] for d in o.model.decls() if not str(d).startswith(('BL', 'BE', 'B2I', 'H'))})[:200]) if o.model else '')
    return ok


def U(x):
    return z3.Unit(x if z3.is_expr(x) else z3.IntVal(x))


def cat(*xs):
    xs = [x for x in xs]
    return xs[0] if len(xs) == 1 else z3.Concat(*xs)


def be(x, k):
    return cat(*[U((x / (256 ** (k - 1 - j))) % 256) for j in range(k)])


# ---- spec: RFC 4880 4.2.2 new-format length
def spec_new_length(l):
    return z3.If(l < 192, U(l), z3.If(l < 8384, cat(U(((l - 192) / 256) + 192), U((l - 192) % 256)), cat(U(255), be(l, 4))))


# 1. encode_length new format
def setup_enc(nhf, llen):
    def f(ex, st):
        l = z3.Int('length')
        st.pc += [l >= 0, l < 2 ** 32]
        return [VInt(l), VBool(nhf), VInt(llen)], None
    return f


run('C09/Header.encode_length[new]', 'pgpy.types.Header', 'encode_length', setup_enc(True, 1),
    lambda ex, s, v: [('rfc', ex.seq(v, s) == spec_new_length(z3.Int('length')))])
for llen in (1, 2, 4):
    def setup_old(ex, st, llen=llen):
        l = z3.Int('length')
        st.pc += [l >= 0, l < 256 ** llen]
        return [VInt(l), VBool(False), VInt(llen)], None
    run('C09/Header.encode_length[old,llen=%d]' % llen, 'pgpy.types.Header', 'encode_length', setup_old,
        lambda ex, s, v, llen=llen: [('be', ex.seq(v, s) == be(z3.Int('length'), llen))])


# old format *without* the "fits" precondition: width must still be llen  (expected to FAIL: D3)
def setup_old_nofit(ex, st):
    l = z3.Int('length')
    st.pc += [l >= 0, l < 2 ** 32]
    return [VInt(l), VBool(False), VInt(1)], None


run('C09/Header.encode_length[old,llen=1,any length]', 'pgpy.types.Header', 'encode_length', setup_old_nofit,
    lambda ex, s, v: [('width', z3.Length(ex.seq(v, s)) == 1)])


# 2. String2Key.count getter
def setup_count(ex, st):
    c = z3.Int('c')
    st.pc += [c >= 0, c <= 255]
    o = VObj('pgpy.packet.fields.String2Key', 'self')
    st.heap[('self', '_count')] = VInt(c)
    return [], o


def post_count(ex, s, v):
    c = z3.Int('c')
    goals = []
    # RFC: (16 + (c & 15)) << ((c >> 4) + 6)  -- check against explicit table of 256 values via arithmetic spec
    e = z3.IntVal(0)
    spec = (16 + (c % 16))
    sh = (c / 16) + 6
    tot = z3.IntVal(0)
    for k in range(6, 22):
        tot = z3.If(sh == k, spec * 2 ** k, tot)
    goals.append(('rfc', v.z == tot))
    return goals


lk = repo.lookup('pgpy.packet.fields.String2Key', 'count')
ex = Exec(repo)
ex.label = 'C09/String2Key.count'
st = State()
args, selfv = setup_count(ex, st)
outs = ex.call_func(VFunc(lk[2]['get'], None, cls=lk[1], self_val=selfv, mod='pgpy.packet.fields'), [], {}, st, {'mod': 'pgpy.packet.fields'})
obls = []
for s, v in outs:
    for name, g in post_count(ex, s, v):
        obls.append(Obligation('C09/String2Key.count/' + name, s.facts + s.pc, g))
print('C09/String2Key.count', 'paths', len(outs), 'OK' if discharge(obls) else 'FAILED', [(o.name, o.result) for o in obls if o.result != z3.unsat])


# 3. SecurityIssues.causes_signature_verify_to_fail
def setup_fail(ex, st):
    x = z3.Int('issues')
    st.pc += [x >= 0, x < 2 ** 11]
    return [], VInt(x, enum='pgpy.constants.SecurityIssues')


FAILMASK = 1 | 2 | 4 | 16 | 1024


def post_fail(ex, s, v):
    x = z3.Int('issues')
    bits = [(x / 2 ** i) % 2 for i in range(11) if FAILMASK & (1 << i)]
    return [('mask', ex.truth(v, s) == (z3.Sum(bits) > 0))]


lk = repo.lookup('pgpy.constants.SecurityIssues', 'causes_signature_verify_to_fail')
print('lookup', lk[0], lk[1])
ex = Exec(repo)
st = State()
args, selfv = setup_fail(ex, st)
outs = ex.call_func(VFunc(lk[2], None, cls=lk[1], self_val=selfv, mod='pgpy.constants'), [], {}, st, {'mod': 'pgpy.constants'})
obls = []
for s, v in outs:
    for name, g in post_fail(ex, s, v):
        obls.append(Obligation('C17/causes_fail/' + name, s.facts + s.pc, g))
ok = discharge(obls)
print('C17/causes_signature_verify_to_fail', 'paths', len(outs), 'OK' if ok else 'FAILED (expected on pinned tree: D1)')
for o in obls:
    if o.result == z3.sat:
        print('   counterexample issues =', o.model[z3.Int('issues')])
