import sys, time, z3
sys.path.insert(0, '/tmp/scratch/spike')
from pyvc import *
repo = Repo()
IS = z3.SeqSort(z3.IntSort())

def discharge(obls, timeout=20000):
    ok = True
    for o in obls:
        s = z3.Solver(); s.set('timeout', timeout); s.add(*o.hyps); s.add(z3.Not(o.goal))
        t0 = time.time(); r = s.check(); o.t = time.time() - t0; o.result = r
        if r == z3.sat: o.model = s.model()
        if r != z3.unsat: ok = False
    return ok

def method_hook(fn):
    fn.is_method = True
    return fn

def run(flag_rule_name, rfc_flag):
    t0 = time.time()
    ex = Exec(repo); st = State()
    S = z3.Const('S', IS); n = z3.Length(S)
    OPSITEM = z3.Function('OPSITEM', z3.IntSort(), z3.IntSort(), z3.IntSort())
    SIGITEM = z3.Function('SIGITEM', z3.IntSort(), z3.IntSort())
    OPSREF = z3.Function('OPSREF', z3.IntSort(), z3.IntSort())
    LIT = z3.Int('LIT')
    OPSSEQ = z3.Function('OPSSEQ', z3.IntSort(), IS)     # first i one-pass items (spec)
    SIGSEQ = z3.Function('SIGSEQ', z3.IntSort(), IS)
    msg = VObj('pgpy.pgp.PGPMessage', 'msg')
    st.heap[('msg', '_message')] = VObj('pgpy.packet.packets.LiteralData', 'lit')
    st.heap[('msg', '_mdc')] = VNone()
    st.heap[('msg', '_signatures')] = VSeqObj(S, 'pgpy.pgp.PGPSignature')
    st.facts += [OPSSEQ(0) == z3.Empty(IS), SIGSEQ(0) == z3.Empty(IS)]
    def make_onepass(ex, st, o, a):
        ref = z3.simplify(OPSREF(o.ref))
        ops = VObj('pgpy.packet.packets.OnePassSignatureV3', ref)
        st.heap[('sym:' + str(ref), 'nested')] = VBool(False)        # OnePassSignatureV3.__init__
        st.heap[('sym:' + str(ref), 'of')] = VInt(o.ref)
        return [(st, ops)]
    ex.hooks[('pgpy.pgp.PGPSignature', 'make_onepass')] = method_hook(make_onepass)
    def enc(ex, st, v):
        if v.cls.endswith('OnePassSignatureV3'):
            key = 'sym:' + str(z3.simplify(v.ref))
            return OPSITEM(st.heap[(key, 'of')].z, z3.If(ex.truth(st.heap[(key, 'nested')], st), 1, 0))
        if v.cls.endswith('LiteralData'):
            return LIT
        if v.cls.endswith('PGPSignature'):
            return SIGITEM(v.ref)
        raise ToolLimit('yield of ' + v.cls)
    ex.yield_encoder = enc
    lk = repo.lookup('pgpy.pgp.PGPMessage', '__iter__')
    body = lk[2]
    fors = [x for x in ast.walk(body) if isinstance(x, ast.For)]
    fors.sort(key=lambda x: x.lineno)
    # the signed-literal branch has the last two loops (one-pass loop, signature loop)
    l_ops, l_sig = fors[-2].lineno, fors[-1].lineno
    ex.invariants[('__iter__', l_ops)] = lambda ex, st, env, i, it, pre: st.ghost.get('yielded', z3.Empty(IS)) == z3.Concat(pre, OPSSEQ(i))
    ex.invariants[('__iter__', l_sig)] = lambda ex, st, env, i, it, pre: st.ghost.get('yielded', z3.Empty(IS)) == z3.Concat(pre, SIGSEQ(i))
    def unfold(ex, st, i, it):
        k = n - 1 - i
        fs = [OPSSEQ(i + 1) == z3.Concat(OPSSEQ(i), z3.Unit(OPSITEM(S[k], rfc_flag(k, n)))),
              SIGSEQ(i + 1) == z3.Concat(SIGSEQ(i), z3.Unit(SIGITEM(S[i]))),
              z3.Implies(S[k] == S[n - 1], k == n - 1), z3.Implies(S[k] == S[0], k == 0)]   # elements are distinct objects
        return fs
    ex.unfold = unfold
    outs = ex.call_func(VFunc(body, None, cls=lk[1], self_val=msg, mod='pgpy.pgp'), [], {}, st, {'mod': 'pgpy.pgp'})
    for s, v in outs:
        spec = z3.Concat(OPSSEQ(n), z3.Unit(LIT), SIGSEQ(n))
        ex.obls.append(Obligation('C20/__iter__/post/grammar', s.facts + s.pc, s.ghost['yielded'] == spec))
    ok = discharge(ex.obls)
    print('C20/PGPMessage.__iter__ [%s] paths=%d obligations=%d %s %.2fs' % (flag_rule_name, len(outs), len(ex.obls), 'OK' if ok else 'FAILED', time.time() - t0))
    for o in ex.obls:
        if o.result != z3.unsat:
            m = o.model
            print('   NOT DISCHARGED', o.name, o.result, ('n=%s' % m.eval(n)) if m is not None else '')

run('RFC 4880 5.4: only the last one-pass packet has flag 1', lambda k, n: z3.If(k == 0, 1, 0))
run("PGPy's own rule (sanity: must verify)", lambda k, n: z3.If(k == n - 1, 0, 1))
