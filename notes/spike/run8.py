import sys, time, z3, copy as _copy
sys.path.insert(0, '/tmp/scratch/spike')
from pyvc import *
repo = Repo()
def method_hook(fn):
    fn.is_method = True
    return fn
def run(label, mutate=None):
    t0=time.time()
    ex = Exec(repo); st = State(); ex.yield_encoder = 'contextmanager'
    key = VObj('pgpy.pgp.PGPKey', 'key'); sk1 = VObj('pgpy.pgp.PGPKey', 'sk1'); sk2 = VObj('pgpy.pgp.PGPKey', 'sk2')
    comps = ['key', 'sk1', 'sk2']
    ok = {c: z3.Bool('pass_ok_' + c) for c in comps}      # does the passphrase open this component?
    for c in comps:
        st.heap[(c, '_key')] = VObj('pgpy.packet.packets.PrivKeyV4', c + '_pkt')
        st.heap[(c + '_pkt', 'keymaterial')] = VObj('pgpy.packet.fields.RSAPriv', c + '_km')
        st.ghost['secret_' + c] = z3.BoolVal(False)      # ghost: cleartext secret integers present?
    ex.hooks[('pgpy.pgp.PGPKey', 'is_public')] = lambda ex, st, o, a: [(st, VBool(False))]
    ex.hooks[('pgpy.pgp.PGPKey', 'is_protected')] = lambda ex, st, o, a: [(st, VBool(True))]
    ex.hooks[('pgpy.pgp.PGPKey', 'subkeys')] = lambda ex, st, o, a: [(st, VDict([(VStr(s='id1'), sk1), (VStr(s='id2'), sk2)]))]
    def unprotect(ex, st, o, a):
        c = o.ref[:-4]
        res = []
        for s2, good in ex.fork(st, ok[c]):
            if good:
                s2.ghost['secret_' + c] = z3.BoolVal(True)
                res.append((s2, VNone()))
            else:
                res.append((s2, Raise('PGPDecryptionError', 0)))
        return res
    ex.hooks[('pgpy.packet.packets.PrivKeyV4', 'unprotect')] = method_hook(unprotect)
    def clear(ex, st, o, a):
        st.ghost['secret_' + o.ref[:-3]] = z3.BoolVal(False)
        return [(st, VNone())]
    ex.hooks[('pgpy.packet.fields.PrivKey', 'clear')] = method_hook(clear)
    lk = repo.lookup('pgpy.pgp.PGPKey', 'unlock')
    node = lk[2]
    if mutate:
        node = mutate(_copy.deepcopy(node))
    outs = ex.call_func(VFunc(node, None, cls=lk[1], self_val=key, mod='pgpy.pgp'), [VStr(s='pw')], {}, st, {'mod': 'pgpy.pgp'})
    obls = []; kinds = {}
    for s, v in outs:
        exitkind = ('raise ' + v.exc) if isinstance(v, Raise) else 'normal'
        kinds[exitkind] = kinds.get(exitkind, 0) + 1
        for c in comps:
            obls.append(Obligation('C06/unlock/on-exit[%s]/cleared(%s)' % (exitkind, c), s.facts + s.pc, z3.Not(s.ghost['secret_' + c])))
        if isinstance(v, Raise) and v.exc == 'PGPDecryptionError':
            obls.append(Obligation('C06/unlock/raises-only-if-wrong-passphrase', s.facts + s.pc, z3.Not(z3.And(*ok.values()))))
        if s.ghost.get('with_block'):
            obls.append(Obligation('C06/unlock/block-entered-only-unlocked', s.facts + s.pc, z3.And(*ok.values())))
    bad = []
    for o in obls:
        sol = z3.Solver(); sol.add(*o.hyps); sol.add(z3.Not(o.goal)); r = sol.check()
        if r != z3.unsat: bad.append(o.name)
    print('%-46s exits=%s obligations=%d %s %.2fs' % (label, kinds, len(obls), 'OK' if not bad else 'FAILED', time.time() - t0))
    for b in bad[:4]: print('   NOT DISCHARGED', b)
run('C06/PGPKey.unlock (real source)')
def drop_finally(node):
    for n in ast.walk(node):
        if isinstance(n, ast.Try) and n.finalbody:
            n.finalbody = [ast.Pass()]
    return node
run('C06/PGPKey.unlock (mutant: finally emptied)', drop_finally)
