import sys, time, z3, subprocess
sys.path.insert(0, '/tmp/scratch/spike')
import run1
from pyvc import *
import run2 as r2
def both(obls, timeout=20000):
    ok=True
    for o in obls:
        s=z3.Solver(); s.set('timeout',timeout); s.add(*o.hyps); s.add(z3.Not(o.goal))
        t0=time.time(); r=s.check(); tz=time.time()-t0
        open('/tmp/scratch/spike/q.smt2','w').write('(set-logic ALL)\n'+s.to_smt2())
        t1=time.time()
        c=subprocess.run(['/usr/bin/cvc5','--strings-exp','--tlimit=20000','/tmp/scratch/spike/q.smt2'],capture_output=True,text=True)
        tc=time.time()-t1
        o.result=r; o.t=tz
        print('      z3 %-7s %5.2fs | cvc5 %-8s %5.2fs | %s'%(r,tz,(c.stdout.strip() or c.stderr.strip())[:8],tc,o.name))
        if r!=z3.unsat and 'unsat' not in c.stdout: ok=False
    return ok
r2.discharge=both
r2.header_parse_roundtrip('new')
