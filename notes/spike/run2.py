import sys, time, z3
sys.path.insert(0, '/tmp/scratch/spike')
from pyvc import *
from run1 import repo, discharge, U, cat, be, spec_new_length

print('-' * 100)


def report(label, outs, obls, t0):
    ok = discharge(obls)
    print('%-52s paths=%-3d obligations=%-3d %s  %.2fs' % (label, len(outs), len(obls), 'OK' if ok else 'FAILED', time.time() - t0))
    for o in obls:
        if o.result != z3.unsat:
            mdl = ''
            if o.model is not None:
                mdl = str({str(d): o.model[d] for d in o.model.decls() if '!' not in str(d) and str(d) not in ('BL', 'BE', 'B2I', 'H')})[:160]
            print('   NOT DISCHARGED', o.name, o.result, mdl)
    return ok


# ---------------- MPI.to_mpibytes and MPI(bytearray) round trip
def mpi_roundtrip(require_positive):
    t0 = time.time()
    ex = Exec(repo)
    st = State()
    v = z3.Int('v')
    tail = z3.Const('tail', BYTES)
    st.pc += [v >= 0]
    if require_positive:
        st.pc += [v > 0]
    blv = ex.bl(st, v)
    st.pc += [blv < 65536]
    mpi = VInt(v, enum='pgpy.packet.types.MPI')
    lk = repo.lookup('pgpy.packet.types.MPI', 'to_mpibytes')
    outs1 = ex.call_func(VFunc(lk[2], None, cls=lk[1], self_val=mpi, mod='pgpy.packet.types'), [], {}, st, {'mod': 'pgpy.packet.types'})
    obls = []
    outs = []
    for s, enc in outs1:
        if isinstance(enc, Raise):
            obls.append(Obligation('C09/MPI.to_mpibytes/safety/%s@L%s' % (enc.exc, enc.where), s.facts + s.pc, z3.BoolVal(False)))
            outs.append((s, enc))
            continue
        encz = ex.seq(enc, s)
        # spec layout: be16(bitlen) || value octets, total length 2 + ceil(bitlen/8)
        obls.append(Obligation('C09/MPI.to_mpibytes/post/len', s.facts + s.pc, z3.Length(encz) == 2 + (blv + 7) / 8))
        buf = ex.new_buf(s, z3.Concat(encz, tail))
        lk2 = repo.lookup('pgpy.packet.types.MPI', '__new__')
        for s2, dec in ex.call_func(VFunc(lk2[2], None, cls=lk2[1], self_val=VClass('pgpy.packet.types.MPI'), mod='pgpy.packet.types'), [buf], {}, s, {'mod': 'pgpy.packet.types'}):
            outs.append((s2, dec))
            if isinstance(dec, Raise):
                obls.append(Obligation('C09/MPI.decode/safety/%s@L%s' % (dec.exc, dec.where), s2.facts + s2.pc, z3.BoolVal(False)))
                continue
            obls.append(Obligation('C09/mpi-roundtrip/value', s2.facts + s2.pc, dec.z == v))
            obls.append(Obligation('C09/mpi-roundtrip/rest', s2.facts + s2.pc, s2.heap[buf.cell] == tail))
    return report('C09/MPI roundtrip (v>0)' if require_positive else 'C09/MPI roundtrip (v>=0)  [expect D2 for v=0]', outs, obls, t0)


mpi_roundtrip(True)
mpi_roundtrip(False)


# ---------------- Header.length setter (bytearray, new format, non-partial) + llen getter
def header_obj(st, ref, lenfmt, llen=None):
    o = VObj('pgpy.packet.types.Header', ref)
    st.heap[(ref, '_lenfmt')] = VInt(lenfmt)
    st.heap[(ref, '_len')] = VInt(z3.Int(ref + '_len0'))
    st.heap[(ref, '_llen')] = VInt(llen if llen is not None else z3.Int(ref + '_llen0'))
    st.heap[(ref, '_partial')] = VBool(False)
    return o


def length_bin_new():
    t0 = time.time()
    ex = Exec(repo)
    st = State()
    p = z3.Const('p', BYTES)
    st.pc += [z3.Length(p) >= 5]
    fo = p[0]
    st.facts += [fo >= 0, fo < 256]
    st.pc += [z3.Or(fo < 224, fo == 255)]          # non-partial
    buf = ex.new_buf(st, p)
    h = header_obj(st, 'h', 1)
    outs = ex.setattr(h, 'length', buf, st, {'mod': 'pgpy.types'}, None)
    obls = []
    for s, c in outs:
        if isinstance(c, Raise):
            obls.append(Obligation('C09/Header.length_bin/safety/%s@L%s' % (c.exc, c.where), s.facts + s.pc, z3.BoolVal(False)))
            continue
        ln = s.heap[('h', '_len')].z
        rest = s.heap[buf.cell]
        # spec decode per RFC 4880 4.2.2
        e1, e2, e3, e4 = p[1], p[2], p[3], p[4]
        spec_len = z3.If(fo < 192, fo, z3.If(fo < 224, (fo - 192) * 256 + e1 + 192, e1 * 2 ** 24 + e2 * 2 ** 16 + e3 * 2 ** 8 + e4))
        spec_used = z3.If(fo < 192, 1, z3.If(fo < 224, 2, 5))
        obls.append(Obligation('C09/Header.length_bin[new]/post/value', s.facts + s.pc, ln == spec_len))
        obls.append(Obligation('C09/Header.length_bin[new]/post/rest', s.facts + s.pc, rest == z3.Extract(p, spec_used, z3.Length(p) - spec_used)))
        # roundtrip: encode(decode) is the canonical (shortest) form and decodes to the same value: llen getter agrees
        for s2, ll in ex.getattr(h, 'llen', s, {'mod': 'pgpy.types'}):
            obls.append(Obligation('C09/Header.llen[new]/post', s2.facts + s2.pc, ll.z == z3.If(ln < 192, 1, z3.If(ln < 8384, 2, 5))))
    return report('C09/Header.length_bin[new, non-partial] + llen', outs, obls, t0)


length_bin_new()


# ---------------- packet Header.parse then __bytearray__ (new format): canonical re-encoding decodes to same
def header_parse_roundtrip(fmt):
    t0 = time.time()
    ex = Exec(repo)
    st = State()
    p = z3.Const('p', BYTES)
    st.pc += [z3.Length(p) >= 6]
    t = p[0]
    st.facts += [t >= 0, t < 256]
    st.pc += [t >= 128]
    if fmt == 'new':
        st.pc += [t >= 192, z3.Or(p[1] < 224, p[1] == 255)]
        st.facts += [p[1] >= 0, p[1] < 256]
    else:
        st.pc += [t < 192, t % 4 != 3]
    buf = ex.new_buf(st, p)
    h = VObj('pgpy.packet.types.Header', 'h')
    # state after Header.__init__ (defaults), as in the real constructor
    for k, v in (('_len', VInt(1)), ('_llen', VInt(1)), ('_lenfmt', VInt(1)), ('_partial', VBool(False)), ('_tag', VInt(0))):
        st.heap[('h', k)] = v
    lk = repo.lookup('pgpy.packet.types.Header', 'parse')
    outs = ex.call_func(VFunc(lk[2], None, cls=lk[1], self_val=h, mod='pgpy.packet.types'), [buf], {}, st, {'mod': 'pgpy.packet.types'})
    obls = []
    allouts = []
    for s, c in outs:
        if isinstance(c, Raise):
            obls.append(Obligation('C08/Header.parse[%s]/safety/%s@L%s' % (fmt, c.exc, c.where), s.facts + s.pc, z3.BoolVal(False)))
            allouts.append((s, c))
            continue
        lk2 = repo.lookup('pgpy.packet.types.Header', '__bytearray__')
        for s2, out in ex.call_func(VFunc(lk2[2], None, cls=lk2[1], self_val=h, mod='pgpy.packet.types'), [], {}, s, {'mod': 'pgpy.packet.types'}):
            allouts.append((s2, out))
            if isinstance(out, Raise):
                obls.append(Obligation('C08/Header.__bytearray__[%s]/safety/%s@L%s' % (fmt, out.exc, out.where), s2.facts + s2.pc, z3.BoolVal(False)))
                continue
            o = ex.seq(out, s2)
            ln = s2.heap[('h', '_len')].z
            tag = s2.heap[('h', '_tag')].z
            if fmt == 'new':
                obls.append(Obligation('C09/packet-header[new]/post/rfc', s2.facts + s2.pc, o == z3.Concat(U(192 + tag), spec_new_length(ln))))
                obls.append(Obligation('C09/packet-header[new]/post/tag', s2.facts + s2.pc, tag == t - 192))
            else:
                w = z3.If(t % 4 == 0, 1, z3.If(t % 4 == 1, 2, 4))
                obls.append(Obligation('C09/packet-header[old]/post/same-octets', s2.facts + s2.pc, z3.Concat(o, s2.heap[buf.cell]) == p))
                obls.append(Obligation('C09/packet-header[old]/post/tag', s2.facts + s2.pc, tag == (t - 128) / 4))
    return report('C09/packet Header.parse -> __bytearray__ [%s]' % fmt, allouts, obls, t0)


header_parse_roundtrip('new')
header_parse_roundtrip('old')
