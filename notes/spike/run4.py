import sys, time, z3, hashlib
sys.path.insert(0, '/tmp/scratch/spike')
from pyvc import *
from run1 import repo, discharge, U, cat, be
from run2 import report
print('-'*100)
SPEC = {'Simple': 0, 'Salted': 1, 'Iterated': 3}
HASHES = {'MD5': 1, 'SHA1': 2, 'RIPEMD160': 3, 'SHA256': 8, 'SHA384': 9, 'SHA512': 10, 'SHA224': 11}
CIPH = {'CAST5': 3, 'TripleDES': 2, 'AES256': 9}
KEYBITS = {'CAST5': 128, 'TripleDES': 192, 'AES256': 256}

def derive(specname, hname, cname, allow_empty=True, pass_is_bytes=True):
    t0 = time.time()
    ex = Exec(repo); st = State()
    o = VObj('pgpy.packet.fields.String2Key', 's2k')
    c = z3.Int('c'); salt = z3.Const('salt', BYTES); pw = z3.Const('pw', BYTES)
    st.pc += [c >= 0, c <= 255, z3.Length(salt) == 8]
    if not allow_empty: st.pc += [z3.Length(pw) > 0]
    st.heap[('s2k', '_specifier')] = VInt(SPEC[specname], enum='pgpy.constants.String2KeyType')
    st.heap[('s2k', '_halg')] = VInt(HASHES[hname], enum='pgpy.constants.HashAlgorithm')
    st.heap[('s2k', '_encalg')] = VInt(CIPH[cname], enum='pgpy.constants.SymmetricKeyAlgorithm')
    st.heap[('s2k', '_count')] = VInt(c)
    st.heap[('s2k', 'salt')] = ex.new_buf(st, salt)
    lk = repo.lookup('pgpy.packet.fields.String2Key', 'derive_key')
    outs = ex.call_func(VFunc(lk[2], None, cls=lk[1], self_val=o, mod='pgpy.packet.fields'), [VBytes(pw)], {}, st, {'mod': 'pgpy.packet.fields'})
    obls = []
    hs = hashlib.new(hname).digest_size; kb = KEYBITS[cname] // 8
    nctx = -(-kb // hs)
    for s, v in outs:
        lab = 'C12/derive_key[%s,%s,%s]' % (specname, hname, cname)
        if isinstance(v, Raise):
            obls.append(Obligation('%s/safety/%s@L%s' % (lab, v.exc, v.where), s.facts + s.pc, z3.BoolVal(False))); continue
        hashed = s.ghost.get('hashed', [])
        obls.append(Obligation(lab + '/post/contexts', s.facts + s.pc, z3.BoolVal(len(hashed) == nctx)))
        X = z3.Concat(salt, pw) if specname != 'Simple' else pw
        L = z3.Length(X)
        count = (16 + (c % 16)) * 2 ** 6
        cnt = z3.IntVal(0)
        for k in range(16): cnt = z3.If(c / 16 == k, (16 + (c % 16)) * 2 ** (k + 6), cnt)
        N = z3.If(cnt > L, cnt, L) if specname == 'Iterated' else L
        digests = []
        for i, (alg, inp, dig) in enumerate(hashed):
            zeros = z3.Empty(BYTES) if i == 0 else cat(*[U(0)] * i)
            data = z3.Extract(inp, i, z3.Length(inp) - i)
            obls.append(Obligation(lab + '/post/ctx%d-preload' % i, s.facts + s.pc, z3.Extract(inp, 0, i) == zeros))
            obls.append(Obligation(lab + '/post/ctx%d-len' % i, s.facts + s.pc, z3.Length(data) == N))
            j = z3.Int('j')
            inst = []
            from lower import lower_nth
            for (R, XX, k) in s.ghost.get('repeats', []):
                inst.append(z3.Implies(z3.And(0 <= j, j < z3.Length(R)), R[j] == XX[j % z3.Length(XX)]))
            from lower import lower_obligation
            hy, gl, dropped = lower_obligation(s.facts + s.pc + inst + [0 <= j, j < N], data[j] == X[j % L])
            obls.append(Obligation(lab + '/post/ctx%d-stream(lowered,dropped=%d)' % (i, dropped), hy, gl))
            digests.append(dig)
        full = digests[0] if len(digests) == 1 else z3.Concat(*digests)
        obls.append(Obligation(lab + '/post/key', s.facts + s.pc, ex.seq(v, s) == z3.Extract(full, 0, kb)))
    return report('C12/derive_key[%s,%s,%s]%s' % (specname, hname, cname, '' if allow_empty else ' pw!=""'), outs, obls, t0)

derive('Iterated', 'SHA256', 'AES256')
derive('Iterated', 'SHA1', 'AES256')
