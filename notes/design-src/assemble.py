import re, json, glob, os
partA = open('/verif/.scratch/partA.md').read()
tables = open('/verif/.scratch/tables.md').read()
table = tables.split('\n\n')[0]
funcs = '\n'.join(l for l in tables.split('\n') if l.startswith('**C'))
# mutant table
rows = []
for l in open('/verif/.scratch/mutant_results.txt'):
    m = re.match(r'(C\d+-\d) rc=(\d+) time=(\d+)s violations=(\d+) without-input=(\d+) \| ?(.*)', l.strip())
    if not m:
        continue
    b, rc, t, nv, nf, first = m.groups()
    meta = json.load(open('/verif/seeded/%s/meta.json' % b))
    first = first.strip().replace('|', '/')
    if first.startswith('obligation '):
        by = 'obligation `%s`' % first.split()[1]
    elif first.startswith('bounded component'):
        by = 'bounded `%s`' % first.split()[2].rstrip(':')
    elif first.startswith('runtime contract'):
        by = 'runtime contract sweep'
    else:
        by = first[:80]
    verdict = 'caught (exit 1, %s VIOLATION lines%s)' % (nv, ', replayed input' if int(nv) > int(nf) else ', no-failing-input-found') if rc == '1' else 'MISSED (exit %s)' % rc
    rows.append('| %s | %s | %s | %s | %s |' % (b, meta['summary'].replace('|', '/')[:150], meta['needs'].replace('|', '/')[:130], verdict, by if rc == '1' else '-'))
mt = '| id | change | needs | `./check %s` on the changed tree | first reporter |\n|---|---|---|---|---|\n' % '<property>' + '\n'.join(rows)
caught = sum(1 for r in rows if 'caught' in r)
mt += '\n\n%d of %d caught by the check of the property they were written for.' % (caught, len(rows))
partA = partA.replace('<<TABLE>>', table + '\n\nFunctions under contract per property (qualified names under `pgpy.`; from the evidence files):\n\n' + funcs)
partA = partA.replace('<<MUTANTS>>', mt + '\n\n' + open('/verif/.scratch/mutant_notes.md').read())
old = open('/verif/DESIGN.md').read()
if '# Part B' in old:
    old = old.split('# Part B — design-phase text (rationale; superseded by Part A where they differ)')[1]
else:
    old = old[old.index('## 1. What is being built'):]
    old = '\n' + old
open('/verif/DESIGN.md', 'w').write(partA.rstrip('\n') + '\n' + old)
print('DESIGN.md written', len(partA), caught, len(rows))
