from pyvc import runner
from contracts import usage, verdicts

PID = 'C16'


def items():
    from contracts import encryption, keymgmt, secretkeys
    # "decryption finds the addressed subkey", "the produced ... session-key packet names exactly the key that was used"
    # 'private operations refuse on ... locked keys': what is locked after every exit of unlock(), and what `unlocked` means
    other = [s for s in encryption.scenarios() + keymgmt.scenarios() + secretkeys.scenarios() if PID in s.props]
    return usage.scenarios() + [s for s in verdicts.SCENARIOS if PID in s.props] + other


def run(tier='quick', seed=0, only=None):
    its = [i for i in items() if not only or only in i.cid]
    bounded = []
    if not only:
        from bounded import usage as _b
        bounded = [_b.component]
    return runner.run_property(PID, its, bounded=bounded, tier=tier, seed=seed, level='proof',
                               trusted_base=['pyvc symbolic executor', 'z3 5.1 / cvc5 1.0.3'],
                               assumptions=['components: primary followed by two subkeys (the loop is unrolled over this concrete component list; '
                                            'flag sets fully symbolic)'])
