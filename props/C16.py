from pyvc import runner
from contracts import usage, verdicts

PID = 'C16'


def items():
    return usage.scenarios() + [s for s in verdicts.SCENARIOS if PID in s.props]


def run(tier='quick', seed=0, only=None):
    its = [i for i in items() if not only or only in i.cid]
    bounded = []
    if not only:
        from bounded import usage as _b
        bounded = [_b.component]
    return runner.run_property(PID, its, bounded=bounded, tier=tier, seed=seed, level='proof',
                               trusted_base=['pyvc symbolic executor', 'z3 5.1 / cvc5 1.0.3'],
                               assumptions=['components: primary followed by two subkeys (the loop is unrolled over this concrete component list; '
                                            'flag sets fully symbolic)'])
