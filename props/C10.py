from pyvc import runner
from contracts import armor
from bounded import armor as barmor

PID = 'C10'


def items():
    return armor.scenarios()


def run(tier='quick', seed=0, only=None):
    its = [i for i in items() if not only or only in i.cid]
    return runner.run_property(PID, its, bounded=[] if only else [barmor.component, barmor.short_crc_component, barmor.header_isolation_component], tier=tier, seed=seed, level='proof',
                               trusted_base=['pyvc (bit-vector translation of the crc24 loop body)', 'z3 5.1', 'specs/armor.py reference CRC by polynomial division'],
                               assumptions=['the armor reader (regular expression) and base64 are outside the verifier: bounded component C10/armor-decoder',
                                            'crc24 loop: fold semantics follow from the checked shape `crc = INIT; for b in data: BODY; return crc & MASK`'])
