from pyvc import runner
from bounded import keyring

PID = 'C19'


def items():
    return []


def run(tier='quick', seed=0, only=None):
    return runner.run_property(PID, [], bounded=[keyring.component], tier=tier, seed=seed, level='exploration',
                               trusted_base=['the class invariant I(keyring) stated in bounded/keyring.py', 'CPython'],
                               assumptions=['bounded stand-in only: the layered alias index (deque of dicts, re-sorted per alias) needs quantified '
                                            'array-of-map invariants that the VC generator does not offer; nothing is claimed beyond the enumerated histories'],
                               explanation='runtime class invariant checked after every step of every load/unload history in the stated bound')
