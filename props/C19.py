from pyvc import runner
from bounded import keyring, keyring_step, keyring_subkeys
from contracts import keyring as kr

PID = 'C19'


def items():
    # the per-call clauses within the verifier's reach: selection through the alias layers, the report, and the index WRITERS (_add_alias over
    # abstract layers with updates and a frame for an arbitrary other identifier; _sort_alias; _add_key; unload on a concrete shape with symbolic
    # links; load; __contains__). What stays bounded is the invariant that ties them together over whole histories.
    # load() registers what PGPKey.from_blob / from_file hand back: the key and the dict of every key of the blob (PGPKey.parse: one entry per
    # distinct primary key and half - also the other half of the first key)
    from contracts import tpk
    return kr.scenarios() + [s for s in tpk.scenarios() if 'PGPKey.parse[' in s.cid]


def run(tier='quick', seed=0, only=None):
    its = [i for i in items() if not only or only in i.cid]
    return runner.run_property(PID, its, bounded=[] if only else [keyring.component, keyring_step.component, keyring_subkeys.component], tier=tier, seed=seed, level='exploration',
                               trusted_base=['the class invariant I(keyring) stated in bounded/keyring.py and bounded/keyring_step.py', 'CPython'],
                               assumptions=['the step functions of the index are under contract one call at a time; that their contracts compose to the class invariant over '
                                            'whole histories (a quantified array-of-map invariant) is not proved: bounded stand-ins',
                                            'keyring-histories, keyring-histories-with-subkey-objects: nothing is claimed beyond the enumerated histories',
                                            'keyring-invariant-is-inductive: the invariant is checked to be preserved by load/unload from EVERY state of a '
                                            'bounded shape (not only reachable ones), so history length is unbounded there but the shape (universe of 6 key '
                                            'objects, layer arrangements) is not; natively executed, not a proof'],
                               explanation='runtime class invariant: (1) checked after every step of every load/unload history in the stated bound, '
                                           '(2) checked to be inductive over a bounded state shape')
