from pyvc import runner
from bounded import keyring, keyring_step, keyring_subkeys
from contracts import keyring as kr

PID = 'C19'


def items():
    # the per-call clauses within the verifier's reach: selection through the alias layers (layers and key table abstract maps)
    return kr.scenarios()


def run(tier='quick', seed=0, only=None):
    its = [i for i in items() if not only or only in i.cid]
    return runner.run_property(PID, its, bounded=[] if only else [keyring.component, keyring_step.component, keyring_subkeys.component], tier=tier, seed=seed, level='exploration',
                               trusted_base=['the class invariant I(keyring) stated in bounded/keyring.py and bounded/keyring_step.py', 'CPython'],
                               assumptions=['bounded stand-ins only for the index itself: the layered alias index (deque of dicts, re-sorted per alias) needs '
                                            'quantified array-of-map invariants that the VC generator does not offer',
                                            'keyring-histories, keyring-histories-with-subkey-objects: nothing is claimed beyond the enumerated histories',
                                            'keyring-invariant-is-inductive: the invariant is checked to be preserved by load/unload from EVERY state of a '
                                            'bounded shape (not only reachable ones), so history length is unbounded there but the shape (universe of 6 key '
                                            'objects, layer arrangements) is not; natively executed, not a proof'],
                               explanation='runtime class invariant: (1) checked after every step of every load/unload history in the stated bound, '
                                           '(2) checked to be inductive over a bounded state shape')
