from pyvc import runner
from contracts import tpk, subpackets

PID = 'C14'


def items():
    # 'binary or armored': the armor writer, its checksum and the reader are part of every armored export / import
    from contracts import armor
    from contracts import packets, subpacket_values       # what the copies exported by key.pubkey / copy.copy carry; option collections
    return tpk.scenarios() + [s for s in subpackets.scenarios() + armor.scenarios() + packets.scenarios() + subpacket_values.scenarios() if PID in getattr(s, 'props', ())]


def run(tier='quick', seed=0, only=None):
    its = [i for i in items() if not only or only in i.cid]
    bounded = []
    if not only:
        from bounded import tpk as bt
        from bounded import armor as _ba
        bounded = [bt.component, _ba.short_crc_component]          # (an armored export whose checksum has a zero leading octet: 1 in 256 by chance)
    return runner.run_property(PID, its, bounded=bounded, tier=tier, seed=seed, level='proof',
                               trusted_base=['pyvc symbolic executor', 'z3 5.1 / cvc5 1.0.3'],
                               assumptions=['export: component counts are concrete (2 key signatures, 2 user ids, 2 subkeys), every flag and octet string symbolic; '
                                            'the import side (PGPKey.parse: groupby pipeline) is a bounded component'])
