from pyvc import runner
from contracts import encryption, secretkeys, messages

PID = 'C03'


def items():
    extra = [s for s in secretkeys.scenarios() + messages.scenarios() if PID in s.props]
    # the passphrase-to-key derivation every passphrase-protected message depends on (full product of configurations: C12)
    from contracts import s2k
    kdf = [s for s in s2k.scenarios() if any(t in s.cid for t in ('[Iterated,SHA256,AES256,bytes]', '[Iterated,SHA1,CAST5,str]', '[Salted,SHA256,AES256,bytes]'))]
    # what is encrypted is the (possibly compressed) packet sequence, and decryption hands back what decompression yields: the codec wiring
    from contracts import compression
    return [s for s in encryption.scenarios() if PID in s.props] + extra + kdf + [s for s in compression.scenarios() if PID in s.props]


def run(tier='quick', seed=0, only=None):
    its = [i for i in items() if not only or only in i.cid]
    bounded = []
    if not only:
        bounded = BOUNDED()
    return runner.run_property(PID, its, bounded=bounded, tier=tier, seed=seed, level='proof',
                               trusted_base=['pyvc symbolic executor', 'z3 5.1 / cvc5 1.0.3', 'specs/indep.py independent RFC 4880/6637 decryptor (bounded components)'],
                               assumptions=ASSUME)


def BOUNDED():
    from bounded import encryption as be
    return [be.component]


ASSUME = ['ciphers, RSA, ECDH, key wrap, KDF and compression are externals (uninterpreted; inverse-pair behaviour exercised by the bounded component)',
          'ECDH (RFC 6637 section 8): ECDHCipherText.encrypt / decrypt and ECKDF.derive_key are under contract as wirings of the externals (fresh ephemeral key, exchange, KDF parameter block, key wrap over the 8-octet padded m); that wrap/unwrap, exchange and KDF agree on both sides is exercised by the bounded component']
