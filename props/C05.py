from pyvc import runner
from contracts import subpackets, hashdata, codecs, subpacket_values

PID = 'C05'


def items():
    return subpackets.scenarios() + [s for s in hashdata.scenarios() + subpacket_values.scenarios() if PID in s.props] + [c for c in codecs.CONTRACTS if PID in c.props]


def run(tier='quick', seed=0, only=None):
    its = [i for i in items() if not only or only in i.cid]
    bounded = []
    if not only:
        from bounded import hashed_area as _b
        bounded = [_b.component]
    return runner.run_property(PID, its, bounded=bounded, tier=tier, seed=seed, level='proof',
                               trusted_base=['pyvc symbolic executor', 'z3 5.1 / cvc5 1.0.3'],
                               assumptions=['callee contract of the subpacket dispatcher SignatureSP(packet): consumes >= 1 octets from the front '
                                            'of its argument in place, or raises (assumed in C05; the header codec is proved in C09)'])
