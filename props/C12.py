from pyvc import runner
from contracts import s2k, codecs

PID = 'C12'


def items():
    return s2k.scenarios() + [c for c in codecs.CONTRACTS if PID in c.props]


def run(tier='quick', seed=0, only=None):
    its = [i for i in items() if not only or only in i.cid]
    return runner.run_property(PID, its, tier=tier, seed=seed, level='proof',
                               trusted_base=['pyvc symbolic executor', 'z3 5.1 / cvc5 1.0.3', 'CPython semantics of modelled builtins (bytes * n: '
                                             'length n*L, octet i is X[i mod L])', 'the RFC 4880 3.7.1 statement encoded in contracts/s2k.py'],
                               assumptions=['hashlib: update(a); update(b); digest() == H(alg, a || b) (external, uninterpreted)',
                                            'str passphrases are modelled by their UTF-8 octets (str.encode is external)',
                                            'configuration product (hash x cipher) is enumerated concretely from the enum tables in the AST'])
