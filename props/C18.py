from pyvc import runner
from contracts import fingerprints, codecs, pubexport

PID = 'C18'


def items():
    base = fingerprints.scenarios() + [c for c in codecs.CONTRACTS if PID in c.props] + [s for s in pubexport.scenarios() if PID in s.props]
    # where the id is written (issuer, issuer fingerprint, recipient), where key packets are read and converted (a conversion that changes
    # the hashed body changes the fingerprint): the scenarios of other modules that carry this property's tag
    from contracts import encryption, keymgmt, secretkeys, signing, subpacket_values, packets
    seen = {i.cid for i in base}
    for mod in (encryption, keymgmt, secretkeys, signing, subpacket_values, packets):
        for s in mod.scenarios():
            if PID in getattr(s, 'props', ()) and s.cid not in seen:
                seen.add(s.cid)
                base.append(s)
    return base


def run(tier='quick', seed=0, only=None):
    its = [i for i in items() if not only or only in i.cid]
    bounded = []
    if not only:
        from bounded import fingerprints as _b
        bounded = [_b.component]
    return runner.run_property(PID, its, bounded=bounded, tier=tier, seed=seed, level='proof',
                               trusted_base=['pyvc symbolic executor', 'z3 5.1 / cvc5 1.0.3'],
                               assumptions=['hashlib sha1 is an uninterpreted external H', 'datetime/calendar are externals: timegm(d.utctimetuple()) '
                                            'is the epoch of the instant d'])
