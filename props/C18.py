from pyvc import runner
from contracts import fingerprints, codecs, pubexport

PID = 'C18'


def items():
    return fingerprints.scenarios() + [c for c in codecs.CONTRACTS if PID in c.props] + [s for s in pubexport.scenarios() if PID in s.props]


def run(tier='quick', seed=0, only=None):
    its = [i for i in items() if not only or only in i.cid]
    bounded = []
    if not only:
        from bounded import fingerprints as _b
        bounded = [_b.component]
    return runner.run_property(PID, its, bounded=bounded, tier=tier, seed=seed, level='proof',
                               trusted_base=['pyvc symbolic executor', 'z3 5.1 / cvc5 1.0.3'],
                               assumptions=['hashlib sha1 is an uninterpreted external H', 'datetime/calendar are externals: timegm(d.utctimetuple()) '
                                            'is the epoch of the instant d'])
