from pyvc import runner
from contracts import messages, codecs, packets, partial, compression

PID = 'C20'


def items():
    return messages.scenarios() + [s for s in packets.scenarios() + partial.scenarios() if PID in s.props] + compression.scenarios() + \
        [s for s in __import__('contracts.armor', fromlist=['x']).scenarios() if PID in s.props]       # 'import from binary or armor'


def run(tier='quick', seed=0, only=None):
    its = [i for i in items() if not only or only in i.cid]
    bounded = []
    if not only:
        from bounded import messages as _b
        from bounded import armor as _ba
        # imported messages may use partial body lengths (4.2.2.4); the armored export carries the message's OWN header lines (a charset hint
        # given to one message is not found on another)
        bounded = [_b.component, codecs.partial_lengths_bounded, _ba.short_crc_component, _ba.header_isolation_component]
    return runner.run_property(PID, its, bounded=bounded, tier=tier, seed=seed, level='proof',
                               trusted_base=['pyvc symbolic executor', 'z3 5.1 / cvc5 1.0.3'],
                               assumptions=['compression externals (zlib/bz2): contracts stated in contracts/compression.py (framing of zlib.compress; zlib.decompress takes every RFC 1951 stream exactly with wbits=-15); that they are inverse pairs is checked natively, bounded'])
