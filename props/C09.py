from pyvc import runner
from contracts import codecs, partial

PID = 'C09'


def items():
    return [c for c in codecs.CONTRACTS if PID in c.props] + (partial.scenarios() if partial.ENABLED else [])


def run(tier='quick', seed=0, only=None):
    its = [i for i in items() if not only or only in i.cid]
    bounded = [] if only else [codecs.partial_lengths_bounded, codecs.timestamps_bounded, codecs.mpi_reencode_bounded]
    return runner.run_property(PID, its, bounded=bounded, tier=tier, seed=seed, level='proof',
                               trusted_base=['pyvc symbolic executor', 'z3 5.1 / cvc5 1.0.3', 'CPython semantics of modelled builtins',
                                             'spec functions in /verif/specs/lengths.py, mpi.py transcribe RFC 4880 3.2, 4.2, 5.2.3.1'],
                               assumptions=['Python ints are unbounded: mathematical integers are exact'])
