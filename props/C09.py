from pyvc import runner
from contracts import codecs, partial

PID = 'C09'


def items():
    # 'subpacket lengths': the areas of a signature are accounted for by the octets read (SubPackets.parse, loop contracts) and the timestamps
    # are written from the instant, whatever the time zone (scenarios tagged C09 in the packet / subpacket modules)
    from contracts import subpackets, packets, subpacket_values
    more = [s for s in subpackets.scenarios() + packets.scenarios() + subpacket_values.scenarios() if PID in getattr(s, 'props', ())]
    return [c for c in codecs.CONTRACTS if PID in c.props] + (partial.scenarios() if partial.ENABLED else []) + more


def _subpacket_widths(tier='quick', seed=0, known=()):
    from bounded import subpacket_lengths
    return subpacket_lengths.component(tier=tier, seed=seed, known=known)


def run(tier='quick', seed=0, only=None):
    its = [i for i in items() if not only or only in i.cid]
    bounded = [] if only else [codecs.partial_lengths_bounded, codecs.timestamps_bounded, codecs.mpi_reencode_bounded, _subpacket_widths]
    return runner.run_property(PID, its, bounded=bounded, tier=tier, seed=seed, level='proof',
                               trusted_base=['pyvc symbolic executor', 'z3 5.1 / cvc5 1.0.3', 'CPython semantics of modelled builtins',
                                             'spec functions in /verif/specs/lengths.py, mpi.py transcribe RFC 4880 3.2, 4.2, 5.2.3.1'],
                               assumptions=['Python ints are unbounded: mathematical integers are exact'])
