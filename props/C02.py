from pyvc import runner
from contracts import signing, hashdata, sigalgs, subpacket_values, packets, subpackets, messages, tpk

PID = 'C02'
PENDING_TRIAGE = False


def items():
    return signing.scenarios() + [s for s in subpacket_values.scenarios() + packets.scenarios() + subpackets.scenarios() if PID in getattr(s, 'props', ())] + [s for s in hashdata.scenarios() + sigalgs.scenarios() if PID in s.props] + \
        _pub() + [s for s in messages.scenarios() + tpk.scenarios() if PID in s.props]      # copies of signatures (key.pubkey, copy.copy) carry every field; how a cleartext-signed message is written out ('after export ... it still verifies')


def _pub():
    # a binding signature or subkey revocation made through the secret key object hashes the body of PrivKeyV4.pubkey(): for ECDH that body
    # carries the key's own KDF parameters (seeded change C02-13 filled in the curve defaults instead); proved for C07/C18, reused here
    from contracts import pubexport
    return [s for s in pubexport.scenarios() if 'PrivKeyV4.pubkey[ECDH' in s.cid]


def run(tier='quick', seed=0, only=None):
    its = [i for i in items() if not only or only in i.cid]
    bounded = []
    if not only and PENDING_TRIAGE is False:
        from bounded import sig_conformance
        bounded = [sig_conformance.component]
    return runner.run_property(PID, its, bounded=bounded, tier=tier, seed=seed, level='proof',
                               trusted_base=['pyvc symbolic executor', 'z3 5.1 / cvc5 1.0.3', 'specs/indep.py independent RFC 4880 verifier/signer (bounded component)'],
                               assumptions=['signer externals (cryptography) are uninterpreted', 'subpacket serialisers and the options of _sign are covered by '
                                            'the bounded differential component, not by obligations'])
