from pyvc import runner
from contracts import signing, hashdata, messages

PID = 'C11'


def items():
    return [s for s in signing.scenarios() + messages.scenarios() if PID in s.props] + [s for s in hashdata.scenarios() if 'CanonicalDocument' in s.cid]


def run(tier='quick', seed=0, only=None):
    its = [i for i in items() if not only or only in i.cid]
    bounded = []
    if not only:
        from bounded import cleartext
        bounded = [cleartext.component]
    return runner.run_property(PID, its, bounded=bounded, tier=tier, seed=seed, level='exploration',
                               trusted_base=['bounded/cleartext.py: RFC 4880 7.1 spec functions (dash escaping, signed octets) and independent armor reader', 'pyvc for the two lemmas'],
                               assumptions=['regular-expression substitution is the whole mechanism (dash_escape, dash_unescape, CR LF canonicalisation, armor regex): '
                                            'no solver here decides it; the property is decided only over the enumerated texts (bounded stand-in)',
                                            'deductive lemmas only: sign() picks type 0x01 for cleartext messages; hashdata canonicalises with exactly one '
                                            're.subn(rb"\\r?\\n", b"\\r\\n", subject) and appends the RFC trailer; the cleartext template (header line, Hash header, '
                                            'empty line, dash-escaped text, signature block) and PGPMessage.new(cleartext=True)'],
                               explanation='bounded stand-in (all texts over an adversarial alphabet up to a length bound) + deductive lemmas around the regular expressions')
