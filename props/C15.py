from pyvc import runner
from contracts import keymgmt, usage, tpk, secretkeys, signing

PID = 'C15'


def items():
    return keymgmt.scenarios() + [s for s in usage.scenarios() + tpk.scenarios() + secretkeys.scenarios() + signing.scenarios() if PID in getattr(s, 'props', ())]


def run(tier='quick', seed=0, only=None):
    its = [i for i in items() if not only or only in i.cid]
    bounded = []
    if not only:
        from bounded import histories
        bounded = [histories.component]
    return runner.run_property(PID, its, bounded=bounded, tier=tier, seed=seed, level='exploration',
                               trusted_base=['bounded/histories.py runtime invariant well_formed(key)', 'specs/indep.py independent verifier', 'pyvc for the pointwise clauses'],
                               assumptions=['whole-history property with cryptography in the loop: decided only over the enumerated histories (bounded stand-in); '
                                            'the deductive obligations listed cover pointwise clauses (which self-signature / binding signature is effective, '
                                            'stable ordering, unlock frame) and are not a proof of the property'],
                               explanation='bounded stand-in (operation sequences) + deductive pointwise clauses')
