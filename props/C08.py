from pyvc import runner
from contracts import codecs, subpackets, messages, fingerprints, tpk

PID = 'C08'


def items():
    from contracts import partial
    out = [c for c in codecs.CONTRACTS if PID in c.props] + partial.scenarios()
    for mod in (subpackets, messages, fingerprints, tpk):
        out += [s for s in mod.scenarios() if PID in getattr(s, 'props', ())]
    try:
        from contracts import packets, subpacket_values
        out += packets.scenarios() + [s for s in subpacket_values.scenarios() if PID in s.props]
    except ImportError:
        pass
    return out


def run(tier='quick', seed=0, only=None):
    its = [i for i in items() if not only or only in i.cid]
    bounded = []
    if not only:
        try:
            from bounded import packets as bp
            bounded = [bp.component, codecs.partial_lengths_bounded]
        except ImportError:
            pass
    return runner.run_property(PID, its, bounded=bounded, tier=tier, seed=seed, level='proof',
                               trusted_base=['pyvc symbolic executor', 'z3 5.1 / cvc5 1.0.3', 'specs/lengths.py, mpi.py'],
                               assumptions=['proved: header/length/MPI codecs, subpacket header, hashed-area verbatim, public-key body, one-pass packet, boolean subpacket; '
                                            'the dispatcher (metaclass registry), EC material (pyasn1), user attributes and the breadth of packet classes are bounded components'])
