from pyvc import runner
from contracts import hashdata, verdicts, sigalgs

PID = 'C01'
PENDING_TRIAGE = False


def items():
    return hashdata.scenarios() + sigalgs.scenarios() + [c for c in verdicts.CONTRACTS + verdicts.SCENARIOS if PID in c.props]


def run(tier='quick', seed=0, only=None):
    its = [i for i in items() if not only or only in i.cid]
    bounded = []
    if not only and PENDING_TRIAGE is False:
        from bounded import sig_soundness as _b
        bounded = [_b.component]
    return runner.run_property(PID, its, bounded=bounded, tier=tier, seed=seed, level='proof',
                               trusted_base=['pyvc symbolic executor', 'z3 5.1 / cvc5 1.0.3', 'RFC 4880 5.2.4 layout encoded in contracts/hashdata.py'],
                               assumptions=['cryptographic hypothesis (named, not proved): signatures are unforgeable and the hash is collision resistant'])
