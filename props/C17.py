from pyvc import runner
from contracts import verdicts

PID = 'C17'


def items():
    # what the crypto check is given: the hashed octets of the subject as it is NOW (also when the same signature and subject objects
    # come back after the subject changed): four of the hashdata scenarios (all of them: C01)
    from contracts import hashdata
    hd = [s for s in hashdata.scenarios() if any(t in s.cid for t in ('[BinaryDocument over doc]', '[Positive_Cert over uid]', '[Subkey_Binding over sub]', '[DirectlyOnKey over key]'))]
    return list(verdicts.CONTRACTS) + list(verdicts.SCENARIOS) + hd


def run(tier='quick', seed=0, only=None):
    its = [i for i in items() if not only or only in i.cid]
    bounded = []
    if not only:
        from bounded import verdict_histories
        bounded = [verdict_histories.component]      # the verdict along the history of one key object (bounded, not counted as proved)
    return runner.run_property(PID, its, bounded=bounded, tier=tier, seed=seed, level='proof',
                               trusted_base=['pyvc symbolic executor', 'z3 5.1 / cvc5 1.0.3', 'CPython semantics of modelled builtins',
                                             'specs/verdict.py states the disqualifying set of the property statement'],
                               assumptions=['aggregate methods of SignatureVerification are proved for 0..3 examined signatures with fully '
                                            'symbolic issue sets (they are element-wise filters; no length-generic induction is claimed)'])
