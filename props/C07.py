from pyvc import runner
from contracts import pubexport, usage, fingerprints

PID = 'C07'


def items():
    from contracts import armor          # 'in binary or armored form'
    from contracts import packets, tpk    # the public key is made of COPIES of the signatures and identities: what a copy carries
    seen, out = set(), []
    for s in pubexport.scenarios() + [s for s in usage.scenarios() + fingerprints.scenarios() + armor.scenarios() + packets.scenarios() + tpk.scenarios() if PID in getattr(s, 'props', ())]:
        if s.cid not in seen:
            seen.add(s.cid)
            out.append(s)
    return out


def run(tier='quick', seed=0, only=None):
    its = [i for i in items() if not only or only in i.cid]
    bounded = []
    if not only:
        from bounded import pubexport as bp
        from bounded import armor as _ba
        bounded = [bp.component, _ba.short_crc_component]
    return runner.run_property(PID, its, bounded=bounded, tier=tier, seed=seed, level='proof',
                               trusted_base=['pyvc symbolic executor', 'z3 5.1 / cvc5 1.0.3'],
                               assumptions=['non-interference is decided syntactically on the symbolic heap of the derived packet (sound: values are exact terms of the inputs)',
                                            'whole-key assembly (PGPKey.pubkey: uid / signature copies) and refusal of private operations at the API are bounded components'])
