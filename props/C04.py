from pyvc import runner
from contracts import encryption, secretkeys, messages

PID = 'C04'


def items():
    extra = [s for s in secretkeys.scenarios() + messages.scenarios() if PID in s.props]
    # the passphrase-to-key derivation every passphrase-protected message depends on (full product of configurations: C12)
    from contracts import s2k
    kdf = [s for s in s2k.scenarios() if any(t in s.cid for t in ('[Iterated,SHA256,AES256,bytes]', '[Iterated,SHA1,CAST5,str]', '[Salted,SHA256,AES256,bytes]'))]
    return [s for s in encryption.scenarios() if PID in s.props] + extra + kdf


def run(tier='quick', seed=0, only=None):
    its = [i for i in items() if not only or only in i.cid]
    bounded = []
    if not only:
        bounded = BOUNDED()
    return runner.run_property(PID, its, bounded=bounded, tier=tier, seed=seed, level='proof',
                               trusted_base=['pyvc symbolic executor', 'z3 5.1 / cvc5 1.0.3', 'specs/indep.py independent RFC 4880/6637 decryptor (bounded components)'],
                               assumptions=ASSUME)


def BOUNDED():
    from bounded import integrity as bi
    return [bi.component]


ASSUME = ['SHA-1 second-preimage resistance and CFB malleability limits are the named cryptographic hypothesis: "no modification yields a different '
          'plaintext" is decided modulo it; the obligations prove that every accepting path went through the MDC / checksum comparisons']
