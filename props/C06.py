from pyvc import runner
from contracts import secretkeys, fingerprints

PID = 'C06'


def items():
    # the passphrase-to-key derivation protect() and unlock() depend on: text and octet passphrases, and a second derivation on the same
    # specifier object (what protect() does); the full product of configurations is C12's
    from contracts import s2k
    kdf = [s for s in s2k.scenarios() if any(t in s.cid for t in ('[Iterated,SHA1,CAST5,str]', '[Iterated,SHA256,AES256,bytes]', '[Salted,SHA256,AES256,bytes]',
                                                                  'second call after re-salting,Salted,SHA1,CAST5'))]
    return secretkeys.scenarios() + [s for s in fingerprints.scenarios() if PID in getattr(s, 'props', ())] + kdf


def run(tier='quick', seed=0, only=None):
    its = [i for i in items() if not only or only in i.cid]
    bounded = []
    if not only:
        from bounded import secretkeys as _b
        bounded = [_b.component]
    return runner.run_property(PID, its, bounded=bounded, tier=tier, seed=seed, level='proof',
                               trusted_base=['pyvc symbolic executor', 'z3 5.1 / cvc5 1.0.3'],
                               assumptions=['cipher (symenc._encrypt/_decrypt), SHA-1 and os.urandom are externals: uninterpreted / ghost randomness stream',
                                            'String2Key.derive_key is used through its contract; four of its configurations are discharged here, the full product in C12'])
