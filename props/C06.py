from pyvc import runner
from contracts import secretkeys, fingerprints

PID = 'C06'


def items():
    return secretkeys.scenarios() + [s for s in fingerprints.scenarios() if PID in getattr(s, 'props', ())]


def run(tier='quick', seed=0, only=None):
    its = [i for i in items() if not only or only in i.cid]
    bounded = []
    if not only:
        from bounded import secretkeys as _b
        bounded = [_b.component]
    return runner.run_property(PID, its, bounded=bounded, tier=tier, seed=seed, level='proof',
                               trusted_base=['pyvc symbolic executor', 'z3 5.1 / cvc5 1.0.3'],
                               assumptions=['cipher (symenc._encrypt/_decrypt), SHA-1 and os.urandom are externals: uninterpreted / ghost randomness stream',
                                            'String2Key.derive_key is used through its contract (proved in C12)'])
