"""C10: CRC-24 (bit-vector proof of the real loop body against the GF(2) remainder) and the armor writer."""
import ast
import z3
from pyvc import scn, engine as E
from pyvc.runner import Scenario

W = 64
ARM = 'pgpy.types.Armorable'


class BVExec:
    """straight-line integer code (assignments, ^= <<= |= &=, <<, &, ^, |, if on a mask test, for over range(const)) -> z3 bit-vectors
    of width 64, with a side condition that no intermediate exceeds 2^40 (so the BV model equals unbounded Python ints)"""
    def __init__(self, consts):
        self.consts = consts
        self.side = []

    def expr(self, n, env):
        if isinstance(n, ast.Constant) and isinstance(n.value, int):
            return z3.BitVecVal(n.value, W)
        if isinstance(n, ast.Name):
            if n.id in env:
                return env[n.id]
            raise E.ToolLimit('crc24 body reads unknown name %s' % n.id)
        if isinstance(n, ast.Attribute):
            name = n.attr
            for k, v in self.consts.items():
                if name.endswith(k):
                    return z3.BitVecVal(v, W)
            raise E.ToolLimit('crc24 body reads unknown attribute %s' % ast.unparse(n))
        if isinstance(n, ast.BinOp):
            a, b = self.expr(n.left, env), self.expr(n.right, env)
            ops = {ast.BitXor: lambda: a ^ b, ast.BitAnd: lambda: a & b, ast.BitOr: lambda: a | b, ast.LShift: lambda: a << b,
                   ast.RShift: lambda: z3.LShR(a, b), ast.Add: lambda: a + b}
            if type(n.op) not in ops:
                raise E.ToolLimit('crc24 body operator %s' % type(n.op).__name__)
            r = ops[type(n.op)]()
            self.side.append(z3.ULT(r, z3.BitVecVal(1 << 40, W)))
            return r
        raise E.ToolLimit('crc24 body expression %s' % type(n).__name__)

    def cond(self, n, env):
        if isinstance(n, ast.Compare) and len(n.ops) == 1:
            a, b = self.expr(n.left, env), self.expr(n.comparators[0], env)
            return {ast.Eq: a == b, ast.NotEq: a != b}.get(type(n.ops[0]))
        return self.expr(n, env) != 0

    def block(self, stmts, env):
        for s in stmts:
            if isinstance(s, ast.AugAssign) and isinstance(s.target, ast.Name):
                cur = env[s.target.id]
                val = self.expr(ast.BinOp(left=s.target, op=s.op, right=s.value), env)
                env[s.target.id] = val
            elif isinstance(s, ast.Assign) and len(s.targets) == 1 and isinstance(s.targets[0], ast.Name):
                env[s.targets[0].id] = self.expr(s.value, env)
            elif isinstance(s, ast.If):
                c = self.cond(s.test, env)
                e1, e2 = dict(env), dict(env)
                self.block(s.body, e1)
                self.block(s.orelse, e2)
                for k in set(e1) | set(e2):
                    if k in e1 and k in e2:
                        env[k] = z3.If(c, e1[k], e2[k])
            elif isinstance(s, ast.For) and isinstance(s.iter, ast.Call) and ast.unparse(s.iter.func) == 'range' \
                    and len(s.iter.args) == 1 and isinstance(s.iter.args[0], ast.Constant):
                for i in range(s.iter.args[0].value):
                    if isinstance(s.target, ast.Name):
                        env[s.target.id] = z3.BitVecVal(i, W)
                    self.block(s.body, env)
            elif isinstance(s, ast.Expr) and isinstance(s.value, ast.Constant):
                pass
            else:
                raise E.ToolLimit('crc24 body statement %s' % type(s).__name__)
        return env


def clmul8(q, P):
    acc = z3.BitVecVal(0, W)
    for i in range(8):
        acc = acc ^ z3.If(z3.Extract(i, i, q) == 1, P << i, z3.BitVecVal(0, W))
    return acc


def crc24():
    label = 'C10/Armorable.crc24'

    def gen(repo):
        lk = repo.lookup(ARM, 'crc24')
        if lk is None:
            raise E.ToolLimit('Armorable.crc24 not found')
        node = lk[2]
        ci = repo.classes[ARM]
        consts = {}
        for k, v in ci.consts.items():
            if 'crc24' in k:
                consts[k.lstrip('_')] = ast.literal_eval(v)
        info = {'qualname': ARM + '.crc24', 'file': repo.paths.get(ci.module), 'line': node.lineno, 'sha256': repo.func_sha(node)}
        obls = []
        # ---- shape: crc = INIT ; [data = iter(data)] ; for b in data: BODY ; return crc & 0xFFFFFF
        body = [s for s in node.body if not (isinstance(s, ast.Expr) and isinstance(s.value, ast.Constant))]
        fors = [s for s in body if isinstance(s, ast.For)]
        inits = [s for s in body if isinstance(s, ast.Assign)]
        rets = [s for s in body if isinstance(s, ast.Return)]
        others = [s for s in body if not isinstance(s, (ast.For, ast.Assign, ast.Return, ast.If))]
        shape = (len(fors) == 1 and len(inits) == 1 and len(rets) == 1 and not others and isinstance(fors[0].target, ast.Name)
                 and ast.unparse(fors[0].iter) == 'data' and not fors[0].orelse and body.index(inits[0]) < body.index(fors[0]) < body.index(rets[0]))
        if not shape:
            raise E.ToolLimit('Armorable.crc24 no longer has the shape `crc = INIT; for b in data: ...; return crc & MASK`')
        acc = inits[0].targets[0].id
        bname = fors[0].target.id
        # the only `if` outside the loop may rebind `data` to iter(data) (no effect on the octets visited)
        for s in body:
            if isinstance(s, ast.If):
                ok = all(isinstance(x, ast.Assign) and ast.unparse(x.targets[0]) == 'data' and ast.unparse(x.value) == 'iter(data)' for x in s.body) and not s.orelse
                obls.append((label + '/shape/data-only-rebound-to-its-iterator', [], z3.BoolVal(bool(ok))))
        bx = BVExec(consts)
        init = bx.expr(inits[0].value, {})
        obls.append((label + '/rfc4880-6.1/initial-value-0xB704CE', [], init == z3.BitVecVal(0xB704CE, W)))
        crc, b = z3.BitVec('crc', W), z3.BitVec('octet', W)
        pre = [z3.ULT(crc, z3.BitVecVal(1 << 24, W)), z3.ULT(b, z3.BitVecVal(256, W))]
        bx2 = BVExec(consts)
        env = bx2.block(fors[0].body, {acc: crc, bname: b})
        out = env[acc]
        obls.append((label + '/loop-invariant/state-stays-below-2^24', pre, z3.ULT(out, z3.BitVecVal(1 << 24, W))))
        obls.append((label + '/machine-arithmetic/no-intermediate-exceeds-2^40 (64-bit model equals unbounded ints)', pre, z3.And(*bx2.side)))
        P = z3.BitVecVal(0x1864CFB, W)
        want = (crc << 8) ^ (b << 24)
        # step is the GF(2) remainder of state*x^8 + octet*x^24 modulo the generator: some 8-bit quotient q closes the division
        # (the remainder below 2^24 is unique, so this pins the step function)
        q = z3.BitVec('q', W)
        qval = z3.LShR(want ^ out, 24)       # skolem: the quotient is determined by the top bits once the remainder is below 2^24
        cands = z3.Or(*[clmul8(z3.BitVecVal(k, W), P) ^ out == want for k in range(256)])
        obls.append((label + '/rfc4880-6.1/step-is-gf2-remainder-by-0x1864CFB', pre, cands))
        # return value: the 24 low bits of the state
        ret = bx.expr(rets[0].value, {acc: crc})
        obls.append((label + '/result-is-the-24-bit-state', [z3.ULT(crc, z3.BitVecVal(1 << 24, W))], ret == crc))
        return {'obligations': obls, 'funcs': [info], 'paths': 1}

    def native(rng, n):
        from pgpy.types import Armorable
        from specs import armor as spec
        viol, cases = [], 0
        for t in range(max(50, n // 3)):
            L = [0, 1, 2, 3, 47, 48, 49, 255, 256, 1000][t % 10] if t < 30 else rng.randrange(0, 400)
            data = bytes(rng.randrange(256) for _ in range(L)) if t % 3 else bytes([rng.choice([0, 255])]) * L
            for form in (bytes(data), bytearray(data)):
                cases += 1
                got = Armorable.crc24(form)
                if got != spec.crc24(data):
                    viol.append({'args': {'data': data.hex(), 'form': type(form).__name__}, 'violation': 'crc24 %06x != reference %06x' % (got, spec.crc24(data))})
                    return {'cases': cases, 'violations': viol}
        return {'cases': cases, 'violations': viol}
    return Scenario(label, ARM + '.crc24', gen, props=('C10', 'C14', 'C20', 'C07'), native=native)


def scenarios():
    return [crc24()]


def armor_writer(nlines):
    """Armorable.__str__ for a payload whose base64 text needs exactly `nlines` lines of 64 characters (bounded: nlines small;
    octets, headers and block label symbolic)"""
    label = 'C10/Armorable.__str__[%d payload line%s]' % (nlines, '' if nlines == 1 else 's')

    def gen(repo):
        r = scn.Run(repo, ARM, '__str__', label)
        ex, st = r.ex, r.st
        B = E.BYTES
        PAY = z3.Const('BINARY_EXPORT', B)
        MAGIC, HK, HV = z3.Const('BLOCK_LABEL', B), z3.Const('HEADER_KEY', B), z3.Const('HEADER_VALUE', B)
        CRC = z3.Int('crc24_of_payload')
        st.pc += [CRC >= 0, CRC < 2 ** 24]
        b64len = 4 * ((z3.Length(PAY) + 2) / 3)
        st.pc += [b64len > 64 * (nlines - 1), b64len <= 64 * nlines]
        L64 = z3.Length(z3.Function('BASE64', B, B)(PAY))
        st.pc += [L64 == b64len, L64 > 64 * (nlines - 1), L64 <= 64 * nlines]
        me = E.VObj('pgpy.pgp.PGPMessage', 'obj')
        r.hook('pgpy.types.PGPObject', '__bytes__', scn.method_hook(lambda ex, st, o, a: [(st, E.VBytes(PAY))]))
        r.hook('pgpy.pgp.PGPMessage', '__bytes__', scn.method_hook(lambda ex, st, o, a: [(st, E.VBytes(PAY))]))
        r.hook('pgpy.pgp.PGPMessage', 'magic', scn.const(E.VStr(z=MAGIC)))
        r.set('obj', 'ascii_headers', E.VDict([(E.VStr(z=HK), E.VStr(z=HV))]))

        def crc(ex, st, o, a):
            st.ghost['crc_arg'] = a[0]
            return [(st, E.VInt(CRC))]
        r.hook(ARM, 'crc24', scn.method_hook(crc))
        B64 = z3.Function('BASE64', B, B)
        for pi, (s, v) in enumerate(r.call(me, [])):
            if isinstance(v, E.Raise):
                r.oblige(s, 'safety(%s)/p%d' % (v.exc.split(':')[0], pi), z3.BoolVal(False), v.where)
                continue
            ok = isinstance(v, E.VStr) and v.z is not None
            r.oblige(s, 'is-text/p%d' % pi, z3.BoolVal(ok))
            if not ok:
                continue
            lit = lambda t: ex.strseq(E.VStr(s=t))
            p64 = B64(PAY)
            lines = []
            for i in range(nlines):
                lines.append(z3.Extract(p64, 64 * i, z3.If(z3.Length(p64) - 64 * i < 64, z3.Length(p64) - 64 * i, 64)))
            body = lines[0]
            for l in lines[1:]:
                body = z3.Concat(body, lit('\n'), l)
            crc3 = scn.be(CRC, 3)
            spec = z3.Concat(lit('-----BEGIN PGP '), MAGIC, lit('-----\n'), HK, lit(': '), HV, lit('\n'), lit('\n'), body, lit('\n='),
                             B64(crc3), lit('\n-----END PGP '), MAGIC, lit('-----\n'))
            r.oblige(s, 'rfc4880-6.2-layout/p%d' % pi, v.z == spec)
            ca = s.ghost.get('crc_arg')
            r.oblige(s, 'crc-over-the-binary-export/p%d' % pi, z3.And(z3.BoolVal(ca is not None), ex.seq(ca, s) == PAY if ca is not None else z3.BoolVal(False)))
            for i, l in enumerate(lines):
                r.oblige(s, 'payload-line-%d-at-most-64-characters/p%d' % (i, pi), z3.And(z3.Length(l) <= 64, z3.Length(l) >= 1))
            allb = lines[0] if len(lines) == 1 else z3.Concat(*lines)
            r.oblige(s, 'payload-lines-concatenate-to-the-base64-text/p%d' % pi, allb == p64)
        return r.result()
    return Scenario(label, ARM + '.__str__', gen, props=('C10', 'C14', 'C20', 'C07'))


def scenarios():
    return [crc24(), armor_writer(1), armor_writer(2)]


def armor_reader_tail(with_crc):
    """Armorable.ascii_unarmor after the block grammar (the regular expression is the bounded component's business): base64 decode of
    the body, decode of the checksum line, and the CRC comparison. Hypothesis: the regex found a block (groupdict given)."""
    label = 'C10/Armorable.ascii_unarmor[decode and checksum, %s]' % ('checksum line present' if with_crc else 'no checksum line')

    def gen(repo):
        r = scn.Run(repo, ARM, 'ascii_unarmor', label)
        ex, st = r.ex, r.st
        B = E.BYTES
        TEXT, BODY64, CRC64, MAGIC = z3.Const('TEXT', B), z3.Const('BODY_BASE64', B), z3.Const('CRC_BASE64', B), z3.Const('BLOCK_LABEL', B)
        CRCOF = z3.Function('CRC24', B, z3.IntSort())
        UNB64 = z3.Function('UNBASE64', B, B)          # the engine's model of base64.b64decode (total: the binascii.Error -> PGPError path is the bounded component's)
        r.hook(ARM, 'is_ascii', scn.method_hook(lambda ex, st, o, a: [(st, E.VBool(True))]))
        groups = E.VDict([(E.VStr(s='magic'), E.VStr(z=MAGIC)), (E.VStr(s='headers'), E.VNone()), (E.VStr(s='hashes'), E.VNone()),
                          (E.VStr(s='cleartext'), E.VNone()), (E.VStr(s='body'), E.VStr(z=BODY64)),
                          (E.VStr(s='crc'), E.VStr(z=CRC64) if with_crc else E.VNone())])
        match = E.VExt('re.Match', ())
        for nm in ('__armor_regex', '_Armorable__armor_regex'):
            r.hook(ARM, nm, scn.const(E.VExt('armor-regex', ())))
        ex.hooks[('ext:armor-regex', 'search')] = lambda ex, st, o, a: [(st, match)]
        ex.hooks[('ext:re.Match', 'groupdict')] = lambda ex, st, o, a: [(st, E.VDict(list(groups.pairs)))]
        def crc(ex, st, o, a):
            st.ghost['crc_arg'] = a[0]
            v = CRCOF(ex.seq(a[0], st))
            st.facts.append(z3.And(v >= 0, v < 2 ** 24))
            return [(st, E.VInt(v))]
        r.hook(ARM, 'crc24', scn.method_hook(crc))

        def warn(ex, st, o, a):
            st.ghost['warned'] = st.ghost.get('warned', ()) + (a[0],)
            return [(st, E.VNone())]
        ex.hooks[('ext', 'warnings.warn')] = warn
        for pi, (s, v) in enumerate(r.call(None, [E.VStr(z=TEXT)])):
            if isinstance(v, E.Raise):
                r.oblige(s, 'safety(%s)/p%d' % (v.exc.split(':')[0], pi), z3.BoolVal(False), v.where)
                continue
            ok = isinstance(v, E.VDict)
            r.oblige(s, 'returns-the-groups/p%d' % pi, z3.BoolVal(ok))
            if not ok:
                continue
            d = {k.s: x for k, x in v.of(s)}
            body = d.get('body')
            r.oblige(s, 'body=base64-decode(body text)/p%d' % pi, ex.seq(body, s) == UNB64(BODY64) if isinstance(body, (E.VBytes, E.VBuf)) else z3.BoolVal(False))
            warned = s.ghost.get('warned', ())
            if with_crc:
                stated = E.B2I(UNB64(CRC64))
                c = d.get('crc')
                r.oblige(s, 'crc=number-on-the-checksum-line/p%d' % pi, ex.as_int(c) == stated if isinstance(c, E.VInt) else z3.BoolVal(False))
                mismatch = CRCOF(UNB64(BODY64)) != stated
                r.oblige(s, 'warns-Incorrect-crc24-iff-the-stated-checksum-differs-from-the-crc-of-the-decoded-body/p%d' % pi,
                         z3.BoolVal(len(warned) == 1 and isinstance(warned[0], E.VStr) and warned[0].s == 'Incorrect crc24') == mismatch
                         if len(warned) <= 1 else z3.BoolVal(False))
                ca = s.ghost.get('crc_arg')
                r.oblige(s, 'crc-computed-over-the-decoded-body/p%d' % pi, ex.seq(ca, s) == UNB64(BODY64) if ca is not None else z3.BoolVal(False))
            else:
                r.oblige(s, 'no-checksum-line:no-warning,crc-is-None/p%d' % pi, z3.BoolVal(len(warned) == 0 and isinstance(d.get('crc'), E.VNone)))
        return r.result()
    return Scenario(label, ARM + '.ascii_unarmor', gen, props=('C10', 'C14', 'C20'))


_base_scn_r = scenarios


def scenarios():
    return _base_scn_r() + [armor_reader_tail(True), armor_reader_tail(False)]


def signature_parse_kind():
    """PGPSignature.parse: an armored block of another kind is refused; one signature packet is taken; the armor headers are kept"""
    label = 'C10/PGPSignature.parse[kind check]'
    SIG = 'pgpy.pgp.PGPSignature'

    def gen(repo):
        r = scn.Run(repo, SIG, 'parse', label)
        ex, st = r.ex, r.st
        B = E.BYTES
        MAGIC, BODY = z3.Const('BLOCK_LABEL', B), z3.Const('BODY', B)
        armored, has_headers = z3.Bool('input_is_armored'), z3.Bool('has_headers')
        HDRS = E.VObj('collections.OrderedDict', 'headers')

        def unarmor(ex, st, o, a):
            outs = []
            for arm in (True, False):
                for hh in ((True, False) if arm else (False,)):
                    s2 = st.clone()
                    s2.pc += [armored == arm, has_headers == hh]
                    d = E.VDict([(E.VStr(s='magic'), E.VStr(z=MAGIC) if arm else E.VNone()), (E.VStr(s='headers'), HDRS if hh else E.VNone()),
                                 (E.VStr(s='body'), ex.new_buf(s2, BODY)), (E.VStr(s='crc'), E.VNone())])
                    outs.append((s2, d))
            return outs
        r.hook(ARM, 'ascii_unarmor', scn.method_hook(unarmor))
        is_sig_tag, opaque = z3.Bool('first_packet_has_tag_2'), z3.Bool('unknown_version')
        PT = repo.enum_members('pgpy.constants.PacketTag')

        def packet(ex, st, c, a):
            st.ghost['packet_arg'] = a[0]
            outs = []
            for tag2 in (True, False):
                for opq in ((True, False) if tag2 else (False,)):
                    s2 = st.clone()
                    s2.pc += [is_sig_tag == tag2, opaque == opq]
                    cls = 'pgpy.packet.types.Opaque' if opq else ('pgpy.packet.packets.SignatureV4' if tag2 else 'pgpy.packet.packets.LiteralData')
                    p = E.VObj(cls, 'pkt')
                    s2.heap[('pkt', 'header')] = E.VObj('pgpy.packet.types.Header', 'hdr')
                    s2.heap[('hdr', '_tag')] = E.VInt(PT['Signature'] if tag2 else PT['LiteralData'], enum='pgpy.constants.PacketTag')
                    outs.append((s2, p))
            return outs
        r.hook('pgpy.packet.types.Packet', '__call__', packet)
        r.set('sig', '_signature', E.VNone())
        r.set('sig', 'ascii_headers', E.VDict([]))
        is_label = MAGIC == ex.strseq(E.VStr(s='SIGNATURE'))
        for pi, (s, v) in enumerate(r.call(E.VObj(SIG, 'sig'), [E.VBytes(z3.Const('INPUT', B))])):
            if isinstance(v, E.Raise):
                r.oblige(s, 'refused-only-as-ValueError,for-a-block-of-another-kind-or-a-first-packet-that-is-no-signature/p%d' % pi,
                         z3.And(z3.BoolVal(v.exc.split(':')[0] == 'ValueError'), z3.Or(z3.And(armored, z3.Not(is_label)), z3.Not(is_sig_tag))), v.where)
                r.oblige(s, 'nothing-installed-on-refusal/p%d' % pi, z3.BoolVal(isinstance(s.heap.get(('sig', '_signature')), E.VNone)))
                continue
            r.oblige(s, 'accepted=>binary-input-or-label-SIGNATURE,and-a-signature-packet/p%d' % pi, z3.And(z3.Or(z3.Not(armored), is_label), is_sig_tag))
            got = s.heap.get(('sig', '_signature'))
            r.oblige(s, 'the-packet-is-installed-unless-its-version-is-unknown/p%d' % pi,
                     z3.If(opaque, z3.BoolVal(isinstance(got, E.VNone)), z3.BoolVal(isinstance(got, E.VObj) and got.ref == 'pkt')))
            pa = s.ghost.get('packet_arg')
            r.oblige(s, 'the-packet-is-read-from-the-de-armored-body/p%d' % pi, ex.seq(pa, s) == BODY if pa is not None else z3.BoolVal(False))
            r.oblige(s, 'armor-headers-kept-when-present/p%d' % pi,
                     z3.Implies(has_headers, z3.BoolVal(s.heap.get(('sig', 'ascii_headers')) is HDRS)))
        return r.result()
    return Scenario(label, SIG + '.parse', gen, props=('C10', 'C08'))


_base_scn_sp = scenarios


def scenarios():
    return _base_scn_sp() + [signature_parse_kind()]


def from_blob(kind):
    """Armorable.from_blob: text is turned into octets one character per octet (Latin-1), octets are copied; the object's parse() gets that
    buffer; the result is (object, what parse returned) when parse returns something (keys: the other keys of the blob), else the object"""
    label = 'C10/Armorable.from_blob[%s]' % kind
    ARM = 'pgpy.types.Armorable'
    MSG = 'pgpy.pgp.PGPMessage'

    def gen(repo):
        r = scn.Run(repo, ARM, 'from_blob', label)
        ex, st = r.ex, r.st
        B = E.BYTES
        BLOB = z3.Const('BLOB', B)
        k = z3.Int('k!octet')
        st.pc.append(z3.ForAll([k], z3.Implies(z3.And(k >= 0, k < z3.Length(BLOB)), z3.And(BLOB[k] >= 0, BLOB[k] < 256))))
        obj = E.VObj(MSG, 'obj')
        r.hook(MSG, '__call__', lambda ex, st, c, a: [(st, obj)])
        others = z3.Bool('parse_returns_something')
        PO = E.VDict([(E.VStr(s='other'), E.VObj('pgpy.pgp.PGPKey', 'otherkey'))])

        def parse(ex, st, o, a):
            st.ghost['parsed'] = (o, a[0], ex.seq(a[0], st) if isinstance(a[0], (E.VBuf, E.VBytes)) else None)
            s2 = st.clone()
            st.pc.append(others)
            s2.pc.append(z3.Not(others))
            return [(st, PO), (s2, E.VNone())]
        r.hook(MSG, 'parse', scn.method_hook(parse))
        arg = {'str': E.VStr(z=BLOB, cp=True), 'bytes': E.VBytes(BLOB), 'bytearray': ex.new_buf(st, BLOB)}[kind]
        for pi, (s, v) in enumerate(r.call(E.VClass(MSG), [arg])):
            if isinstance(v, E.Raise):
                r.oblige(s, 'safety(%s)/p%d' % (v.exc.split(':')[0], pi), z3.BoolVal(False), v.where)
                continue
            p = s.ghost.get('parsed')
            ok = p is not None and p[0] is obj and isinstance(p[1], E.VBuf) and p[2] is not None and p[1] is not arg
            r.oblige(s, 'parse-gets-a-fresh-buffer-with-the-octets(text:one-character-per-octet)/p%d' % pi, z3.And(z3.BoolVal(ok), p[2] == BLOB if ok else z3.BoolVal(False)))
            if isinstance(v, E.VTuple):
                r.oblige(s, 'a-pair(object,what-parse-returned)-only-when-parse-returned-something/p%d' % pi,
                         z3.And(others, z3.BoolVal(len(v.items) == 2 and v.items[0] is obj and v.items[1] is PO)))
            else:
                r.oblige(s, 'the-object-itself-when-parse-returned-nothing/p%d' % pi, z3.And(z3.Not(others), z3.BoolVal(v is obj)))
        return r.result()
    return Scenario(label, ARM + '.from_blob', gen, props=('C10', 'C14', 'C20'))


_base_scn_fb = scenarios


def scenarios():
    return _base_scn_fb() + [from_blob(k) for k in ('str', 'bytes', 'bytearray')]
