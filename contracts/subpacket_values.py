"""C02 / C08: value layouts of the signature subpackets PGPy writes (RFC 4880 5.2.3.x), header side by its own contract (C09)."""
import z3
from pyvc import scn, engine as E
from pyvc.runner import Scenario
from pyvc.scn import U, cat, be

B = E.BYTES
SP = 'pgpy.packet.subpackets.signature.'
BASE = 'pgpy.packet.subpackets.types.SubPacket'


def _hdr_hooks(r, HDR):
    r.hook(BASE, '__bytearray__', scn.method_hook(lambda ex, st, o, a: [(st, ex.new_buf(st, HDR))]))
    r.hook(BASE, 'parse', scn.mconst(E.VNone()))


def creation_time():
    label = 'C02/subpackets.CreationTime'

    def gen(repo):
        obls, funcs, paths = [], [], 0
        cls = SP + 'CreationTime'
        r = scn.Run(repo, cls, '__bytearray__', label + '[bytes]')
        ex, st = r.ex, r.st
        HDR = z3.Const('SUBPACKET_HEADER', B)
        EPOCH, LOCAL = z3.Ints('epoch local_wall_clock')
        st.pc += [EPOCH >= 0, EPOCH < 2 ** 32, LOCAL >= 0, LOCAL < 2 ** 32]
        created = E.VExt('datetime', ())
        r.set('sp', '_created', created)
        _hdr_hooks(r, HDR)

        def timegm(ex, st, o, a):
            x = a[0]
            if isinstance(x, E.VExt) and x.name.endswith('.utctimetuple') and x.args[0] is created:
                return [(st, E.VInt(EPOCH))]
            return [(st, E.VInt(LOCAL))]
        ex.hooks[('ext', 'calendar.timegm')] = timegm
        for pi, (s, v) in enumerate(r.call(E.VObj(cls, 'sp'), [])):
            paths += 1
            if isinstance(v, E.Raise):
                r.oblige(s, 'safety(%s)/p%d' % (v.exc, pi), z3.BoolVal(False), v.where)
                continue
            r.oblige(s, 'rfc4880-5.2.3.4:four-octet-time-of-the-instant/p%d' % pi, ex.seq(v, s) == cat(HDR, be(EPOCH, 4)))
        res = r.result()
        obls += res['obligations']
        funcs += res['funcs']
        r2 = scn.Run(repo, cls, 'parse', label + '[parse]')
        ex, st = r2.ex, r2.st
        OLD = z3.Const('RECEIVED', B)
        st.pc += [z3.Length(OLD) >= 4]
        buf = ex.new_buf(st, OLD)
        _hdr_hooks(r2, z3.Const('H', B))
        ex.hooks[('ext', 'datetime.fromtimestamp')] = lambda ex, st, o, a: [(st, E.VExt('datetime', (a[0], a[1] if len(a) > 1 else None)))]
        for pi, (s, v) in enumerate(r2.call(E.VObj(cls, 'sp'), [buf])):
            paths += 1
            if isinstance(v, E.Raise):
                r2.oblige(s, 'safety(%s)/p%d' % (v.exc, pi), z3.BoolVal(False), v.where)
                continue
            c = s.heap.get(('sp', '_created'))
            ok = isinstance(c, E.VExt) and c.name == 'datetime' and len(c.args) >= 1
            r2.oblige(s, 'time-is-the-four-octet-number-in-utc/p%d' % pi,
                      z3.And(z3.BoolVal(bool(ok) and isinstance(c.args[1], E.VBuiltin) and c.args[1].name == 'timezone.utc'),
                             ex.as_int(c.args[0]) == OLD[0] * 2 ** 24 + OLD[1] * 2 ** 16 + OLD[2] * 256 + OLD[3] if ok else z3.BoolVal(False)))
            r2.oblige(s, 'consumes-four-octets/p%d' % pi, s.heap[buf.cell] == z3.Extract(OLD, 4, z3.Length(OLD) - 4))
        res2 = r2.result()
        return {'obligations': obls + res2['obligations'], 'funcs': funcs + res2['funcs'], 'paths': paths}
    return Scenario(label, SP + 'CreationTime', gen, props=('C02', 'C08', 'C09'))


def expiration(clsname):
    label = 'C02/subpackets.%s' % clsname

    def gen(repo):
        cls = SP + clsname
        r = scn.Run(repo, cls, '__bytearray__', label + '[bytes]')
        ex, st = r.ex, r.st
        HDR = z3.Const('SUBPACKET_HEADER', B)
        SECS = z3.Int('seconds')
        st.pc += [SECS >= 0, SECS < 2 ** 32]
        delta = E.VExt('timedelta', ())
        r.set('sp', '_expires', delta)
        _hdr_hooks(r, HDR)
        ex.hooks[('ext:timedelta', 'total_seconds')] = lambda ex, st, o, a: [(st, E.VInt(SECS))]
        for pi, (s, v) in enumerate(r.call(E.VObj(cls, 'sp'), [])):
            if isinstance(v, E.Raise):
                r.oblige(s, 'safety(%s)/p%d' % (v.exc, pi), z3.BoolVal(False), v.where)
                continue
            r.oblige(s, 'rfc4880-5.2.3.6/10:four-octet-seconds-after-creation/p%d' % pi, ex.seq(v, s) == cat(HDR, be(SECS, 4)))
        return r.result()
    return Scenario(label, SP + clsname, gen, props=('C02', 'C08'))


def issuer():
    label = 'C02/subpackets.Issuer'

    def gen(repo):
        obls, funcs, paths = [], [], 0
        cls = SP + 'Issuer'
        r = scn.Run(repo, cls, '__bytearray__', label + '[bytes]')
        ex, st = r.ex, r.st
        HDR, KEYID = z3.Const('SUBPACKET_HEADER', B), z3.Const('KEYID_HEX', B)
        r.set('sp', '_issuer', E.VStr(z=KEYID))
        _hdr_hooks(r, HDR)
        UNHEX = z3.Function('UNHEXLIFY', B, B)
        for pi, (s, v) in enumerate(r.call(E.VObj(cls, 'sp'), [])):
            paths += 1
            if isinstance(v, E.Raise):
                r.oblige(s, 'safety(%s)/p%d' % (v.exc, pi), z3.BoolVal(False), v.where)
                continue
            r.oblige(s, 'rfc4880-5.2.3.5:eight-octet-key-id/p%d' % pi, ex.seq(v, s) == cat(HDR, UNHEX(KEYID)))
        res = r.result()
        obls += res['obligations']
        funcs += res['funcs']
        r2 = scn.Run(repo, cls, 'parse', label + '[parse]')
        ex, st = r2.ex, r2.st
        OLD = z3.Const('RECEIVED', B)
        st.pc += [z3.Length(OLD) >= 8]
        buf = ex.new_buf(st, OLD)
        _hdr_hooks(r2, z3.Const('H', B))
        HEX, UP = z3.Function('HEXLIFY', B, B), z3.Function('STR_UPPER', B, B)
        for pi, (s, v) in enumerate(r2.call(E.VObj(cls, 'sp'), [buf])):
            paths += 1
            if isinstance(v, E.Raise):
                r2.oblige(s, 'safety(%s)/p%d' % (v.exc, pi), z3.BoolVal(False), v.where)
                continue
            iv = s.heap.get(('sp', '_issuer'))
            ok = isinstance(iv, E.VStr) and iv.z is not None
            r2.oblige(s, 'issuer-is-the-next-eight-octets/p%d' % pi, z3.And(z3.BoolVal(bool(ok)), iv.z == UP(HEX(z3.Extract(OLD, 0, 8))) if ok else z3.BoolVal(False)))
            r2.oblige(s, 'consumes-eight-octets/p%d' % pi, s.heap[buf.cell] == z3.Extract(OLD, 8, z3.Length(OLD) - 8))
        res2 = r2.result()
        return {'obligations': obls + res2['obligations'], 'funcs': funcs + res2['funcs'], 'paths': paths}
    return Scenario(label, SP + 'Issuer', gen, props=('C02', 'C08', 'C18'))


def boolean_bytes():
    label = 'C02/subpackets.Boolean.__bytearray__'

    def gen(repo):
        cls = SP + 'ExportableCertification'
        r = scn.Run(repo, SP + 'Boolean', '__bytearray__', label)
        ex, st = r.ex, r.st
        HDR = z3.Const('SUBPACKET_HEADER', B)
        flag = z3.Bool('flag')
        r.set('sp', '_bool', E.VBool(flag))
        _hdr_hooks(r, HDR)
        for pi, (s, v) in enumerate(r.call(E.VObj(cls, 'sp'), [])):
            if isinstance(v, E.Raise):
                r.oblige(s, 'safety(%s)/p%d' % (v.exc, pi), z3.BoolVal(False), v.where)
                continue
            r.oblige(s, 'one-octet-1-or-0/p%d' % pi, ex.seq(v, s) == cat(HDR, U(z3.If(flag, 1, 0))))
        return r.result()
    return Scenario(label, SP + 'Boolean.__bytearray__', gen, props=('C02', 'C08', 'C14'))


def issuer_fingerprint():
    label = 'C02/subpackets.IssuerFingerprint'

    def gen(repo):
        cls = SP + 'IssuerFingerprint'
        r = scn.Run(repo, cls, 'parse', label + '[parse]')
        ex, st = r.ex, r.st
        OLD = z3.Const('RECEIVED', B)
        st.pc += [z3.Length(OLD) >= 21, OLD[0] == 4]
        buf = ex.new_buf(st, OLD)
        _hdr_hooks(r, z3.Const('H', B))
        r.set('sp', '_version', E.VInt(4))
        seen = {}

        r.hook('pgpy.types.Fingerprint', '__call__', lambda ex, st, c, a: [(st, E.VExt('Fingerprint', (a[0],)))])
        for pi, (s, v) in enumerate(r.call(E.VObj(cls, 'sp'), [buf])):
            if isinstance(v, E.Raise):
                r.oblige(s, 'safety(%s)/p%d' % (v.exc, pi), z3.BoolVal(False), v.where)
                continue
            r.oblige(s, 'version-octet/p%d' % pi, ex.as_int(s.heap.get(('sp', '_version'))) == 4)
            r.oblige(s, 'consumes-version-and-twenty-octets/p%d' % pi, s.heap[buf.cell] == z3.Extract(OLD, 21, z3.Length(OLD) - 21))
        return r.result()
    return Scenario(label, cls if False else SP + 'IssuerFingerprint', gen, props=('C02', 'C08', 'C18'))


def scenarios():
    return [creation_time(), expiration('SignatureExpirationTime'), expiration('KeyExpirationTime'), issuer(), boolean_bytes(), issuer_fingerprint()]
