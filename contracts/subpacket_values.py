"""C02 / C08: value layouts of the signature subpackets PGPy writes (RFC 4880 5.2.3.x), header side by its own contract (C09)."""
import z3
from pyvc import scn, engine as E
from pyvc.runner import Scenario
from pyvc.scn import U, cat, be

B = E.BYTES
SP = 'pgpy.packet.subpackets.signature.'
BASE = 'pgpy.packet.subpackets.types.SubPacket'


def _hdr_hooks(r, HDR):
    r.hook(BASE, '__bytearray__', scn.method_hook(lambda ex, st, o, a: [(st, ex.new_buf(st, HDR))]))
    r.hook(BASE, 'parse', scn.mconst(E.VNone()))


def creation_time():
    label = 'C02/subpackets.CreationTime'

    def gen(repo):
        obls, funcs, paths = [], [], 0
        cls = SP + 'CreationTime'
        r = scn.Run(repo, cls, '__bytearray__', label + '[bytes]')
        ex, st = r.ex, r.st
        HDR = z3.Const('SUBPACKET_HEADER', B)
        EPOCH, LOCAL = z3.Ints('epoch local_wall_clock')
        st.pc += [EPOCH >= 0, EPOCH < 2 ** 32, LOCAL >= 0, LOCAL < 2 ** 32]
        created = E.VExt('datetime', ())
        r.set('sp', '_created', created)
        _hdr_hooks(r, HDR)

        def timegm(ex, st, o, a):
            x = a[0]
            if isinstance(x, E.VExt) and x.name.endswith('.utctimetuple') and x.args[0] is created:
                return [(st, E.VInt(EPOCH))]
            return [(st, E.VInt(LOCAL))]
        ex.hooks[('ext', 'calendar.timegm')] = timegm
        scn.local_zone_reading(ex)
        for pi, (s, v) in enumerate(r.call(E.VObj(cls, 'sp'), [])):
            paths += 1
            if isinstance(v, E.Raise):
                r.oblige(s, 'safety(%s)/p%d' % (v.exc, pi), z3.BoolVal(False), v.where)
                continue
            r.oblige(s, 'rfc4880-5.2.3.4:four-octet-time-of-the-instant/p%d' % pi, ex.seq(v, s) == cat(HDR, be(EPOCH, 4)))
        res = r.result()
        obls += res['obligations']
        funcs += res['funcs']
        r2 = scn.Run(repo, cls, 'parse', label + '[parse]')
        ex, st = r2.ex, r2.st
        OLD = z3.Const('RECEIVED', B)
        st.pc += [z3.Length(OLD) >= 4]
        buf = ex.new_buf(st, OLD)
        _hdr_hooks(r2, z3.Const('H', B))
        ex.hooks[('ext', 'datetime.fromtimestamp')] = lambda ex, st, o, a: [(st, E.VExt('datetime', (a[0], a[1] if len(a) > 1 else None)))]
        for pi, (s, v) in enumerate(r2.call(E.VObj(cls, 'sp'), [buf])):
            paths += 1
            if isinstance(v, E.Raise):
                r2.oblige(s, 'safety(%s)/p%d' % (v.exc, pi), z3.BoolVal(False), v.where)
                continue
            c = s.heap.get(('sp', '_created'))
            ok = isinstance(c, E.VExt) and c.name == 'datetime' and len(c.args) >= 1
            r2.oblige(s, 'time-is-the-four-octet-number-in-utc/p%d' % pi,
                      z3.And(z3.BoolVal(bool(ok) and isinstance(c.args[1], E.VBuiltin) and c.args[1].name == 'timezone.utc'),
                             ex.as_int(c.args[0]) == OLD[0] * 2 ** 24 + OLD[1] * 2 ** 16 + OLD[2] * 256 + OLD[3] if ok else z3.BoolVal(False)))
            r2.oblige(s, 'consumes-four-octets/p%d' % pi, s.heap[buf.cell] == z3.Extract(OLD, 4, z3.Length(OLD) - 4))
        res2 = r2.result()
        return {'obligations': obls + res2['obligations'], 'funcs': funcs + res2['funcs'], 'paths': paths}
    return Scenario(label, SP + 'CreationTime', gen, props=('C02', 'C08', 'C09'))


def expiration(clsname):
    label = 'C02/subpackets.%s' % clsname

    def gen(repo):
        cls = SP + clsname
        r = scn.Run(repo, cls, '__bytearray__', label + '[bytes]')
        ex, st = r.ex, r.st
        HDR = z3.Const('SUBPACKET_HEADER', B)
        SECS = z3.Int('seconds')
        st.pc += [SECS >= 0, SECS < 2 ** 32]
        delta = E.VExt('timedelta', ())
        r.set('sp', '_expires', delta)
        _hdr_hooks(r, HDR)
        ex.hooks[('ext:timedelta', 'total_seconds')] = lambda ex, st, o, a: [(st, E.VInt(SECS))]
        for pi, (s, v) in enumerate(r.call(E.VObj(cls, 'sp'), [])):
            if isinstance(v, E.Raise):
                r.oblige(s, 'safety(%s)/p%d' % (v.exc, pi), z3.BoolVal(False), v.where)
                continue
            r.oblige(s, 'rfc4880-5.2.3.6/10:four-octet-seconds-after-creation/p%d' % pi, ex.seq(v, s) == cat(HDR, be(SECS, 4)))
        return r.result()
    return Scenario(label, SP + clsname, gen, props=('C02', 'C08'))


def issuer():
    label = 'C02/subpackets.Issuer'

    def gen(repo):
        obls, funcs, paths = [], [], 0
        cls = SP + 'Issuer'
        r = scn.Run(repo, cls, '__bytearray__', label + '[bytes]')
        ex, st = r.ex, r.st
        HDR, KEYID = z3.Const('SUBPACKET_HEADER', B), z3.Const('KEYID_HEX', B)
        r.set('sp', '_issuer', E.VStr(z=KEYID))
        _hdr_hooks(r, HDR)
        UNHEX = z3.Function('UNHEXLIFY', B, B)
        for pi, (s, v) in enumerate(r.call(E.VObj(cls, 'sp'), [])):
            paths += 1
            if isinstance(v, E.Raise):
                r.oblige(s, 'safety(%s)/p%d' % (v.exc, pi), z3.BoolVal(False), v.where)
                continue
            r.oblige(s, 'rfc4880-5.2.3.5:eight-octet-key-id/p%d' % pi, ex.seq(v, s) == cat(HDR, UNHEX(KEYID)))
        res = r.result()
        obls += res['obligations']
        funcs += res['funcs']
        r2 = scn.Run(repo, cls, 'parse', label + '[parse]')
        ex, st = r2.ex, r2.st
        OLD = z3.Const('RECEIVED', B)
        st.pc += [z3.Length(OLD) >= 8]
        buf = ex.new_buf(st, OLD)
        _hdr_hooks(r2, z3.Const('H', B))
        HEX, UP = z3.Function('HEXLIFY', B, B), z3.Function('STR_UPPER', B, B)
        for pi, (s, v) in enumerate(r2.call(E.VObj(cls, 'sp'), [buf])):
            paths += 1
            if isinstance(v, E.Raise):
                r2.oblige(s, 'safety(%s)/p%d' % (v.exc, pi), z3.BoolVal(False), v.where)
                continue
            iv = s.heap.get(('sp', '_issuer'))
            ok = isinstance(iv, E.VStr) and iv.z is not None
            r2.oblige(s, 'issuer-is-the-next-eight-octets/p%d' % pi, z3.And(z3.BoolVal(bool(ok)), iv.z == UP(HEX(z3.Extract(OLD, 0, 8))) if ok else z3.BoolVal(False)))
            r2.oblige(s, 'consumes-eight-octets/p%d' % pi, s.heap[buf.cell] == z3.Extract(OLD, 8, z3.Length(OLD) - 8))
        res2 = r2.result()
        return {'obligations': obls + res2['obligations'], 'funcs': funcs + res2['funcs'], 'paths': paths}
    return Scenario(label, SP + 'Issuer', gen, props=('C02', 'C08', 'C18'))


def boolean_bytes():
    label = 'C02/subpackets.Boolean.__bytearray__'

    def gen(repo):
        cls = SP + 'ExportableCertification'
        r = scn.Run(repo, SP + 'Boolean', '__bytearray__', label)
        ex, st = r.ex, r.st
        HDR = z3.Const('SUBPACKET_HEADER', B)
        flag = z3.Bool('flag')
        r.set('sp', '_bool', E.VBool(flag))
        _hdr_hooks(r, HDR)
        for pi, (s, v) in enumerate(r.call(E.VObj(cls, 'sp'), [])):
            if isinstance(v, E.Raise):
                r.oblige(s, 'safety(%s)/p%d' % (v.exc, pi), z3.BoolVal(False), v.where)
                continue
            r.oblige(s, 'one-octet-1-or-0/p%d' % pi, ex.seq(v, s) == cat(HDR, U(z3.If(flag, 1, 0))))
        return r.result()
    return Scenario(label, SP + 'Boolean.__bytearray__', gen, props=('C02', 'C08', 'C14'))


def issuer_fingerprint():
    label = 'C02/subpackets.IssuerFingerprint'

    def gen(repo):
        cls = SP + 'IssuerFingerprint'
        r = scn.Run(repo, cls, 'parse', label + '[parse]')
        ex, st = r.ex, r.st
        OLD = z3.Const('RECEIVED', B)
        st.pc += [z3.Length(OLD) >= 21, OLD[0] == 4]
        buf = ex.new_buf(st, OLD)
        _hdr_hooks(r, z3.Const('H', B))
        r.set('sp', '_version', E.VInt(4))
        seen = {}

        r.hook('pgpy.types.Fingerprint', '__call__', lambda ex, st, c, a: [(st, E.VExt('Fingerprint', (a[0],)))])
        for pi, (s, v) in enumerate(r.call(E.VObj(cls, 'sp'), [buf])):
            if isinstance(v, E.Raise):
                r.oblige(s, 'safety(%s)/p%d' % (v.exc, pi), z3.BoolVal(False), v.where)
                continue
            r.oblige(s, 'version-octet/p%d' % pi, ex.as_int(s.heap.get(('sp', '_version'))) == 4)
            r.oblige(s, 'consumes-version-and-twenty-octets/p%d' % pi, s.heap[buf.cell] == z3.Extract(OLD, 21, z3.Length(OLD) - 21))
        return r.result()
    return Scenario(label, cls if False else SP + 'IssuerFingerprint', gen, props=('C02', 'C08', 'C18'))


def scenarios():
    return [creation_time(), expiration('SignatureExpirationTime'), expiration('KeyExpirationTime'), issuer(), boolean_bytes(), issuer_fingerprint()]


def flaglist(clsname, enum):
    """FlagList (preference lists, RFC 4880 5.2.3.7-9): one octet per algorithm id, in order; parse consumes header.length - 1 octets"""
    label = 'C02/subpackets.%s' % clsname

    def gen(repo):
        obls, funcs, paths = [], [], 0
        cls = SP + clsname
        # ---- bytes: three preferences (symbolic ids)
        r = scn.Run(repo, SP + 'FlagList', '__bytearray__', label + '[bytes]')
        ex, st = r.ex, r.st
        HDR = z3.Const('SUBPACKET_HEADER', B)
        ids = [z3.Int('alg%d' % i) for i in range(3)]
        st.pc += [z3.And(x >= 0, x < 256) for x in ids]
        r.set('sp', '_flags', ex.new_list(st, [E.VInt(x) for x in ids]))
        _hdr_hooks(r, HDR)
        for pi, (s, v) in enumerate(r.call(E.VObj(cls, 'sp'), [])):
            paths += 1
            if isinstance(v, E.Raise):
                r.oblige(s, 'safety(%s)/p%d' % (v.exc, pi), z3.BoolVal(False), v.where)
                continue
            # includes id 0 (Plaintext / Uncompressed): int_to_bytes has a minimum width of one octet
            r.oblige(s, 'one-octet-per-preference-in-order/p%d' % pi, ex.seq(v, s) == cat(HDR, *[U(x) for x in ids]))
        res = r.result()
        obls += res['obligations']
        funcs += res['funcs']
        # ---- parse: header.length - 1 octets, whatever the count (loop contract)
        r2 = scn.Run(repo, SP + 'FlagList', 'parse', label + '[parse]')
        ex, st = r2.ex, r2.st
        OLD = z3.Const('RECEIVED', B)
        N = z3.Int('n_preferences')
        st.pc += [N >= 0, N <= z3.Length(OLD)]
        buf = ex.new_buf(st, OLD)
        _hdr_hooks(r2, z3.Const('H', B))
        hdr = E.VObj('pgpy.packet.subpackets.types.Header', 'hdr')
        r2.set('sp', 'header', hdr)
        r2.set('hdr', '_len', E.VInt(N + 1))
        r2.hook('pgpy.packet.subpackets.types.Header', 'length', scn.const(E.VInt(N + 1)))
        flags = ex.new_buf(st, z3.Empty(B))          # the list of numbers, abstracted to its sequence of values
        r2.set('sp', '_flags', flags)

        def to_member(ex, st, c, a):
            # Enum(value): the member with that value, or ValueError; either way the number kept is the octet
            known = z3.Bool('known_id_%d' % len(st.pc))
            bad = st.clone()
            st.pc.append(known)
            bad.pc.append(z3.Not(known))
            return [(st, a[0]), (bad, E.Raise('ValueError', 0))]
        r2.hook(enum, '__call__', to_member)

        def inv(ex, st, env, i):
            cur, fl = st.heap[buf.cell], st.heap[flags.cell]
            return z3.And(cur == z3.Extract(OLD, i, z3.Length(OLD) - i), fl == z3.Extract(OLD, 0, i), i <= z3.Length(OLD))

        def havoc(ex, st, env):
            st.heap[buf.cell] = E.fresh('buffer', B)
            st.heap[flags.cell] = E.fresh('flags', B)
        loops = ex.register_loops('parse', r2.node)
        if len(loops) != 1 or not isinstance(loops[0], __import__('ast').For):
            raise E.ToolLimit('FlagList.parse no longer has the single for loop the loop contract is written for')
        ex.loops[('parse', 0)] = {'name': 'one-octet-per-preference', 'inv': inv, 'havoc': havoc}
        for pi, (s, v) in enumerate(r2.call(E.VObj(cls, 'sp'), [buf])):
            paths += 1
            if isinstance(v, E.Raise):
                r2.oblige(s, 'safety(%s)/p%d' % (v.exc, pi), z3.BoolVal(False), v.where)
                continue
            r2.oblige(s, 'preferences-are-the-next-n-octets-in-order/p%d' % pi, s.heap[flags.cell] == z3.Extract(OLD, 0, N))
            r2.oblige(s, 'consumes-n-octets/p%d' % pi, s.heap[buf.cell] == z3.Extract(OLD, N, z3.Length(OLD) - N))
        res2 = r2.result()
        return {'obligations': obls + res2['obligations'], 'funcs': funcs + res2['funcs'], 'paths': paths}
    return Scenario(label, SP + 'FlagList', gen, props=('C02', 'C08'))


_base_scn = scenarios


def scenarios():
    return _base_scn() + [flaglist('PreferredSymmetricAlgorithms', 'pgpy.constants.SymmetricKeyAlgorithm'),
                          flaglist('PreferredHashAlgorithms', 'pgpy.constants.HashAlgorithm'),
                          flaglist('PreferredCompressionAlgorithms', 'pgpy.constants.CompressionAlgorithm')]


def byteflag(clsname, enum, noctets):
    """ByteFlag (key flags, features, key server preferences: RFC 4880 5.2.3.17, .21, .24): the or of the flag values"""
    label = 'C02/subpackets.%s[%d octet%s]' % (clsname, noctets, '' if noctets == 1 else 's')

    def gen(repo):
        obls, funcs, paths = [], [], 0
        cls = SP + clsname
        members = repo.enum_members(enum)
        HC = 'pgpy.packet.subpackets.types.Header'
        # ---- bytes
        r = scn.Run(repo, SP + 'ByteFlag', '__bytearray__', label + '[bytes]')
        ex, st = r.ex, r.st
        HDR = z3.Const('SUBPACKET_HEADER', B)
        st.pc += [z3.Length(HDR) == 2]                 # one length octet and the type octet
        has = {m: z3.Bool('has_' + m) for m in members}
        names = sorted(members, key=lambda m: members[m])
        r.set('sp', '_flags', E.VSet([E.VInt(members[m], enum=enum) for m in names], [has[m] for m in names]))
        _hdr_hooks(r, HDR)
        r.set('sp', 'header', E.VObj(HC, 'hdr'))
        r.hook(HC, 'llen', scn.const(E.VInt(1)))
        r.hook(HC, 'length', scn.const(E.VInt(1 + noctets)))
        total = sum([z3.If(has[m], members[m], 0) for m in names], z3.IntVal(0))
        for pi, (s, v) in enumerate(r.call(E.VObj(cls, 'sp'), [])):
            paths += 1
            if isinstance(v, E.Raise):
                r.oblige(s, 'safety(%s)/p%d' % (v.exc, pi), z3.BoolVal(False), v.where)
                continue
            r.oblige(s, 'flag-octet-is-the-or-of-the-flags-held,zero-padded-to-the-stated-length/p%d' % pi,
                     ex.seq(v, s) == cat(HDR, U(total), *[U(0)] * (noctets - 1)))
        res = r.result()
        obls += res['obligations']
        funcs += res['funcs']
        # ---- parse
        r2 = scn.Run(repo, SP + 'ByteFlag', 'parse', label + '[parse]')
        ex, st = r2.ex, r2.st
        OLD = z3.Const('RECEIVED', B)
        st.pc += [z3.Length(OLD) >= noctets]
        buf = ex.new_buf(st, OLD)
        _hdr_hooks(r2, z3.Const('H', B))
        r2.set('sp', 'header', E.VObj(HC, 'hdr'))
        r2.hook(HC, 'length', scn.const(E.VInt(1 + noctets)))
        r2.set('sp', '_flags', E.VSet([]))
        for pi, (s, v) in enumerate(r2.call(E.VObj(cls, 'sp'), [buf])):
            paths += 1
            if isinstance(v, E.Raise):
                r2.oblige(s, 'safety(%s)/p%d' % (v.exc, pi), z3.BoolVal(False), v.where)
                continue
            fl = s.heap.get(('sp', '_flags'))
            ok = isinstance(fl, E.VSet)
            r2.oblige(s, 'flags-is-a-set/p%d' % pi, z3.BoolVal(ok))
            if not ok:
                continue
            for m in names:
                present = [c if fl.conds is not None else z3.BoolVal(True) for x, c in zip(fl.items, fl.conds or [None] * len(fl.items)) if x.conc() == members[m]]
                held = z3.Or(*present) if present else z3.BoolVal(False)
                # the first octet carries the defined flags (RFC 4880 5.2.3.21: "the first octet")
                bit = (OLD[0] / members[m]) % 2 == 1
                if noctets == 1:
                    r2.oblige(s, 'holds-%s-iff-its-bit-is-set-in-the-first-octet/p%d' % (m, pi), held == bit)
                else:
                    r2.oblige(s, 'holds-%s-if-its-bit-is-set-in-the-first-octet/p%d' % (m, pi), z3.Implies(bit, held))
            r2.oblige(s, 'consumes-the-stated-octets/p%d' % pi, s.heap[buf.cell] == z3.Extract(OLD, noctets, z3.Length(OLD) - noctets))
        res2 = r2.result()
        return {'obligations': obls + res2['obligations'], 'funcs': funcs + res2['funcs'], 'paths': paths}
    return Scenario(label, SP + 'ByteFlag', gen, props=('C02', 'C08', 'C16'))


_base_scn_b = scenarios


def scenarios():
    return _base_scn_b() + [byteflag('KeyFlags', 'pgpy.constants.KeyFlags', 1), byteflag('KeyFlags', 'pgpy.constants.KeyFlags', 2),
                            byteflag('Features', 'pgpy.constants.Features', 1), byteflag('KeyServerPreferences', 'pgpy.constants.KeyServerPreferences', 1)]


def notation(human):
    """NotationData (RFC 4880 5.2.3.16): flags(4) nlen(2) vlen(2) name value; parse accepts every octet string in name and value"""
    label = 'C05/subpackets.NotationData[%s]' % ('human-readable' if human else 'binary')

    def gen(repo):
        obls, funcs, paths = [], [], 0
        cls = SP + 'NotationData'
        r2 = scn.Run(repo, cls, 'parse', label + '[parse]')
        ex, st = r2.ex, r2.st
        OLD = z3.Const('RECEIVED', B)
        NL, VL = OLD[4] * 256 + OLD[5], OLD[6] * 256 + OLD[7]
        st.pc += [z3.Length(OLD) >= 8, z3.Length(OLD) >= 8 + NL + VL, (OLD[0] / 128) % 2 == (1 if human else 0)]
        st.facts += [z3.And(OLD[i] >= 0, OLD[i] < 256) for i in range(8)]
        buf = ex.new_buf(st, OLD)
        _hdr_hooks(r2, z3.Const('H', B))
        r2.set('sp', '_flags', ex.new_list(st, []))
        for pi, (s, v) in enumerate(r2.call(E.VObj(cls, 'sp'), [buf])):
            paths += 1
            if isinstance(v, E.Raise):
                r2.oblige(s, 'every-name-and-value-is-accepted(%s)/p%d' % (v.exc.split(':')[0], pi), z3.BoolVal(False), v.where)
                continue
            r2.oblige(s, 'consumes-8+nlen+vlen-octets/p%d' % pi, scn.same_octets(s.heap[buf.cell], z3.Extract(OLD, 8 + NL + VL, z3.Length(OLD) - 8 - NL - VL)))
            nm, val = s.heap.get(('sp', '_name')), s.heap.get(('sp', '_value'))
            r2.oblige(s, 'name-is-the-nlen-octets-after-the-lengths/p%d' % pi,
                      nm.z == z3.Extract(OLD, 8, NL) if isinstance(nm, E.VStr) and nm.z is not None else z3.BoolVal(False))
            vz = val.z if isinstance(val, E.VStr) and val.z is not None else (ex.seq(val, s) if isinstance(val, (E.VBytes, E.VBuf)) else None)
            r2.oblige(s, 'value-is-the-vlen-octets-after-the-name/p%d' % pi, scn.same_octets(vz, z3.Extract(OLD, 8 + NL, VL)) if vz is not None else z3.BoolVal(False))
            r2.oblige(s, 'text-iff-flagged-human-readable/p%d' % pi, z3.BoolVal(isinstance(val, E.VStr) == human))
        res2 = r2.result()
        return {'obligations': obls + res2['obligations'], 'funcs': funcs + res2['funcs'], 'paths': paths}
    return Scenario(label, SP + 'NotationData', gen, props=('C05', 'C08', 'C02'))


_base_scn_n = scenarios


def scenarios():
    return _base_scn_n() + [notation(True), notation(False)]


def text_subpacket(clsname, field, lead=0, enum=None):
    """subpackets whose body is `lead` fixed octets and free text (policy / key server URI, regular expression, signer's user id, reason
    for revocation): parse takes exactly the stated body, accepts every octet string, and keeps the octets as code points 0..255"""
    label = 'C05/subpackets.%s' % clsname

    def gen(repo):
        cls = SP + clsname
        r2 = scn.Run(repo, cls, 'parse', label + '[parse]')
        ex, st = r2.ex, r2.st
        OLD = z3.Const('RECEIVED', B)
        N = z3.Int('text_octets')
        st.pc += [N >= 0, z3.Length(OLD) >= lead + N]
        st.facts += [z3.And(OLD[i] >= 0, OLD[i] < 256) for i in range(lead)]
        buf = ex.new_buf(st, OLD)
        _hdr_hooks(r2, z3.Const('H', B))
        HC = 'pgpy.packet.subpackets.types.Header'
        r2.set('sp', 'header', E.VObj(HC, 'hdr'))
        r2.hook(HC, 'length', scn.const(E.VInt(1 + lead + N)))
        if enum:
            def to_member(ex, st, c, a):
                known = z3.Bool('known_code_%d' % len(st.pc))
                bad = st.clone()
                st.pc.append(known)
                bad.pc.append(z3.Not(known))
                return [(st, a[0]), (bad, E.Raise('ValueError', 0))]
            r2.hook(enum, '__call__', to_member)
        for pi, (s, v) in enumerate(r2.call(E.VObj(cls, 'sp'), [buf])):
            if isinstance(v, E.Raise):
                r2.oblige(s, 'every-text-and-code-is-accepted(%s)/p%d' % (v.exc.split(':')[0], pi), z3.BoolVal(False), v.where)
                continue
            t = s.heap.get(('sp', '_' + field))
            r2.oblige(s, 'text-is-the-stated-octets/p%d' % pi,
                      scn.same_octets(t.z, z3.Extract(OLD, lead, N)) if isinstance(t, E.VStr) and t.z is not None else z3.BoolVal(False))
            r2.oblige(s, 'consumes-the-stated-body/p%d' % pi, scn.same_octets(s.heap[buf.cell], z3.Extract(OLD, lead + N, z3.Length(OLD) - lead - N)))
            if lead:
                c = s.heap.get(('sp', '_code'))
                r2.oblige(s, 'code-is-the-first-octet/p%d' % pi, ex.as_int(c) == OLD[0] if isinstance(c, E.VInt) else z3.BoolVal(False))
        return r2.result()
    return Scenario(label, SP + clsname, gen, props=('C05', 'C08', 'C02'))


_base_scn_t = scenarios


def scenarios():
    return _base_scn_t() + [text_subpacket('Policy', 'uri'), text_subpacket('PreferredKeyServer', 'uri'), text_subpacket('RegularExpression', 'regex'),
                            text_subpacket('SignersUserID', 'userid'),
                            text_subpacket('ReasonForRevocation', 'string', lead=1, enum='pgpy.constants.RevocationReason')]


def trust_signature():
    label = 'C02/subpackets.TrustSignature'

    def gen(repo):
        cls = SP + 'TrustSignature'
        obls, funcs, paths = [], [], 0
        r = scn.Run(repo, cls, '__bytearray__', label + '[bytes]')
        ex, st = r.ex, r.st
        HDR = z3.Const('SUBPACKET_HEADER', B)
        LEVEL, AMOUNT = z3.Ints('level amount')
        st.pc += [LEVEL >= 0, LEVEL < 256, AMOUNT >= 0, AMOUNT < 256]
        r.set('sp', '_level', E.VInt(LEVEL))
        r.set('sp', '_amount', E.VInt(AMOUNT))
        _hdr_hooks(r, HDR)
        for pi, (s, v) in enumerate(r.call(E.VObj(cls, 'sp'), [])):
            paths += 1
            if isinstance(v, E.Raise):
                r.oblige(s, 'safety(%s)/p%d' % (v.exc, pi), z3.BoolVal(False), v.where)
                continue
            r.oblige(s, 'rfc4880-5.2.3.13:level-octet,amount-octet/p%d' % pi, ex.seq(v, s) == cat(HDR, U(LEVEL), U(AMOUNT)))
        res = r.result()
        obls += res['obligations']
        funcs += res['funcs']
        r2 = scn.Run(repo, cls, 'parse', label + '[parse]')
        ex, st = r2.ex, r2.st
        OLD = z3.Const('RECEIVED', B)
        st.pc += [z3.Length(OLD) >= 2]
        st.facts += [z3.And(OLD[i] >= 0, OLD[i] < 256) for i in range(2)]
        buf = ex.new_buf(st, OLD)
        _hdr_hooks(r2, z3.Const('H', B))
        for pi, (s, v) in enumerate(r2.call(E.VObj(cls, 'sp'), [buf])):
            paths += 1
            if isinstance(v, E.Raise):
                r2.oblige(s, 'safety(%s)/p%d' % (v.exc, pi), z3.BoolVal(False), v.where)
                continue
            r2.oblige(s, 'level-and-amount-are-the-two-octets/p%d' % pi,
                      z3.And(ex.as_int(s.heap.get(('sp', '_level'))) == OLD[0], ex.as_int(s.heap.get(('sp', '_amount'))) == OLD[1]))
            r2.oblige(s, 'consumes-two-octets/p%d' % pi, s.heap[buf.cell] == z3.Extract(OLD, 2, z3.Length(OLD) - 2))
        res2 = r2.result()
        return {'obligations': obls + res2['obligations'], 'funcs': funcs + res2['funcs'], 'paths': paths}
    return Scenario(label, SP + 'TrustSignature', gen, props=('C02', 'C08'))


def revocation_key_parse():
    """RevocationKey.parse (RFC 4880 5.2.3.15): class octet, algorithm octet (any value: unknown ids are kept as numbers), 20-octet fingerprint"""
    label = 'C05/subpackets.RevocationKey[parse]'

    def gen(repo):
        cls = SP + 'RevocationKey'
        r2 = scn.Run(repo, cls, 'parse', label)
        ex, st = r2.ex, r2.st
        OLD = z3.Const('RECEIVED', B)
        st.pc += [z3.Length(OLD) >= 22]
        st.facts += [z3.And(OLD[i] >= 0, OLD[i] < 256) for i in range(22)]
        buf = ex.new_buf(st, OLD)
        _hdr_hooks(r2, z3.Const('H', B))
        r2.set('sp', '_keyclass', ex.new_list(st, []))

        def to_member(ex, st, c, a):
            known = z3.Bool('known_algorithm_%d' % len(st.pc))
            bad = st.clone()
            st.pc.append(known)
            bad.pc.append(z3.Not(known))
            return [(st, E.VInt(ex.as_int(a[0]), enum='pgpy.constants.PubKeyAlgorithm')), (bad, E.Raise('ValueError', 0))]
        r2.hook('pgpy.constants.PubKeyAlgorithm', '__call__', to_member)
        r2.hook('pgpy.types.Fingerprint', '__call__', lambda ex, st, c, a: [(st, E.VExt('Fingerprint', (a[0],)))])
        for pi, (s, v) in enumerate(r2.call(E.VObj(cls, 'sp'), [buf])):
            if isinstance(v, E.Raise):
                r2.oblige(s, 'every-class-and-algorithm-octet-is-accepted(%s)/p%d' % (v.exc.split(':')[0], pi), z3.BoolVal(False), v.where)
                continue
            alg = s.heap.get(('sp', '_algorithm'))
            r2.oblige(s, 'algorithm-is-the-second-octet/p%d' % pi, ex.as_int(alg) == OLD[1] if isinstance(alg, E.VInt) else z3.BoolVal(False))
            r2.oblige(s, 'consumes-22-octets/p%d' % pi, s.heap[buf.cell] == z3.Extract(OLD, 22, z3.Length(OLD) - 22))
            kc = s.heap.get(('sp', '_keyclass'))
            items = ex.items(kc, s) if isinstance(kc, E.VList) else None
            RKC = repo.enum_members('pgpy.constants.RevocationKeyClass')
            for name, val in RKC.items():
                held = z3.BoolVal(items is not None and any(isinstance(x, E.VInt) and x.conc() == val for x in items))
                r2.oblige(s, 'class-%s-held-iff-its-bit-is-set-in-the-first-octet/p%d' % (name, pi), held == ((OLD[0] / val) % 2 == 1))
        return r2.result()
    return Scenario(label, SP + 'RevocationKey', gen, props=('C05', 'C08', 'C02'))


_base_scn_tr = scenarios


def scenarios():
    return _base_scn_tr() + [trust_signature(), revocation_key_parse()]


def option_collection_is_copied(cls, setter, kind):
    """A preference list / flag set the caller hands to sign(), certify() or add_uid() (hashes=, ciphers=, compression=, usage=, ...) reaches
    the subpacket through this setter. The hashed area of a signature that has not been re-read is written from the live subpacket objects,
    while the signature integers were computed once: what the subpacket holds must be its OWN collection with the caller's elements, so
    that nothing the caller does to its list or set afterwards changes what is exported."""
    label = 'C02/subpackets.%s.%s[%s given by the caller]' % (cls, setter, kind)

    def gen(repo):
        r = scn.Run(repo, SP + cls, setter, label)
        ex, st = r.ex, r.st
        A, Bv, C = z3.Ints('pref_a pref_b pref_c')
        elems = [E.VInt(A), E.VInt(Bv), E.VInt(C)]
        if kind == 'list':
            val = ex.new_list(st, elems)
        elif kind == 'tuple':
            val = E.VTuple(elems) if hasattr(E, 'VTuple') else None
        else:
            val = E.VSet(elems)
        r.set('sp', '_flags', ex.new_list(st, []) if cls == 'FlagList' else E.VSet([]))
        for pi, (s, v) in enumerate(r.call(E.VObj(SP + cls, 'sp'), [val])):
            if isinstance(v, E.Raise):
                r.oblige(s, 'safety(%s)/p%d' % (v.exc, pi), z3.BoolVal(False), v.where)
                continue
            held = s.heap.get(('sp', '_flags'))
            if cls == 'FlagList':
                ok = isinstance(held, E.VList)
                r.oblige(s, 'holds-a-list/p%d' % pi, z3.BoolVal(ok))
                if not ok:
                    continue
                r.oblige(s, 'the-list-held-is-not-the-caller\'s-object/p%d' % pi, z3.BoolVal(not (isinstance(val, E.VList) and held.cell == val.cell)))
                items = list(s.heap[held.cell])
                r.oblige(s, 'same-elements-in-the-caller\'s-order/p%d' % pi, z3.BoolVal(len(items) == 3 and all(x is y for x, y in zip(items, elems))))
                if isinstance(val, E.VList):
                    r.oblige(s, 'caller\'s-list-untouched/p%d' % pi, z3.BoolVal(tuple(s.heap[val.cell]) == tuple(elems)))
            else:
                ok = isinstance(held, E.VSet)
                r.oblige(s, 'holds-a-set/p%d' % pi, z3.BoolVal(ok))
                if not ok:
                    continue
                r.oblige(s, 'the-set-held-is-not-the-caller\'s-object/p%d' % pi, z3.BoolVal(not (isinstance(val, E.VSet) and held.key == val.key)))
                hv = held.view(s)
                r.oblige(s, 'same-elements/p%d' % pi, z3.BoolVal(len(hv.items) == 3 and all(any(x is y for y in elems) for x in hv.items) and not hv.conds))
        return r.result()
    return Scenario(label, SP + cls + '.' + setter, gen, props=('C02', 'C14', 'C05'))


def notation_value_is_copied(readable):
    """NotationData.value_bytearray: a binary notation value (notation={name: bytearray}) is held in a buffer of the subpacket's own; a
    human-readable one becomes text. Either way nothing the caller does to its bytearray afterwards reaches the signature."""
    label = 'C02/subpackets.NotationData.value_bytearray[%s]' % ('human-readable' if readable else 'binary value given by the caller')
    cls = SP + 'NotationData'

    def gen(repo):
        r = scn.Run(repo, cls, 'value_bytearray', label)
        ex, st = r.ex, r.st
        VAL = z3.Const('NOTATION_VALUE', B)
        val = ex.new_buf(st, VAL)
        fl = 0x80 if readable else 0
        r.set('sp', '_flags', ex.new_list(st, [E.VInt(fl, enum='pgpy.constants.NotationDataFlags') if fl else E.VInt(0), E.VInt(0), E.VInt(0), E.VInt(0)]))
        r.set('sp', '_value', E.VStr(s=''))
        for pi, (s, v) in enumerate(r.call(E.VObj(cls, 'sp'), [val])):
            if isinstance(v, E.Raise):
                r.oblige(s, 'safety(%s)/p%d' % (v.exc.split(':')[0], pi), z3.BoolVal(False), v.where)
                continue
            held = s.heap.get(('sp', '_value'))
            if readable:
                r.oblige(s, 'text-with-one-code-point-per-octet/p%d' % pi,
                         z3.And(z3.BoolVal(isinstance(held, E.VStr) and bool(getattr(held, 'cp', False))), held.z == VAL) if isinstance(held, E.VStr) and held.z is not None else z3.BoolVal(False))
            else:
                isbuf = isinstance(held, (E.VBuf, E.VBytes))
                r.oblige(s, 'same-octets/p%d' % pi, ex.seq(held, s) == VAL if isbuf else z3.BoolVal(False))
                r.oblige(s, 'in-a-buffer-that-is-not-the-caller\'s/p%d' % pi, z3.BoolVal(isbuf and not (isinstance(held, E.VBuf) and held.cell == val.cell)))
            r.oblige(s, 'caller\'s-buffer-untouched/p%d' % pi, s.heap[val.cell] == VAL)
        return r.result()
    return Scenario(label, cls + '.value_bytearray', gen, props=('C02', 'C05'))


_base_scn_oc = scenarios


def scenarios():
    return _base_scn_oc() + [option_collection_is_copied('FlagList', 'flags_list', 'list'), option_collection_is_copied('ByteFlag', 'flags_seq', 'set'),
                             option_collection_is_copied('ByteFlag', 'flags_seq', 'list'), notation_value_is_copied(False), notation_value_is_copied(True)]
