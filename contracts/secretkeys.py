"""C06: secret keys at rest (unlock scope, keyblob encryption/decryption, wiping)."""
import z3
from pyvc import scn, engine as E
from pyvc.runner import Scenario
from pyvc.scn import U, cat, be

B = E.BYTES
KEY = 'pgpy.pgp.PGPKey'
COMPS = ['key', 'sk1', 'sk2']


def unlock(kind):
    """kind: 'protected' (primary protected, each subkey protected or not, symbolic), 'public', 'unprotected'"""
    label = 'C06/PGPKey.unlock[%s]' % kind

    def gen(repo):
        r = scn.Run(repo, KEY, 'unlock', label)
        ex, st = r.ex, r.st
        ex.yield_encoder = 'contextmanager'
        key, sk1, sk2 = [E.VObj(KEY, c) for c in COMPS]
        ok = {c: z3.Bool('passphrase_opens_' + c) for c in COMPS}
        prot = {c: z3.Bool('is_protected_' + c) for c in COMPS}
        if kind == 'protected':
            st.pc.append(prot['key'])
        elif kind == 'unprotected':
            st.pc.append(z3.Not(prot['key']))
        for c in COMPS:
            r.set(c, '_key', E.VObj('pgpy.packet.packets.PrivKeyV4', c + '_pkt'))
            r.set(c + '_pkt', 'keymaterial', E.VObj('pgpy.packet.fields.RSAPriv', c + '_km'))
            st.ghost['secret_' + c] = z3.BoolVal(False)      # ghost: cleartext secret integers present
            st.ghost['cleared_' + c] = False
            st.ghost['unprotect_called_' + c] = False
        r.hook(KEY, 'is_public', scn.const(E.VBool(kind == 'public')))
        r.hook(KEY, 'is_protected', lambda ex, st, o, a: [(st, E.VBool(prot[o.ref]))])
        r.hook(KEY, 'subkeys', scn.const(E.VDict([(E.VStr(s='id1'), sk1), (E.VStr(s='id2'), sk2)])))

        def unprotect(ex, st, o, a):
            c = o.ref[:-4]
            st.ghost['unprotect_called_' + c] = True
            res = []
            for s2, good in ex.fork(st, ok[c]):
                if good:
                    s2.ghost['secret_' + c] = z3.BoolVal(True)
                    res.append((s2, E.VNone()))
                else:
                    res.append((s2, E.Raise('PGPDecryptionError', 0)))       # contract of decrypt_keyblob: no field assigned on failure
            return res
        r.hook('pgpy.packet.packets.PrivKeyV4', 'unprotect', scn.method_hook(unprotect))

        def clear(ex, st, o, a):
            c = o.ref[:-3]
            st.ghost['secret_' + c] = z3.BoolVal(False)
            st.ghost['cleared_' + c] = True
            return [(st, E.VNone())]
        r.hook('pgpy.packet.fields.PrivKey', 'clear', scn.method_hook(clear))
        outs = r.call(key, [E.VStr(s='pw')])
        kinds = set()
        for pi, (s, v) in enumerate(outs):
            ek = scn.exit_kind(v)
            if ek == 'raise BlockException':
                ek = 'exception-in-with-block'
            if ek == 'raise BlockBaseException':
                ek = 'base-exception-in-with-block(KeyboardInterrupt,GeneratorExit,...)'
            kinds.add(ek)
            tag = '%s/p%d' % (ek, pi)
            entered = s.ghost.get('with_block') is not None
            if kind == 'protected':
                for c in COMPS:
                    r.oblige(s, 'on-exit-no-cleartext-secret(%s)[%s]' % (c, tag), z3.Implies(prot[c], z3.Not(s.ghost['secret_' + c])))
                    # frame: a component that is not protected is neither un-protected nor wiped (its secret could not be recovered)
                    r.oblige(s, 'unprotected-component-left-alone(%s)[%s]' % (c, tag),
                             z3.Implies(z3.Not(prot[c]), z3.BoolVal(not s.ghost['cleared_' + c] and not s.ghost['unprotect_called_' + c])))
                if isinstance(v, E.Raise) and v.exc == 'PGPDecryptionError':
                    r.oblige(s, 'raises-only-for-wrong-passphrase[%s]' % tag, z3.Not(z3.And(*[z3.Implies(prot[c], ok[c]) for c in COMPS])))
                    r.oblige(s, 'block-not-entered-when-wrong-passphrase[%s]' % tag, z3.BoolVal(not entered))
                elif isinstance(v, E.Raise) and v.exc not in ('BlockException', 'BlockBaseException'):
                    r.oblige(s, 'no-other-exception(%s)[%s]' % (v.exc, tag), z3.BoolVal(False), v.where)
                if entered:
                    r.oblige(s, 'block-entered-only-with-every-protected-component-open[%s]' % tag,
                             z3.And(*[z3.Implies(prot[c], ok[c]) for c in COMPS]))
            else:
                # public / unprotected keys: yields self, touches nothing
                r.oblige(s, 'nothing-unprotected-or-cleared[%s]' % tag,
                         z3.BoolVal(not any(s.ghost['cleared_' + c] or s.ghost['unprotect_called_' + c] for c in COMPS)))
                r.oblige(s, 'block-entered[%s]' % tag, z3.BoolVal(entered))
                if isinstance(v, E.Raise) and v.exc not in ('BlockException', 'BlockBaseException'):
                    r.oblige(s, 'no-exception(%s)[%s]' % (v.exc, tag), z3.BoolVal(False), v.where)
        if kind == 'protected':
            r.oblige(st, 'cover-all-exit-kinds', z3.BoolVal({'return', 'exception-in-with-block', 'base-exception-in-with-block(KeyboardInterrupt,GeneratorExit,...)', 'raise PGPDecryptionError'} <= kinds))
        return r.result()
    return Scenario(label, KEY + '.unlock', gen, props=('C06', 'C15', 'C16'))


# ---------------------------------------------------------------------------------------------------
PRIVS = {'RSAPriv': ('d', 'p', 'q', 'u'), 'DSAPriv': ('x',), 'ElGPriv': ('x',), 'ECDSAPriv': ('s',), 'EdDSAPriv': ('s',), 'ECDHPriv': ('s',)}


def _mpi_enc(ex, st, v):
    blv = ex.bl(st, v)
    return cat(be(blv, 2), E.BE(v, (blv + 7) / 8))


def encrypt_keyblob(clsname, reprotect=False):
    """reprotect: the material already carries string-to-key parameters - ANY that can be read from a packet (a key protected by another
    implementation with a simple or salted specifier, another cipher, hash and count; it was unlocked and is protected anew). What is written
    is the same as for a first protection: iterated and salted, fresh salt and IV, the requested algorithms, the tuned count."""
    cls = 'pgpy.packet.fields.' + clsname
    label = 'C06/fields.%s.encrypt_keyblob%s' % (clsname, '[protected before, by any implementation]' if reprotect else '')

    def gen(repo):
        r = scn.Run(repo, cls, 'encrypt_keyblob', label)
        ex, st = r.ex, r.st
        me = E.VObj(cls, 'km')
        secs = {f: z3.Int('SECRET_' + f) for f in PRIVS[clsname]}
        for f, v in secs.items():
            st.pc += [v > 0, ex.bl(st, v) < 65536]
            r.set('km', f, E.VInt(v, enum='pgpy.packet.types.MPI'))
        r.set('km', 's2k', E.VObj('pgpy.packet.fields.String2Key', 's2k'))
        for f, v in (('usage', E.VInt(0)), ('_encalg', E.VInt(0, enum='pgpy.constants.SymmetricKeyAlgorithm')), ('_specifier', E.VInt(0, enum='pgpy.constants.String2KeyType')),
                     ('iv', E.VNone()), ('_halg', E.VInt(0, enum='pgpy.constants.HashAlgorithm')), ('salt', E.VNone()), ('_count', E.VInt(0))):
            r.set('s2k', f, v)
        if reprotect:
            U0, SP0, EA0, HA0, C0 = z3.Ints('old_usage old_specifier old_cipher old_hash old_coded_count')
            st.pc += [z3.Or(U0 == 254, U0 == 255), z3.Or(SP0 == 0, SP0 == 1, SP0 == 3), z3.Or(*[EA0 == x for x in (2, 3, 7, 8, 9)]),
                      z3.Or(*[HA0 == x for x in (2, 8, 10)]), C0 >= 0, C0 <= 255]
            for f, v in (('usage', E.VInt(U0)), ('_encalg', E.VInt(EA0, enum='pgpy.constants.SymmetricKeyAlgorithm')),
                         ('_specifier', E.VInt(SP0, enum='pgpy.constants.String2KeyType')), ('iv', ex.new_buf(st, z3.Const('OLD_IV', B))),
                         ('_halg', E.VInt(HA0, enum='pgpy.constants.HashAlgorithm')), ('salt', ex.new_buf(st, z3.Const('OLD_SALT', B))), ('_count', E.VInt(C0))):
                r.set('s2k', f, v)
        r.set('km', 'encbytes', ex.new_buf(st, z3.Empty(B)))
        SESSIONKEY = z3.Const('S2K_DERIVED_KEY', B)
        TC = z3.Int('tuned_count')
        st.pc += [TC >= 0, TC <= 255]
        r.hook('pgpy.constants.HashAlgorithm', 'tuned_count', scn.const(E.VInt(TC)))
        scn.cipher_facts(r)

        def derive(ex, st, o, a):
            st.ghost['derive_state'] = {k: st.heap.get(('s2k', k)) for k in ('usage', '_encalg', '_specifier', '_halg', 'salt', '_count')}
            st.ghost['derive_arg'] = a[0]
            return [(st, E.VBytes(SESSIONKEY))]
        r.hook('pgpy.packet.fields.String2Key', 'derive_key', scn.method_hook(derive))
        CT = z3.Const('CIPHERTEXT', B)

        def enc(ex, st, o, a):
            st.ghost['enc_args'] = a
            return [(st, ex.new_buf(st, CT))]
        ex.fhooks['pgpy.symenc._encrypt'] = enc
        PW = E.VStr(z=z3.Const('PASSPHRASE', B))
        encalg = E.VInt(9, enum='pgpy.constants.SymmetricKeyAlgorithm')      # AES256: block 128
        halg = E.VInt(8, enum='pgpy.constants.HashAlgorithm')
        for pi, (s, v) in enumerate(r.call(me, [PW, encalg, halg])):
            if isinstance(v, E.Raise):
                r.oblige(s, 'safety(%s)/p%d' % (v.exc.split(':')[0], pi), z3.BoolVal(False), v.where)
                continue
            g = lambda f: s.heap.get(('s2k', f))
            draws = s.ghost.get('rand', ())
            r.oblige(s, 'usage-254-iterated-salted/p%d' % pi, z3.And(ex.as_int(g('usage')) == 254, ex.as_int(g('_specifier')) == 3,
                                                                     ex.as_int(g('_encalg')) == 9, ex.as_int(g('_halg')) == 8, ex.as_int(g('_count')) == TC))
            r.oblige(s, 'two-fresh-random-draws/p%d' % pi, z3.BoolVal(len(draws) == 2))
            if len(draws) == 2:
                iv, salt = g('iv'), g('salt')
                r.oblige(s, 'iv-is-a-fresh-draw-of-block-size/p%d' % pi, z3.And(ex.seq(iv, s) == draws[0][1], draws[0][0] == 16))
                r.oblige(s, 'salt-is-a-fresh-draw-of-8-octets/p%d' % pi, z3.And(ex.seq(salt, s) == draws[1][1], draws[1][0] == 8))
            ds = s.ghost.get('derive_state')
            r.oblige(s, 'key-derived-after-s2k-is-set-up-from-the-passphrase/p%d' % pi,
                     z3.BoolVal(ds is not None and s.ghost.get('derive_arg') is PW and all(ds[k] is g(k) for k in ds)))
            a = s.ghost.get('enc_args')
            r.oblige(s, 'encrypted-once/p%d' % pi, z3.BoolVal(a is not None))
            if a is not None:
                mp = cat(*[_mpi_enc(ex, s, secs[f]) for f in PRIVS[clsname]])
                hashed = s.ghost.get('hashed', [])
                r.oblige(s, 'sha1-of-the-secret-mpis/p%d' % pi, z3.BoolVal(len(hashed) == 1 and hashed[0][0] == 'sha1'))
                if len(hashed) == 1:
                    r.oblige(s, 'sha1-input-is-the-secret-mpis/p%d' % pi, hashed[0][1] == mp)
                    r.oblige(s, 'plaintext-is-mpis-then-sha1/p%d' % pi, ex.seq(a[0], s) == cat(mp, hashed[0][2]))
                r.oblige(s, 'under-the-derived-key-cipher-and-iv/p%d' % pi,
                         z3.And(ex.seq(a[1], s) == SESSIONKEY, ex.as_int(a[2]) == 9, ex.seq(a[3], s) == ex.seq(g('iv'), s)))
                r.oblige(s, 'encbytes-is-the-ciphertext/p%d' % pi, ex.seq(s.heap[('km', 'encbytes')], s) == CT)
            for f in PRIVS[clsname]:
                fv = s.heap.get(('km', f))
                r.oblige(s, 'secret-field-wiped(%s)/p%d' % (f, pi), z3.And(z3.BoolVal(isinstance(fv, E.VInt)), ex.as_int(fv) == 0 if isinstance(fv, E.VInt) else z3.BoolVal(False)))
        return r.result()
    return Scenario(label, cls + '.encrypt_keyblob', gen, props=('C06', 'C13'))


def decrypt_keyblob_base(usage):
    label = 'C06/fields.PrivKey.decrypt_keyblob[usage %d]' % usage
    cls = 'pgpy.packet.fields.RSAPriv'

    def gen(repo):
        lk = repo.lookup('pgpy.packet.fields.PrivKey', 'decrypt_keyblob')
        r = scn.Run(repo, 'pgpy.packet.fields.PrivKey', 'decrypt_keyblob', label)
        ex, st = r.ex, r.st
        me = E.VObj(cls, 'km')
        ENC, IV, SK, PT = [z3.Const(n, B) for n in ('ENCBYTES', 'IV', 'S2K_DERIVED_KEY', 'DECRYPTED')]
        r.set('km', 's2k', E.VObj('pgpy.packet.fields.String2Key', 's2k'))
        r.set('km', 'encbytes', ex.new_buf(st, ENC))
        r.hook('pgpy.packet.fields.String2Key', '__bool__', scn.mconst(E.VBool(True)))
        r.hook('pgpy.packet.fields.String2Key', 'usage', scn.const(E.VInt(usage)))
        r.hook('pgpy.packet.fields.String2Key', 'encalg', scn.const(E.VInt(9, enum='pgpy.constants.SymmetricKeyAlgorithm')))
        r.hook('pgpy.packet.fields.String2Key', 'iv', scn.const(E.VBytes(IV)))
        r.hook('pgpy.packet.fields.String2Key', 'derive_key', scn.mconst(E.VBytes(SK)))

        def dec(ex, st, o, a):
            st.ghost['dec_args'] = a
            return [(st, ex.new_buf(st, PT))]
        ex.fhooks['pgpy.symenc._decrypt'] = dec
        SUMOCT = z3.Function('SUM_OF_OCTETS', B, z3.IntSort())
        H = E.HFN
        sha1 = z3.IntVal(int(__import__('hashlib').sha256(b'sha1').hexdigest()[:6], 16))
        n = z3.Length(PT)
        for pi, (s, v) in enumerate(r.call(me, [E.VStr(z=z3.Const('PASSPHRASE', B))])):
            if usage == 254:
                good = z3.Extract(PT, z3.If(n >= 20, n - 20, 0), z3.If(n >= 20, 20, n)) == H(sha1, z3.Extract(PT, 0, z3.If(n >= 20, n - 20, 0)))
            elif usage == 255:
                tail = z3.Extract(PT, z3.If(n >= 2, n - 2, 0), z3.If(n >= 2, 2, n))
                good = E.B2I(tail) == SUMOCT(z3.Extract(PT, 0, z3.If(n >= 2, n - 2, 0))) % 65536
                s.facts.append(z3.Implies(z3.Length(tail) == 2, E.B2I(tail) == tail[0] * 256 + tail[1]))
                s.facts.append(z3.Implies(z3.Length(tail) == 1, E.B2I(tail) == tail[0]))
                s.facts.append(z3.Implies(z3.Length(tail) == 0, E.B2I(tail) == 0))
            else:
                good = z3.BoolVal(True)
            if isinstance(v, E.Raise):
                exc = v.exc.split(':')[0]
                r.oblige(s, 'rejects-only-with-PGPDecryptionError/p%d' % pi, z3.BoolVal(exc == 'PGPDecryptionError'), v.where)
                r.oblige(s, 'rejects-only-when-integrity-check-fails/p%d' % pi, z3.Not(good))
                continue
            r.oblige(s, 'accepts-only-when-integrity-check-holds/p%d' % pi, good)
            r.oblige(s, 'returns-the-decrypted-octets/p%d' % pi, ex.seq(v, s) == PT)
            a = s.ghost.get('dec_args')
            r.oblige(s, 'decrypts-encbytes-with-derived-key-cipher-iv/p%d' % pi,
                     z3.And(z3.BoolVal(a is not None), z3.And(ex.seq(a[0], s) == ENC, ex.seq(a[1], s) == SK, ex.as_int(a[2]) == 9, ex.seq(a[3], s) == IV)
                            if a is not None else z3.BoolVal(False)))
        return r.result()
    return Scenario(label, 'pgpy.packet.fields.PrivKey.decrypt_keyblob', gen, props=('C06', 'C04'))


def decrypt_keyblob_alg(clsname):
    cls = 'pgpy.packet.fields.' + clsname
    label = 'C06/fields.%s.decrypt_keyblob' % clsname

    def gen(repo):
        r = scn.Run(repo, cls, 'decrypt_keyblob', label)
        ex, st = r.ex, r.st
        me = E.VObj(cls, 'km')
        KB = z3.Const('DECRYPTED_KEYBLOB', B)
        fail = z3.Bool('integrity_check_fails')
        for f in PRIVS[clsname]:
            r.set('km', f, E.VInt(0, enum='pgpy.packet.types.MPI'))
        r.set('km', 's2k', E.VObj('pgpy.packet.fields.String2Key', 's2k'))
        r.hook('pgpy.packet.fields.String2Key', 'usage', scn.const(E.VInt(254)))

        def base(ex, st, o, a):
            s2 = st.clone()
            st.pc.append(z3.Not(fail))
            s2.pc.append(fail)
            return [(st, ex.new_buf(st, KB)), (s2, E.Raise('PGPDecryptionError', 0))]
        r.hook('pgpy.packet.fields.PrivKey', 'decrypt_keyblob', scn.method_hook(base))
        # callee contract of MPI(bytearray) (proved in C09: value = the RFC 4880 3.2 integer at the front, consumed in place):
        # abstracted here by the pair of spec functions MPI_VALUE / MPI_REST over the buffer contents
        MPIV = z3.Function('MPI_VALUE', B, z3.IntSort())
        MPIR = z3.Function('MPI_REST', B, B)

        def mpi_decode(ex, st, cls, a):
            if not isinstance(a[0], E.VBuf):
                raise E.ToolLimit('MPI() of a non-buffer in decrypt_keyblob')
            cur = st.heap[a[0].cell]
            st.heap[a[0].cell] = MPIR(cur)
            return [(st, E.VInt(MPIV(cur), enum='pgpy.packet.types.MPI'))]
        r.hook('pgpy.packet.types.MPI', '__call__', mpi_decode)
        specs = []
        cur = KB
        for f in PRIVS[clsname]:
            specs.append((f, MPIV(cur)))
            cur = MPIR(cur)
        for pi, (s, v) in enumerate(r.call(me, [E.VStr(z=z3.Const('PASSPHRASE', B))])):
            if isinstance(v, E.Raise):
                r.oblige(s, 'only-the-integrity-failure-propagates/p%d' % pi, z3.And(z3.BoolVal(v.exc.split(':')[0] == 'PGPDecryptionError'), fail), v.where)
                for f in PRIVS[clsname]:
                    fv = s.heap.get(('km', f))
                    r.oblige(s, 'no-secret-field-assigned-on-failure(%s)/p%d' % (f, pi), z3.BoolVal(isinstance(fv, E.VInt) and fv.conc() == 0))
                continue
            for f, want in specs:
                fv = s.heap.get(('km', f))
                r.oblige(s, 'recovered-integer-is-the-next-mpi-of-the-decrypted-octets(%s)/p%d' % (f, pi), z3.And(z3.BoolVal(isinstance(fv, E.VInt)), ex.as_int(fv) == want if isinstance(fv, E.VInt) else z3.BoolVal(False)))
        return r.result()
    return Scenario(label, cls + '.decrypt_keyblob', gen, props=('C06',))


def clear():
    label = 'C06/fields.PrivKey.clear'
    cls = 'pgpy.packet.fields.RSAPriv'

    def gen(repo):
        r = scn.Run(repo, 'pgpy.packet.fields.PrivKey', 'clear', label)
        ex, st = r.ex, r.st
        me = E.VObj(cls, 'km')
        for f in PRIVS['RSAPriv']:
            r.set('km', f, E.VInt(z3.Int('SECRET_' + f), enum='pgpy.packet.types.MPI'))
        for f in ('n', 'e'):
            r.set('km', f, E.VInt(z3.Int('pub_' + f), enum='pgpy.packet.types.MPI'))
        # the material has been USED before it is wiped (a private operation asked for the backend key object): whatever that left in
        # the object must not survive the wipe either
        lkp = repo.lookup(cls, '__privkey__')
        used = ex.call_func(E.VFunc(lkp[2], None, cls=lkp[1], self_val=me, mod=repo.classes[lkp[1]].module), [], {}, st, {'mod': repo.classes[lkp[1]].module})
        used = [(s0, v0) for s0, v0 in used if not isinstance(v0, E.Raise)]
        if len(used) != 1:
            raise E.ToolLimit('__privkey__ of the material did not return on exactly one path')
        r.st = st = used[0][0]

        def mentions_secret(v, s, depth=0):
            if depth > 6 or v is None:
                return False
            if isinstance(v, (E.VInt, E.VBool)):
                return 'SECRET_' in str(v.z)
            if isinstance(v, (E.VBytes, E.VBuf)):
                return 'SECRET_' in str(ex.seq(v, s))
            if isinstance(v, E.VTuple):
                return any(mentions_secret(x, s, depth + 1) for x in v.items)
            if isinstance(v, E.VList):
                return any(mentions_secret(x, s, depth + 1) for x in ex.items(v, s))
            if isinstance(v, E.VDict):
                return any(mentions_secret(a, s, depth + 1) or mentions_secret(b, s, depth + 1) for a, b in v.of(s))
            if isinstance(v, E.VExt):
                return any(mentions_secret(x, s, depth + 1) for x in list(v.args or ()) + list((getattr(v, 'kws', None) or {}).values()))
            return False
        for pi, (s, v) in enumerate(r.call(me, [])):
            if isinstance(v, E.Raise):
                r.oblige(s, 'safety/p%d' % pi, z3.BoolVal(False), v.where)
                continue
            for f in PRIVS['RSAPriv']:
                fv = s.heap.get(('km', f))
                r.oblige(s, 'every-secret-field-is-zero(%s)/p%d' % (f, pi), z3.BoolVal(isinstance(fv, E.VInt) and fv.conc() == 0))
            left = sorted(k[1] for k, hv in s.heap.items() if isinstance(k, tuple) and len(k) == 2 and k[0] == 'km' and mentions_secret(hv, s))
            r.oblige(s, 'nothing-in-the-material-object-still-depends-on-a-secret-integer(after-it-was-used-for-a-private-operation)[%s]/p%d' % (','.join(left), pi),
                     z3.BoolVal(not left))
            for f in ('n', 'e'):
                fv = s.heap.get(('km', f))
                r.oblige(s, 'public-field-untouched(%s)/p%d' % (f, pi), ex.as_int(fv) == z3.Int('pub_' + f))
        return r.result()
    return Scenario(label, 'pgpy.packet.fields.PrivKey.clear', gen, props=('C06',))


def scenarios():
    out = [unlock('protected'), unlock('public'), unlock('unprotected'), clear()]
    out += [encrypt_keyblob(c) for c in ('RSAPriv', 'DSAPriv', 'EdDSAPriv')] + [encrypt_keyblob('RSAPriv', True), encrypt_keyblob('EdDSAPriv', True)]
    out += [decrypt_keyblob_base(u) for u in (254, 255)]
    out += [decrypt_keyblob_alg(c) for c in ('RSAPriv', 'DSAPriv', 'ElGPriv', 'ECDSAPriv', 'EdDSAPriv', 'ECDHPriv')]
    return out


def key_protect():
    """PGPKey.protect: refused (with a warning, nothing touched) on public keys and on locked keys; otherwise EVERY component's secret
    material is encrypted with the given passphrase and algorithms"""
    label = 'C06/PGPKey.protect'
    KEY, PKT = 'pgpy.pgp.PGPKey', 'pgpy.packet.packets.PrivKeyV4'

    def gen(repo):
        r = scn.Run(repo, KEY, 'protect', label)
        ex, st = r.ex, r.st
        public, protected, unlocked = z3.Bools('is_public is_protected is_unlocked')
        me = E.VObj(KEY, 'key')
        subs = [E.VObj(KEY, 'sub%d' % i) for i in range(2)]
        r.hook(KEY, 'is_public', scn.const(E.VBool(public)))
        r.hook(KEY, 'is_protected', scn.const(E.VBool(protected)))
        r.hook(KEY, 'is_unlocked', scn.const(E.VBool(unlocked)))
        r.hook(KEY, 'subkeys', scn.const(E.VDict([(E.VStr(s='id%d' % i), x) for i, x in enumerate(subs)])))
        for x in [me] + subs:
            r.set(x.ref, '_key', E.VObj(PKT, 'pkt-' + x.ref))
        PW, ENC, HASH = E.VStr(z=z3.Const('PASSPHRASE', E.BYTES)), E.VExt('cipher', ()), E.VExt('hash', ())

        def pkt_protect(ex, st, o, a):
            st.ghost['protected'] = st.ghost.get('protected', ()) + ((o.ref, a),)
            return [(st, E.VNone())]
        r.hook(PKT, 'protect', scn.method_hook(pkt_protect))

        def warn(ex, st, o, a):
            st.ghost['warned'] = st.ghost.get('warned', 0) + 1
            return [(st, E.VNone())]
        ex.hooks[('ext', 'warnings.warn')] = warn
        for pi, (s, v) in enumerate(r.call(me, [PW, ENC, HASH])):
            if isinstance(v, E.Raise):
                r.oblige(s, 'safety(%s)/p%d' % (v.exc.split(':')[0], pi), z3.BoolVal(False), v.where)
                continue
            done = s.ghost.get('protected', ())
            refused = z3.Or(public, z3.And(protected, z3.Not(unlocked)))
            r.oblige(s, 'public-or-locked-key:nothing-is-touched-and-a-warning-is-given/p%d' % pi,
                     z3.Implies(refused, z3.BoolVal(len(done) == 0 and s.ghost.get('warned', 0) == 1)))
            r.oblige(s, 'otherwise:primary-and-every-subkey-packet-protected-once,with-the-given-passphrase-and-algorithms/p%d' % pi,
                     z3.Implies(z3.Not(refused), z3.BoolVal([d[0] for d in done] == ['pkt-key', 'pkt-sub0', 'pkt-sub1']
                                                            and all(d[1][0] is PW and d[1][1] is ENC and d[1][2] is HASH for d in done))))
        return r.result()
    return Scenario(label, KEY + '.protect', gen, props=('C06', 'C15'))


def packet_protect():
    """PrivKeyV4.protect / unprotect / protected / unlocked"""
    label = 'C06/PrivKeyV4.protect+unprotect+protected+unlocked'
    PKT, KM = 'pgpy.packet.packets.PrivKeyV4', 'pgpy.packet.fields.RSAPriv'

    def gen(repo):
        obls, funcs, paths = [], [], 0
        PW, ENC, HASH = E.VStr(z=z3.Const('PASSPHRASE', E.BYTES)), E.VExt('cipher', ()), E.VExt('hash', ())
        for fn in ('protect', 'unprotect'):
            r = scn.Run(repo, PKT, fn, label + '[%s]' % fn)
            ex, st = r.ex, r.st
            r.set('pkt', 'keymaterial', E.VObj(KM, 'km'))

            def rec(name):
                def h(ex, st, o, a):
                    st.ghost['events'] = st.ghost.get('events', ()) + ((name, o.ref, a),)
                    return [(st, E.VNone())]
                return h
            r.hook(KM, 'encrypt_keyblob', scn.method_hook(rec('encrypt_keyblob')))
            r.hook(KM, 'decrypt_keyblob', scn.method_hook(rec('decrypt_keyblob')))
            r.hook('pgpy.packet.types.Packet', 'update_hlen', scn.method_hook(rec('update_hlen')))
            r.hook('pgpy.packet.types.VersionedPacket', 'update_hlen', scn.method_hook(rec('update_hlen')))
            for pi, (s, v) in enumerate(r.call(E.VObj(PKT, 'pkt'), [PW, ENC, HASH] if fn == 'protect' else [PW])):
                paths += 1
                if isinstance(v, E.Raise):
                    r.oblige(s, 'safety(%s)/p%d' % (v.exc.split(':')[0], pi), z3.BoolVal(False), v.where)
                    continue
                ev = s.ghost.get('events', ())
                if fn == 'protect':
                    r.oblige(s, 'the-secret-material-is-encrypted-with-the-given-arguments,THEN-the-packet-length-is-recomputed/p%d' % pi,
                             z3.BoolVal([e[0] for e in ev] == ['encrypt_keyblob', 'update_hlen'] and ev[0][1] == 'km'
                                        and ev[0][2][0] is PW and ev[0][2][1] is ENC and ev[0][2][2] is HASH and ev[1][1] == 'pkt'))
                else:
                    r.oblige(s, 'the-secret-material-is-decrypted-with-the-given-passphrase/p%d' % pi,
                             z3.BoolVal([e[0] for e in ev] == ['decrypt_keyblob'] and ev[0][1] == 'km' and ev[0][2][0] is PW))
            res = r.result()
            obls += res['obligations']
            funcs += res['funcs']
        # protected <=> an S2K specifier is in use; unlocked <=> not protected, or no secret integer is the wiped value 0
        r = scn.Run(repo, PKT, 'unlocked', label + '[unlocked]')
        ex, st = r.ex, r.st
        inuse = z3.Bool('s2k_in_use')
        r.set('pkt', 'keymaterial', E.VObj(KM, 'km'))
        r.set('km', 's2k', E.VObj('pgpy.packet.fields.String2Key', 's2k'))
        r.hook('pgpy.packet.fields.String2Key', '__bool__', scn.method_hook(lambda ex, st, o, a: [(st, E.VBool(inuse))]))
        vals = [z3.Int('mpi%d' % i) for i in range(6)]
        st.pc += [x >= 0 for x in vals]
        r.hook(KM, '__iter__', scn.method_hook(lambda ex, st, o, a: [(st, ex.new_list(st, [E.VInt(x, enum='pgpy.packet.types.MPI') for x in vals]))]))
        for pi, (s, v) in enumerate(r.call(E.VObj(PKT, 'pkt'), [])):
            paths += 1
            if isinstance(v, E.Raise):
                r.oblige(s, 'safety(%s)/p%d' % (v.exc.split(':')[0], pi), z3.BoolVal(False), v.where)
                continue
            r.oblige(s, 'unlocked-iff-not-protected-or-no-integer-of-the-material-is-the-wiped-value-0/p%d' % pi,
                     ex.truth(v, s) == z3.Or(z3.Not(inuse), z3.And(*[x != 0 for x in vals])))
        res = r.result()
        return {'obligations': obls + res['obligations'], 'funcs': funcs + res['funcs'], 'paths': paths}
    return Scenario(label, PKT + '.protect', gen, props=('C06', 'C08', 'C16'))


_base_scn_kp = scenarios


def scenarios():
    return _base_scn_kp() + [key_protect(), packet_protect()]


def priv_parse(clsname):
    """<alg>Priv.parse: after the public part and the S2K specifier - unprotected material: the secret integers in order, then the
    two-octet checksum; protected material (usage 254 / 255): everything that is left is the ciphertext, untouched (D19)"""
    label = 'C06/fields.%s.parse' % clsname
    cls = 'pgpy.packet.fields.' + clsname
    pubcls = cls.replace('Priv', 'Pub')

    def gen(repo):
        r = scn.Run(repo, cls, 'parse', label)
        ex, st = r.ex, r.st
        OLD = z3.Const('AFTER_PUBLIC_PART_AND_S2K', E.BYTES)
        buf = ex.new_buf(st, OLD)
        usage = z3.Int('s2k_usage')
        st.pc += [z3.Or(usage == 0, usage == 254, usage == 255)]
        for c in repo.mro(cls)[1:]:
            if c in repo.classes and 'parse' in repo.classes[c].methods and not c.endswith('Priv'):
                r.hook(c, 'parse', scn.mconst(E.VNone()))                 # the public fields: contract of the public class (C18 / C08)
        r.set('km', 's2k', E.VObj('pgpy.packet.fields.String2Key', 's2k'))
        r.hook('pgpy.packet.fields.String2Key', 'parse', scn.mconst(E.VNone()))         # S2K codec: C08
        r.hook('pgpy.packet.fields.String2Key', 'usage', scn.const(E.VInt(usage)))
        r.hook('pgpy.packet.fields.String2Key', '__bool__', scn.method_hook(lambda ex, st, o, a: [(st, E.VBool(z3.Or(usage == 254, usage == 255)))]))

        def mpi(ex, st, c, a):
            # contract of MPI(buffer) (C09): takes the two-octet bit count and the value octets from the front, in place
            S = st.heap[a[0].cell]
            k = E.fresh('mpi_octets')
            st.pc += [k >= 2, k <= z3.Length(S)]
            v = E.fresh('mpi_value')
            st.ghost['mpis'] = st.ghost.get('mpis', ()) + ((v, k),)
            st.heap[a[0].cell] = z3.Extract(S, k, z3.Length(S) - k)
            return [(st, E.VInt(v, enum='pgpy.packet.types.MPI'))]
        r.hook('pgpy.packet.types.MPI', '__call__', mpi)
        fields = PRIVS[clsname]
        for pi, (s, v) in enumerate(r.call(E.VObj(cls, 'km'), [buf])):
            if isinstance(v, E.Raise):
                r.oblige(s, 'safety(%s)/p%d' % (v.exc.split(':')[0], pi), z3.BoolVal(False), v.where)
                continue
            mp = s.ghost.get('mpis', ())
            protected = z3.Or(usage == 254, usage == 255)
            cur = s.heap[buf.cell]
            if len(mp) == 0:
                r.oblige(s, 'no-integer-read=>protected-material/p%d' % pi, protected)
                eb = s.heap.get(('km', '_encbytes')) or s.heap.get(('km', 'encbytes'))
                r.oblige(s, 'protected:everything-left-is-the-ciphertext/p%d' % pi,
                         ex.seq(eb, s) == OLD if isinstance(eb, (E.VBytes, E.VBuf)) else z3.BoolVal(False))
                r.oblige(s, 'protected:nothing-is-cut-off-the-ciphertext(no-checksum-is-read-from-it)/p%d' % pi,
                         z3.And(cur == OLD, z3.BoolVal(not isinstance(s.heap.get(('km', 'chksum')), (E.VBytes, E.VBuf)) or True)))
            else:
                r.oblige(s, 'integers-read=>unprotected-material/p%d' % pi, usage == 0)
                r.oblige(s, 'the-%d-secret-integer%s-in-order/p%d' % (len(fields), '' if len(fields) == 1 else 's', pi),
                         z3.BoolVal(len(mp) == len(fields)) if len(mp) != len(fields) else
                         z3.And(*[ex.as_int(s.heap.get(('km', f))) == mp[i][0] for i, f in enumerate(fields)]))
                total = sum([k for _, k in mp], z3.IntVal(0))
                ck = s.heap.get(('km', 'chksum')) if s.heap.get(('km', 'chksum')) is not None else s.heap.get(('km', '_chksum'))
                r.oblige(s, 'then-the-two-octet-checksum/p%d' % pi,
                         z3.And(scn.same_octets(ex.seq(ck, s), z3.Extract(OLD, total, z3.If(z3.Length(OLD) - total < 2, z3.Length(OLD) - total, 2))),
                                scn.same_octets(cur, z3.Extract(OLD, total + 2, z3.Length(OLD) - total - 2)))
                         if isinstance(ck, (E.VBytes, E.VBuf)) else z3.BoolVal(False))
        return r.result()
    return Scenario(label, cls + '.parse', gen, props=('C06', 'C08', 'C18'))


_base_scn_pp = scenarios


def scenarios():
    return _base_scn_pp() + [priv_parse(c) for c in ('RSAPriv', 'DSAPriv', 'ElGPriv', 'ECDSAPriv', 'EdDSAPriv', 'ECDHPriv')]
