"""C15: pointwise clauses of key management (which self-signature is the effective one)."""
import z3
from pyvc import scn, engine as E
from pyvc.runner import Scenario

UID = 'pgpy.pgp.PGPUID'
SIG = 'pgpy.pgp.PGPSignature'
KEY = 'pgpy.pgp.PGPKey'


def selfsig(n):
    """uid with n signatures in deque order (sorted by creation time, stable: C14); each is self-issued or not (symbolic),
    names its issuer by fingerprint or by key id (symbolic)"""
    label = 'C15/PGPUID.selfsig[%d signatures]' % n

    def gen(repo):
        r = scn.Run(repo, UID, 'selfsig', label)
        ex, st = r.ex, r.st
        me = E.VObj(UID, 'uid')
        parent = E.VObj(KEY, 'parent')
        r.hook('pgpy.types.ParentRef', 'parent', scn.const(parent))
        r.hook('pgpy.types.ParentRef', '_parent', scn.const(parent))
        sigs = [E.VObj(SIG, 's%d' % i) for i in range(n)]
        r.set('uid', '_signatures', ex.new_list(st, sigs))
        FP = z3.Int('parent_fingerprint')
        has_fp = {s.ref: z3.Bool('has_issuer_fingerprint_' + s.ref) for s in sigs}
        has_id = {s.ref: z3.Bool('has_issuer_keyid_' + s.ref) for s in sigs}
        by_fp = {s.ref: z3.Int('issuer_fingerprint_' + s.ref) for s in sigs}
        by_id = {s.ref: z3.Int('issuer_keyid_' + s.ref) for s in sigs}
        for s_ in sigs:
            st.pc += [by_fp[s_.ref] != 0, by_id[s_.ref] != 0, FP != 0]
        # abstract identities: 0 stands for the empty string; Fingerprint.__eq__ matches a full fingerprint or its key id
        r.hook(KEY, 'fingerprint', scn.const(E.VInt(FP, enum='pgpy.types.Fingerprint')))
        r.hook('pgpy.types.Fingerprint', '__eq__', scn.method_hook(lambda ex, st, o, a: [(st, E.VBool(o.z == ex.as_int(a[0])))]))
        r.hook(SIG, 'signer_fingerprint', lambda ex, st, o, a: [(st, E.VInt(z3.If(has_fp[o.ref], by_fp[o.ref], 0)))])
        r.hook(SIG, 'signer', lambda ex, st, o, a: [(st, E.VInt(z3.If(has_id[o.ref], by_id[o.ref], 0)))])

        def selfissued(ref):
            return z3.If(has_fp[ref], by_fp[ref] == FP, z3.And(has_id[ref], by_id[ref] == FP))
        for pi, (s, v) in enumerate(r.call(me, [])):
            if isinstance(v, E.Raise):
                r.oblige(s, 'safety(%s)/p%d' % (v.exc.split(':')[0], pi), z3.BoolVal(False), v.where)
                continue
            if isinstance(v, E.VNone):
                r.oblige(s, 'none-only-if-no-self-issued-signature/p%d' % pi, z3.Not(z3.Or(*[selfissued(x.ref) for x in sigs])) if sigs else z3.BoolVal(True))
                continue
            ok = isinstance(v, E.VObj) and v.ref in has_fp
            r.oblige(s, 'is-one-of-its-signatures/p%d' % pi, z3.BoolVal(ok))
            if ok:
                i = [x.ref for x in sigs].index(v.ref)
                r.oblige(s, 'is-self-issued/p%d' % pi, selfissued(v.ref))
                r.oblige(s, 'most-recent:no-later-self-issued-signature/p%d' % pi,
                         z3.Not(z3.Or(*[selfissued(x.ref) for x in sigs[i + 1:]])) if sigs[i + 1:] else z3.BoolVal(True))
        return r.result()
    return Scenario(label, UID + '.selfsig', gen, props=('C15', 'C16'))


def eq_with_int_hook_note():
    return None


def scenarios():
    return [selfsig(n) for n in (0, 1, 2, 3)]
