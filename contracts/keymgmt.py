"""C15: pointwise clauses of key management (which self-signature is the effective one)."""
import z3
from pyvc import scn, engine as E
from pyvc.runner import Scenario

UID = 'pgpy.pgp.PGPUID'
SIG = 'pgpy.pgp.PGPSignature'
KEY = 'pgpy.pgp.PGPKey'


def selfsig(n):
    """uid with n signatures in deque order (sorted by creation time, stable: C14); each is self-issued or not (symbolic),
    names its issuer by fingerprint or by key id (symbolic)"""
    label = 'C15/PGPUID.selfsig[%d signatures]' % n

    def gen(repo):
        r = scn.Run(repo, UID, 'selfsig', label)
        ex, st = r.ex, r.st
        me = E.VObj(UID, 'uid')
        parent = E.VObj(KEY, 'parent')
        r.hook('pgpy.types.ParentRef', 'parent', scn.const(parent))
        r.hook('pgpy.types.ParentRef', '_parent', scn.const(parent))
        sigs = [E.VObj(SIG, 's%d' % i) for i in range(n)]
        r.set('uid', '_signatures', ex.new_list(st, sigs))
        FP = z3.Int('parent_fingerprint')
        has_fp = {s.ref: z3.Bool('has_issuer_fingerprint_' + s.ref) for s in sigs}
        has_id = {s.ref: z3.Bool('has_issuer_keyid_' + s.ref) for s in sigs}
        by_fp = {s.ref: z3.Int('issuer_fingerprint_' + s.ref) for s in sigs}
        by_id = {s.ref: z3.Int('issuer_keyid_' + s.ref) for s in sigs}
        for s_ in sigs:
            st.pc += [by_fp[s_.ref] != 0, by_id[s_.ref] != 0, FP != 0]
        # abstract identities: 0 stands for the empty string; Fingerprint.__eq__ matches a full fingerprint or its key id
        r.hook(KEY, 'fingerprint', scn.const(E.VInt(FP, enum='pgpy.types.Fingerprint')))
        r.hook('pgpy.types.Fingerprint', '__eq__', scn.method_hook(lambda ex, st, o, a: [(st, E.VBool(o.z == ex.as_int(a[0])))]))
        r.hook(SIG, 'signer_fingerprint', lambda ex, st, o, a: [(st, E.VInt(z3.If(has_fp[o.ref], by_fp[o.ref], 0)))])
        r.hook(SIG, 'signer', lambda ex, st, o, a: [(st, E.VInt(z3.If(has_id[o.ref], by_id[o.ref], 0)))])

        def selfissued(ref):
            return z3.If(has_fp[ref], by_fp[ref] == FP, z3.And(has_id[ref], by_id[ref] == FP))
        for pi, (s, v) in enumerate(r.call(me, [])):
            if isinstance(v, E.Raise):
                r.oblige(s, 'safety(%s)/p%d' % (v.exc.split(':')[0], pi), z3.BoolVal(False), v.where)
                continue
            if isinstance(v, E.VNone):
                r.oblige(s, 'none-only-if-no-self-issued-signature/p%d' % pi, z3.Not(z3.Or(*[selfissued(x.ref) for x in sigs])) if sigs else z3.BoolVal(True))
                continue
            ok = isinstance(v, E.VObj) and v.ref in has_fp
            r.oblige(s, 'is-one-of-its-signatures/p%d' % pi, z3.BoolVal(ok))
            if ok:
                i = [x.ref for x in sigs].index(v.ref)
                r.oblige(s, 'is-self-issued/p%d' % pi, selfissued(v.ref))
                r.oblige(s, 'most-recent:no-later-self-issued-signature/p%d' % pi,
                         z3.Not(z3.Or(*[selfissued(x.ref) for x in sigs[i + 1:]])) if sigs[i + 1:] else z3.BoolVal(True))
        return r.result()
    return Scenario(label, UID + '.selfsig', gen, props=('C15', 'C16'))


def eq_with_int_hook_note():
    return None


def scenarios():
    return [selfsig(n) for n in (0, 1, 2, 3)]


def get_uid(n):
    """PGPKey.get_uid / del_uid over n identities: an identity is selected by a string EQUAL to its name, comment or e-mail address"""
    label = 'C15/PGPKey.get_uid+del_uid[%d identities]' % n

    def gen(repo):
        obls, funcs, paths = [], [], 0
        B = E.BYTES
        for fn in ('get_uid', 'del_uid'):
            r = scn.Run(repo, KEY, fn, label + '[%s]' % fn)
            ex, st = r.ex, r.st
            me = E.VObj(KEY, 'key')
            r.hook(KEY, 'is_primary', scn.const(E.VBool(True)))
            uids = [E.VObj(UID, 'u%d' % i) for i in range(n)]
            r.set('key', '_uids', ex.new_list(st, uids))
            SEARCH = z3.Const('SEARCH', B)
            attrs = {}
            for u in uids:
                for a in ('name', 'comment', 'email'):
                    attrs[(u.ref, a)] = (z3.Bool('%s_has_%s' % (u.ref, a)) if a != 'name' else z3.BoolVal(True), z3.Const('%s_%s' % (u.ref, a), B))

            def attr_hook(a):
                def h(ex, st, o, args):
                    has, val = attrs[(o.ref, a)]
                    if z3.is_true(has):
                        return [(st, E.VStr(z=val))]
                    no = st.clone()
                    st.pc.append(has)
                    no.pc.append(z3.Not(has))
                    return [(st, E.VStr(z=val)), (no, E.VNone())]
                return h
            for a in ('name', 'comment', 'email'):
                r.hook(UID, a, attr_hook(a))
            back = {}
            for u in uids:
                back[u.ref] = E.VExt('weakref.ref', (me,))
                r.set(u.ref, '__parent', back[u.ref])          # ParentRef keeps a weak reference in its private field

            def matches(ref):
                return z3.Or(*[z3.And(attrs[(ref, a)][0], attrs[(ref, a)][1] == SEARCH) for a in ('name', 'comment', 'email')])
            for pi, (s, v) in enumerate(r.call(me, [E.VStr(z=SEARCH)])):
                paths += 1
                if fn == 'get_uid':
                    if isinstance(v, E.Raise):
                        r.oblige(s, 'safety(%s)/p%d' % (v.exc.split(':')[0], pi), z3.BoolVal(False), v.where)
                    elif isinstance(v, E.VNone):
                        r.oblige(s, 'none-only-if-no-identity-carries-exactly-that-string/p%d' % pi, z3.Not(z3.Or(*[matches(u.ref) for u in uids])) if uids else z3.BoolVal(True))
                    else:
                        ok = isinstance(v, E.VObj) and v.ref in [u.ref for u in uids]
                        r.oblige(s, 'is-one-of-the-identities/p%d' % pi, z3.BoolVal(ok))
                        if ok:
                            i = [u.ref for u in uids].index(v.ref)
                            r.oblige(s, 'name,comment-or-address-equals-the-string/p%d' % pi, matches(v.ref))
                            r.oblige(s, 'first-such-identity/p%d' % pi, z3.Not(z3.Or(*[matches(u.ref) for u in uids[:i]])) if i else z3.BoolVal(True))
                else:
                    left = [x.ref for x in ex.items(s.heap.get(('key', '_uids')), s)] if isinstance(s.heap.get(('key', '_uids')), E.VList) else None
                    if isinstance(v, E.Raise):
                        r.oblige(s, 'KeyError-only-if-no-identity-carries-exactly-that-string,nothing-removed/p%d' % pi,
                                 z3.And(z3.BoolVal(v.exc.split(':')[0] == 'KeyError' and left == [u.ref for u in uids]),
                                        z3.Not(z3.Or(*[matches(u.ref) for u in uids])) if uids else z3.BoolVal(True)), v.where)
                        continue
                    gone = [u.ref for u in uids if u.ref not in (left or [])]
                    r.oblige(s, 'exactly-one-identity-removed,order-of-the-rest-kept/p%d' % pi,
                             z3.BoolVal(left is not None and len(gone) == 1 and left == [u.ref for u in uids if u.ref != gone[0]]))
                    if len(gone) == 1:
                        i = [u.ref for u in uids].index(gone[0])
                        r.oblige(s, 'the-removed-identity-carries-exactly-that-string-and-is-the-first-such/p%d' % pi,
                                 z3.And(matches(gone[0]), z3.Not(z3.Or(*[matches(u.ref) for u in uids[:i]])) if i else z3.BoolVal(True)))
                        r.oblige(s, 'removed-identity-detached-from-the-key,others-still-attached/p%d' % pi,
                                 z3.BoolVal(isinstance(s.heap.get((gone[0], '__parent')), E.VNone)
                                            and all(s.heap.get((u.ref, '__parent')) is back[u.ref] for u in uids if u.ref != gone[0])))
            res = r.result()
            obls += res['obligations']
            funcs += res['funcs']
        return {'obligations': obls, 'funcs': funcs, 'paths': paths}
    return Scenario(label, KEY + '.get_uid', gen, props=('C15', 'C16'))


_base_scn_g = scenarios


def scenarios():
    return _base_scn_g() + [get_uid(n) for n in (0, 1, 2)]


def own_signatures(prop_name, primary):
    """PGPKey.self_signatures / revocation_signatures: exactly the unexpired signatures of the right type issued by the right key, in order"""
    label = 'C15/PGPKey.%s[%s]' % (prop_name, 'primary' if primary else 'subkey')

    def gen(repo):
        r = scn.Run(repo, KEY, prop_name, label)
        ex, st = r.ex, r.st
        ST = repo.enum_members('pgpy.constants.SignatureType')
        want_type = {('self_signatures', True): 'DirectlyOnKey', ('self_signatures', False): 'Subkey_Binding',
                     ('revocation_signatures', True): 'KeyRevocation', ('revocation_signatures', False): 'SubkeyRevocation'}[(prop_name, primary)]
        me, parent = E.VObj(KEY, 'me'), E.VObj(KEY, 'parent')
        r.hook(KEY, 'is_primary', lambda ex, st, o, a: [(st, E.VBool(primary if o.ref == 'me' else True))])
        r.hook('pgpy.types.ParentRef', 'parent', lambda ex, st, o, a: [(st, E.VNone() if (o.ref != 'me' or primary) else parent)])
        MYID, PARENTID = z3.Const('OWN_KEY_ID', E.BYTES), z3.Const('PARENT_KEY_ID', E.BYTES)
        FP = 'pgpy.types.Fingerprint'
        r.hook(KEY, 'fingerprint', lambda ex, st, o, a: [(st, E.VObj(FP, 'fp-' + o.ref))])
        r.hook(FP, 'keyid', lambda ex, st, o, a: [(st, E.VStr(z=MYID if o.ref == 'fp-me' else PARENTID))])
        sigs = [E.VObj(SIG, 's%d' % i) for i in range(3)]
        r.set('me', '_signatures', ex.new_list(st, sigs))
        typ = {x.ref: z3.Int('type_' + x.ref) for x in sigs}
        signer = {x.ref: z3.Const('SIGNER_' + x.ref, E.BYTES) for x in sigs}
        expired = {x.ref: z3.Bool('expired_' + x.ref) for x in sigs}
        for x in sigs:
            st.pc.append(z3.Or(*[typ[x.ref] == v for v in sorted(set(ST.values()))]))
        r.hook(SIG, 'type', lambda ex, st, o, a: [(st, E.VInt(typ[o.ref], enum='pgpy.constants.SignatureType'))])
        r.hook(SIG, 'signer', lambda ex, st, o, a: [(st, E.VStr(z=signer[o.ref]))])
        r.hook(SIG, 'is_expired', lambda ex, st, o, a: [(st, E.VBool(expired[o.ref]))])
        issuer = MYID if primary else PARENTID

        def belongs(ref):
            return z3.And(typ[ref] == ST[want_type], signer[ref] == issuer, z3.Not(expired[ref]))
        for pi, (s, v) in enumerate(r.call(me, [])):
            if isinstance(v, E.Raise):
                r.oblige(s, 'safety(%s)/p%d' % (v.exc.split(':')[0], pi), z3.BoolVal(False), v.where)
                continue
            got = [x.ref for x in ex.items(v, s)] if isinstance(v, E.VList) else None
            r.oblige(s, 'yields-signatures-of-this-key-in-order/p%d' % pi, z3.BoolVal(got is not None and got == [x.ref for x in sigs if x.ref in got]))
            if got is None:
                continue
            for x in sigs:
                r.oblige(s, '%s:reported-iff-type-%s,issued-by-%s,not-expired/p%d' % (x.ref, want_type, 'this key' if primary else 'the primary key', pi),
                         z3.BoolVal(x.ref in got) == belongs(x.ref))
        return r.result()
    return Scenario(label, KEY + '.' + prop_name, gen, props=('C15', 'C17'))


_base_scn_o = scenarios


def scenarios():
    return _base_scn_o() + [own_signatures(p, prim) for p in ('self_signatures', 'revocation_signatures') for prim in (True, False)]


def add_uid(selfsign):
    """PGPKey.add_uid: the identity is attached to this key, self-certified first (positive certification with the caller's preferences)"""
    label = 'C15/PGPKey.add_uid[%s]' % ('self-signed' if selfsign else 'not self-signed')

    def gen(repo):
        r = scn.Run(repo, KEY, 'add_uid', label)
        ex, st = r.ex, r.st
        me, uid = E.VObj(KEY, 'key'), E.VObj(UID, 'uid')
        CERT = E.VObj(SIG, 'selfcert')
        refuse = z3.Bool('certification_is_refused')

        def certify(ex, st, o, a, kws):
            st.ghost['events'] = st.ghost.get('events', ()) + (('certify', a, dict(kws), st.heap.get(('uid', '__parent'))),)
            bad = st.clone()
            st.pc.append(z3.Not(refuse))
            bad.pc.append(refuse)
            return [(st, CERT), (bad, E.Raise('PGPError', 0))]
        certify.wants_kws = True
        r.hook(KEY, 'certify', scn.method_hook(certify))

        def ior(name):
            def h(ex, st, o, a):
                st.ghost['events'] = st.ghost.get('events', ()) + ((name, o.ref, a[0]),)
                return [(st, o)]
            return h
        r.hook(UID, '__or__', scn.method_hook(ior('uid|=')))
        r.hook(KEY, '__or__', scn.method_hook(ior('key|=')))
        PREF = E.VExt('preferences', ())
        ST = repo.enum_members('pgpy.constants.SignatureType')
        for pi, (s, v) in enumerate(r.call(me, [uid, E.VBool(selfsign)], {'hashes': PREF})):
            ev = s.ghost.get('events', ())
            if isinstance(v, E.Raise):
                r.oblige(s, 'fails-only-when-the-self-certification-is-refused,and-then-the-identity-is-not-on-the-key/p%d' % pi,
                         z3.And(z3.BoolVal(selfsign and v.exc.split(':')[0] == 'PGPError' and not any(e[0] == 'key|=' for e in ev)), refuse), v.where)
                continue
            kinds = [e[0] for e in ev]
            if selfsign:
                r.oblige(s, 'certified(positive,caller-preferences,already-linked-to-this-key),certificate-attached,then-the-identity-added/p%d' % pi,
                         z3.BoolVal(kinds == ['certify', 'uid|=', 'key|='] and ev[0][1][0] is uid and ev[0][2].get('hashes') is PREF
                                    and isinstance(ev[0][3], E.VExt) and ev[0][3].args[0] is me and ev[1][2] is CERT and ev[2][2] is uid))
                r.oblige(s, 'positive-certification/p%d' % pi, ex.as_int(ev[0][1][1]) == ST['Positive_Cert'] if kinds[:1] == ['certify'] else z3.BoolVal(False))
            else:
                r.oblige(s, 'added-without-a-certificate/p%d' % pi, z3.BoolVal(kinds == ['key|='] and ev[0][2] is uid))
        return r.result()
    return Scenario(label, KEY + '.add_uid', gen, props=('C15', 'C16'))


def add_subkey():
    """PGPKey.add_subkey: refusals, conversion to a subkey packet, binding, and no unbound subkey left behind when binding is refused (D32)"""
    label = 'C15/PGPKey.add_subkey'
    PRIM, SUBP = 'pgpy.packet.packets.PrivKeyV4', 'pgpy.packet.packets.PrivSubKeyV4'

    def gen(repo):
        r = scn.Run(repo, KEY, 'add_subkey', label)
        ex, st = r.ex, r.st
        me, new = E.VObj(KEY, 'key'), E.VObj(KEY, 'new')
        pub_me, pub_new, new_primary, new_has_children, refuse = z3.Bools('this_key_is_public new_key_is_public new_key_is_primary new_key_has_subkeys binding_is_refused')
        r.hook(KEY, 'is_public', lambda ex, st, o, a: [(st, E.VBool(pub_me if o.ref == 'key' else pub_new))])
        r.hook(KEY, 'is_primary', lambda ex, st, o, a: [(st, E.VBool(new_primary))])
        kids = E.VDict([])
        r.set('key', '_children', kids)
        r.set('new', '_children', E.VObj('abstract:children', 'new-children'))
        r.hook('abstract:children', '__len__', scn.method_hook(lambda ex, st, o, a: [(st, E.VInt(z3.If(new_has_children, 1, 0)))]))
        oldpkt = E.VObj(PRIM, 'oldpkt')
        r.set('new', '_key', oldpkt)
        ALG, CREATED, MATERIAL = E.VInt(22, enum='pgpy.constants.PubKeyAlgorithm'), E.VExt('datetime', ()), E.VObj('pgpy.packet.fields.EdDSAPriv', 'material')
        r.hook('pgpy.packet.fields.EdDSAPriv', '__call__', lambda ex, st, c, a: [(st, E.VObj('pgpy.packet.fields.EdDSAPriv', 'fresh-empty-material'))])
        r.hook('pgpy.packet.types.VersionedPacket', '__init__', scn.mconst(E.VNone()))
        r.hook('pgpy.packet.types.Packet', '__init__', scn.mconst(E.VNone()))
        # this key's own packet: another algorithm, another creation time, other material (nothing of it belongs in the new subkey packet)
        r.set('key', '_key', E.VObj(PRIM, 'mypkt'))
        MINE = {'pkalg': E.VInt(1, enum='pgpy.constants.PubKeyAlgorithm'), 'created': E.VExt('datetime', ('of-this-key',)),
                'keymaterial': E.VObj('pgpy.packet.fields.RSAPriv', 'my-material')}
        for f, val in (('pkalg', ALG), ('created', CREATED), ('keymaterial', MATERIAL)):
            r.hook(PRIM, f, (lambda f, val: lambda ex, st, o, a: [(st, val if o.ref == 'oldpkt' else MINE[f])])(f, val))
        r.hook(SUBP, '__call__', lambda ex, st, c, a: [(st, E.VObj(SUBP, 'subpkt'))])
        for f in ('pkalg', 'created', 'keymaterial'):
            pass
        r.hook(SUBP, 'update_hlen', scn.mconst(E.VNone()))
        KEYID = E.VStr(z=z3.Const('NEW_KEY_ID', E.BYTES))
        r.hook(KEY, 'fingerprint', lambda ex, st, o, a: [(st, E.VObj('pgpy.types.Fingerprint', 'fp-' + o.ref))])
        r.hook('pgpy.types.Fingerprint', 'keyid', scn.const(KEYID))
        BSIG = E.VObj(SIG, 'binding')

        def bind(ex, st, o, a, kws):
            ch = st.heap.get(('key', '_children'))
            st.ghost['at_bind'] = ([k for k, _ in ch.of(st)] if isinstance(ch, E.VDict) else None, st.heap.get(('new', '__parent')), a, dict(kws))
            bad = st.clone()
            st.pc.append(z3.Not(refuse))
            bad.pc.append(refuse)
            return [(st, BSIG), (bad, E.Raise('PGPError', 0))]
        bind.wants_kws = True
        r.hook(KEY, 'bind', scn.method_hook(bind))

        def ior(ex, st, o, a):
            st.ghost['attached'] = st.ghost.get('attached', ()) + ((o.ref, a[0]),)
            return [(st, o)]
        r.hook(KEY, '__or__', scn.method_hook(ior))
        USAGE = E.VExt('usage-flags', ())
        for pi, (s, v) in enumerate(r.call(me, [new], {'usage': USAGE})):
            ch = s.heap.get(('key', '_children'))
            keys_now = [k for k, _ in ch.of(s)] if isinstance(ch, E.VDict) else None
            par = s.heap.get(('new', '__parent'))
            if isinstance(v, E.Raise):
                r.oblige(s, 'refused(PGPError)-only-for:public-key,public-new-key,new-key-with-subkeys,or-a-refused-binding/p%d' % pi,
                         z3.And(z3.BoolVal(v.exc.split(':')[0] == 'PGPError'), z3.Or(pub_me, pub_new, z3.And(new_primary, new_has_children), refuse)), v.where)
                r.oblige(s, 'after-a-refusal-the-new-key-is-neither-listed-as-a-subkey-nor-linked-to-this-key/p%d' % pi,
                         z3.BoolVal(keys_now == [] and (par is None or isinstance(par, E.VNone)) and not s.ghost.get('attached')))
                continue
            r.oblige(s, 'accepted=>private-key,private-new-key-without-subkeys-of-its-own,binding-made/p%d' % pi,
                     z3.And(z3.Not(pub_me), z3.Not(pub_new), z3.Not(z3.And(new_primary, new_has_children)), z3.Not(refuse)))
            r.oblige(s, 'listed-under-its-key-id-with-this-key-as-parent/p%d' % pi,
                     z3.BoolVal(keys_now is not None and len(keys_now) == 1 and keys_now[0] is KEYID and isinstance(par, E.VExt) and par.args[0] is me))
            ab = s.ghost.get('at_bind')
            r.oblige(s, 'bound-after-being-listed-and-linked,with-the-caller-options/p%d' % pi,
                     z3.BoolVal(ab is not None and ab[0] is not None and len(ab[0]) == 1 and isinstance(ab[1], E.VExt) and ab[2][0] is new and ab[3].get('usage') is USAGE))
            att = s.ghost.get('attached', ())
            r.oblige(s, 'the-binding-signature-is-attached-to-the-new-subkey/p%d' % pi, z3.BoolVal(len(att) == 1 and att[0][0] == 'new' and att[0][1] is BSIG))
            pk = s.heap.get(('new', '_key'))
            r.oblige(s, 'a-primary-key-packet-is-converted-to-a-subkey-packet-with-the-same-algorithm,time-and-material/p%d' % pi,
                     z3.If(new_primary,
                           z3.BoolVal(isinstance(pk, E.VObj) and pk.ref == 'subpkt' and isinstance(s.heap.get(('subpkt', '_pkalg')), E.VInt)
                                      and s.heap[('subpkt', '_pkalg')].conc() == 22 and s.heap.get(('subpkt', '_created')) is CREATED
                                      and s.heap.get(('subpkt', 'keymaterial')) is MATERIAL),
                           z3.BoolVal(pk is oldpkt)))
        return r.result()
    return Scenario(label, KEY + '.add_subkey', gen, props=('C15', 'C16', 'C18'))


_base_scn_au = scenarios


def scenarios():
    return _base_scn_au() + [add_uid(True), add_uid(False), add_subkey()]
