"""C15: pointwise clauses of key management (which self-signature is the effective one)."""
import z3
from pyvc import scn, engine as E
from pyvc.runner import Scenario

UID = 'pgpy.pgp.PGPUID'
SIG = 'pgpy.pgp.PGPSignature'
KEY = 'pgpy.pgp.PGPKey'


def selfsig(n):
    """uid with n signatures in deque order (sorted by creation time, stable: C14); each is self-issued or not (symbolic),
    names its issuer by fingerprint or by key id (symbolic)"""
    label = 'C15/PGPUID.selfsig[%d signatures]' % n

    def gen(repo):
        r = scn.Run(repo, UID, 'selfsig', label)
        ex, st = r.ex, r.st
        me = E.VObj(UID, 'uid')
        parent = E.VObj(KEY, 'parent')
        r.hook('pgpy.types.ParentRef', 'parent', scn.const(parent))
        r.hook('pgpy.types.ParentRef', '_parent', scn.const(parent))
        sigs = [E.VObj(SIG, 's%d' % i) for i in range(n)]
        r.set('uid', '_signatures', ex.new_list(st, sigs))
        FP = z3.Int('parent_fingerprint')
        has_fp = {s.ref: z3.Bool('has_issuer_fingerprint_' + s.ref) for s in sigs}
        has_id = {s.ref: z3.Bool('has_issuer_keyid_' + s.ref) for s in sigs}
        by_fp = {s.ref: z3.Int('issuer_fingerprint_' + s.ref) for s in sigs}
        by_id = {s.ref: z3.Int('issuer_keyid_' + s.ref) for s in sigs}
        for s_ in sigs:
            st.pc += [by_fp[s_.ref] != 0, by_id[s_.ref] != 0, FP != 0]
        # abstract identities: 0 stands for the empty string; Fingerprint.__eq__ matches a full fingerprint or its key id
        r.hook(KEY, 'fingerprint', scn.const(E.VInt(FP, enum='pgpy.types.Fingerprint')))
        r.hook('pgpy.types.Fingerprint', '__eq__', scn.method_hook(lambda ex, st, o, a: [(st, E.VBool(o.z == ex.as_int(a[0])))]))
        r.hook(SIG, 'signer_fingerprint', lambda ex, st, o, a: [(st, E.VInt(z3.If(has_fp[o.ref], by_fp[o.ref], 0)))])
        r.hook(SIG, 'signer', lambda ex, st, o, a: [(st, E.VInt(z3.If(has_id[o.ref], by_id[o.ref], 0)))])

        def selfissued(ref):
            return z3.If(has_fp[ref], by_fp[ref] == FP, z3.And(has_id[ref], by_id[ref] == FP))
        for pi, (s, v) in enumerate(r.call(me, [])):
            if isinstance(v, E.Raise):
                r.oblige(s, 'safety(%s)/p%d' % (v.exc.split(':')[0], pi), z3.BoolVal(False), v.where)
                continue
            if isinstance(v, E.VNone):
                r.oblige(s, 'none-only-if-no-self-issued-signature/p%d' % pi, z3.Not(z3.Or(*[selfissued(x.ref) for x in sigs])) if sigs else z3.BoolVal(True))
                continue
            ok = isinstance(v, E.VObj) and v.ref in has_fp
            r.oblige(s, 'is-one-of-its-signatures/p%d' % pi, z3.BoolVal(ok))
            if ok:
                i = [x.ref for x in sigs].index(v.ref)
                r.oblige(s, 'is-self-issued/p%d' % pi, selfissued(v.ref))
                r.oblige(s, 'most-recent:no-later-self-issued-signature/p%d' % pi,
                         z3.Not(z3.Or(*[selfissued(x.ref) for x in sigs[i + 1:]])) if sigs[i + 1:] else z3.BoolVal(True))
        return r.result()
    return Scenario(label, UID + '.selfsig', gen, props=('C15', 'C16'))


def eq_with_int_hook_note():
    return None


def scenarios():
    return [selfsig(n) for n in (0, 1, 2, 3)]


def get_uid(n):
    """PGPKey.get_uid / del_uid over n identities: an identity is selected by a string EQUAL to its name, comment or e-mail address"""
    label = 'C15/PGPKey.get_uid+del_uid[%d identities]' % n

    def gen(repo):
        obls, funcs, paths = [], [], 0
        B = E.BYTES
        for fn in ('get_uid', 'del_uid'):
            r = scn.Run(repo, KEY, fn, label + '[%s]' % fn)
            ex, st = r.ex, r.st
            me = E.VObj(KEY, 'key')
            r.hook(KEY, 'is_primary', scn.const(E.VBool(True)))
            uids = [E.VObj(UID, 'u%d' % i) for i in range(n)]
            r.set('key', '_uids', ex.new_list(st, uids))
            SEARCH = z3.Const('SEARCH', B)
            attrs = {}
            for u in uids:
                for a in ('name', 'comment', 'email'):
                    attrs[(u.ref, a)] = (z3.Bool('%s_has_%s' % (u.ref, a)) if a != 'name' else z3.BoolVal(True), z3.Const('%s_%s' % (u.ref, a), B))

            def attr_hook(a):
                def h(ex, st, o, args):
                    has, val = attrs[(o.ref, a)]
                    if z3.is_true(has):
                        return [(st, E.VStr(z=val))]
                    no = st.clone()
                    st.pc.append(has)
                    no.pc.append(z3.Not(has))
                    return [(st, E.VStr(z=val)), (no, E.VNone())]
                return h
            for a in ('name', 'comment', 'email'):
                r.hook(UID, a, attr_hook(a))
            back = {}
            for u in uids:
                back[u.ref] = E.VExt('weakref.ref', (me,))
                r.set(u.ref, '__parent', back[u.ref])          # ParentRef keeps a weak reference in its private field

            def matches(ref):
                return z3.Or(*[z3.And(attrs[(ref, a)][0], attrs[(ref, a)][1] == SEARCH) for a in ('name', 'comment', 'email')])
            for pi, (s, v) in enumerate(r.call(me, [E.VStr(z=SEARCH)])):
                paths += 1
                if fn == 'get_uid':
                    if isinstance(v, E.Raise):
                        r.oblige(s, 'safety(%s)/p%d' % (v.exc.split(':')[0], pi), z3.BoolVal(False), v.where)
                    elif isinstance(v, E.VNone):
                        r.oblige(s, 'none-only-if-no-identity-carries-exactly-that-string/p%d' % pi, z3.Not(z3.Or(*[matches(u.ref) for u in uids])) if uids else z3.BoolVal(True))
                    else:
                        ok = isinstance(v, E.VObj) and v.ref in [u.ref for u in uids]
                        r.oblige(s, 'is-one-of-the-identities/p%d' % pi, z3.BoolVal(ok))
                        if ok:
                            i = [u.ref for u in uids].index(v.ref)
                            r.oblige(s, 'name,comment-or-address-equals-the-string/p%d' % pi, matches(v.ref))
                            r.oblige(s, 'first-such-identity/p%d' % pi, z3.Not(z3.Or(*[matches(u.ref) for u in uids[:i]])) if i else z3.BoolVal(True))
                else:
                    left = [x.ref for x in ex.items(s.heap.get(('key', '_uids')), s)] if isinstance(s.heap.get(('key', '_uids')), E.VList) else None
                    if isinstance(v, E.Raise):
                        r.oblige(s, 'KeyError-only-if-no-identity-carries-exactly-that-string,nothing-removed/p%d' % pi,
                                 z3.And(z3.BoolVal(v.exc.split(':')[0] == 'KeyError' and left == [u.ref for u in uids]),
                                        z3.Not(z3.Or(*[matches(u.ref) for u in uids])) if uids else z3.BoolVal(True)), v.where)
                        continue
                    gone = [u.ref for u in uids if u.ref not in (left or [])]
                    r.oblige(s, 'exactly-one-identity-removed,order-of-the-rest-kept/p%d' % pi,
                             z3.BoolVal(left is not None and len(gone) == 1 and left == [u.ref for u in uids if u.ref != gone[0]]))
                    if len(gone) == 1:
                        i = [u.ref for u in uids].index(gone[0])
                        r.oblige(s, 'the-removed-identity-carries-exactly-that-string-and-is-the-first-such/p%d' % pi,
                                 z3.And(matches(gone[0]), z3.Not(z3.Or(*[matches(u.ref) for u in uids[:i]])) if i else z3.BoolVal(True)))
                        r.oblige(s, 'removed-identity-detached-from-the-key,others-still-attached/p%d' % pi,
                                 z3.BoolVal(isinstance(s.heap.get((gone[0], '__parent')), E.VNone)
                                            and all(s.heap.get((u.ref, '__parent')) is back[u.ref] for u in uids if u.ref != gone[0])))
            res = r.result()
            obls += res['obligations']
            funcs += res['funcs']
        return {'obligations': obls, 'funcs': funcs, 'paths': paths}
    return Scenario(label, KEY + '.get_uid', gen, props=('C15', 'C16'))


_base_scn_g = scenarios


def scenarios():
    return _base_scn_g() + [get_uid(n) for n in (0, 1, 2)]


def own_signatures(prop_name, primary):
    """PGPKey.self_signatures / revocation_signatures: exactly the unexpired signatures of the right type issued by the right key, in order"""
    label = 'C15/PGPKey.%s[%s]' % (prop_name, 'primary' if primary else 'subkey')

    def gen(repo):
        r = scn.Run(repo, KEY, prop_name, label)
        ex, st = r.ex, r.st
        ST = repo.enum_members('pgpy.constants.SignatureType')
        want_type = {('self_signatures', True): 'DirectlyOnKey', ('self_signatures', False): 'Subkey_Binding',
                     ('revocation_signatures', True): 'KeyRevocation', ('revocation_signatures', False): 'SubkeyRevocation'}[(prop_name, primary)]
        me, parent = E.VObj(KEY, 'me'), E.VObj(KEY, 'parent')
        r.hook(KEY, 'is_primary', lambda ex, st, o, a: [(st, E.VBool(primary if o.ref == 'me' else True))])
        r.hook('pgpy.types.ParentRef', 'parent', lambda ex, st, o, a: [(st, E.VNone() if (o.ref != 'me' or primary) else parent)])
        MYID, PARENTID = z3.Const('OWN_KEY_ID', E.BYTES), z3.Const('PARENT_KEY_ID', E.BYTES)
        FP = 'pgpy.types.Fingerprint'
        r.hook(KEY, 'fingerprint', lambda ex, st, o, a: [(st, E.VObj(FP, 'fp-' + o.ref))])
        r.hook(FP, 'keyid', lambda ex, st, o, a: [(st, E.VStr(z=MYID if o.ref == 'fp-me' else PARENTID))])
        sigs = [E.VObj(SIG, 's%d' % i) for i in range(3)]
        r.set('me', '_signatures', ex.new_list(st, sigs))
        typ = {x.ref: z3.Int('type_' + x.ref) for x in sigs}
        signer = {x.ref: z3.Const('SIGNER_' + x.ref, E.BYTES) for x in sigs}
        expired = {x.ref: z3.Bool('expired_' + x.ref) for x in sigs}
        for x in sigs:
            st.pc.append(z3.Or(*[typ[x.ref] == v for v in sorted(set(ST.values()))]))
        r.hook(SIG, 'type', lambda ex, st, o, a: [(st, E.VInt(typ[o.ref], enum='pgpy.constants.SignatureType'))])
        r.hook(SIG, 'signer', lambda ex, st, o, a: [(st, E.VStr(z=signer[o.ref]))])
        r.hook(SIG, 'is_expired', lambda ex, st, o, a: [(st, E.VBool(expired[o.ref]))])
        issuer = MYID if primary else PARENTID

        def belongs(ref):
            return z3.And(typ[ref] == ST[want_type], signer[ref] == issuer, z3.Not(expired[ref]))
        for pi, (s, v) in enumerate(r.call(me, [])):
            if isinstance(v, E.Raise):
                r.oblige(s, 'safety(%s)/p%d' % (v.exc.split(':')[0], pi), z3.BoolVal(False), v.where)
                continue
            got = [x.ref for x in ex.items(v, s)] if isinstance(v, E.VList) else None
            r.oblige(s, 'yields-signatures-of-this-key-in-order/p%d' % pi, z3.BoolVal(got is not None and got == [x.ref for x in sigs if x.ref in got]))
            if got is None:
                continue
            for x in sigs:
                r.oblige(s, '%s:reported-iff-type-%s,issued-by-%s,not-expired/p%d' % (x.ref, want_type, 'this key' if primary else 'the primary key', pi),
                         z3.BoolVal(x.ref in got) == belongs(x.ref))
        return r.result()
    return Scenario(label, KEY + '.' + prop_name, gen, props=('C15', 'C17'))


_base_scn_o = scenarios


def scenarios():
    return _base_scn_o() + [own_signatures(p, prim) for p in ('self_signatures', 'revocation_signatures') for prim in (True, False)]
