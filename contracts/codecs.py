"""Contracts on the primitive wire codecs (C09; reused by C08/C18)."""
from pyvc.dsl import Contract, Int, Bool, Const, Choice, Bytes, Obj

U32 = 2 ** 32 - 1

encode_length_new = Contract(
    'C09/Header.encode_length[new]', 'pgpy.types.Header.encode_length',
    params={'length': Int(0, U32), 'nhf': Const(True), 'llen': Choice(0, 1, 2, 4)},
    ensures=[('rfc4880-4.2.2', 'result == lengths.new_length(length)'),
             ('shortest', 'len(result) == lengths.new_length_size(length)'),
             ('decodes-back', 'lengths.decode_new_value(result) == length and lengths.decode_new_size(result) == len(result)')],
    props=('C09', 'C08'))

encode_length_old = Contract(
    'C09/Header.encode_length[old]', 'pgpy.types.Header.encode_length',
    params={'length': Int(0, U32), 'nhf': Const(False), 'llen': Choice(0, 1, 2, 4)},
    requires='llen == 0 or length < 256 ** llen',
    ensures=[('be', 'result == (be(length, llen) if llen > 0 else b"")')],
    props=('C09', 'C08'))

CONTRACTS = [encode_length_new, encode_length_old]

# ---------------------------------------------------------------------------------------------------
# Header.length setter on octets (consumes its input in place)
PKT_HDR = 'pgpy.packet.types.Header'


def hdr(lenfmt, llen=Const(1), length=Const(1), **extra):
    f = {'_lenfmt': lenfmt, '_llen': llen, '_len': length, '_partial': Const(False)}
    f.update(extra)
    return Obj(PKT_HDR, f)


length_bin_new = Contract(
    'C09/Header.length_bin[new,non-partial]', 'pgpy.types.Header.length_bin',
    params={'self': hdr(Const(1)), 'val': Bytes(1, None, kind='bytearray')},
    requires='not lengths.is_partial(val[0]) and len(val) >= lengths.decode_new_size(val)',
    ensures=[('value', 'self._len == lengths.decode_new_value(old_val)'),
             ('consumed', 'val == old_val[lengths.decode_new_size(old_val):]')],
    props=('C09', 'C08'))

length_bin_old = Contract(
    'C09/Header.length_bin[old]', 'pgpy.types.Header.length_bin',
    params={'self': hdr(Const(0), llen=Choice(1, 2, 4)), 'val': Bytes(0, None, kind='bytearray')},
    requires='len(val) >= self._llen',
    ensures=[('value', 'self._len == b2i(old_val[:self._llen])'),
             ('consumed', 'val == old_val[self._llen:]')],
    props=('C09', 'C08'))

llen_new = Contract(
    'C09/Header.llen[new]', 'pgpy.types.Header.llen',
    params={'self': hdr(Const(1), llen=Choice(0, 1, 2, 4), length=Int(0, U32))},
    ensures=[('size', 'result == lengths.new_length_size(self._len)')],
    props=('C09', 'C08'))

llen_old = Contract(
    'C09/Header.llen[old]', 'pgpy.types.Header.llen',
    params={'self': hdr(Const(0), llen=Choice(0, 1, 2, 4), length=Int(0, U32))},
    ensures=[('never-narrower-than-the-value-needs', 'result == lengths.old_width(self._llen, self._len)')],
    props=('C09', 'C08'))

pkt_header_bytes = Contract(
    'C09/packet.Header.__bytearray__', 'pgpy.packet.types.Header.__bytearray__',
    params={'self': hdr(Choice(0, 1), llen=Choice(0, 1, 2, 4), length=Int(0, U32), _tag=Int(0, 63))},
    requires='self._lenfmt == 1 or self._tag < 16',
    ensures=[('rfc4880-4.2', 'result == lengths.packet_header(self._lenfmt, self._tag, self._len, self._llen)')],
    props=('C09', 'C08'))

pkt_header_len = Contract(
    'C09/packet.Header.__len__', 'pgpy.packet.types.Header.__len__',
    params={'self': hdr(Choice(0, 1), llen=Choice(0, 1, 2, 4), length=Int(0, U32), _tag=Int(0, 63))},
    requires='self._lenfmt == 1 or self._tag < 16',
    ensures=[('len', 'result == len(lengths.packet_header(self._lenfmt, self._tag, self._len, self._llen))')],
    props=('C09', 'C08'))

pkt_header_parse = Contract(
    'C09/packet.Header.parse[non-partial]', 'pgpy.packet.types.Header.parse',
    params={'self': hdr(Const(1), _tag=Const(0)), 'packet': Bytes(1, None, kind='bytearray', first=(128, 255))},
    requires='lengths.header_complete(packet) and not lengths.header_partial(packet)',
    ensures=[('format', 'self._lenfmt == ((old_packet[0] >> 6) & 1)'),
             ('tag', 'self._tag == lengths.header_tag(old_packet[0])'),
             ('length', 'self._len == lengths.header_body_length(old_packet)'),
             ('consumed', 'packet == old_packet[lengths.header_size(old_packet):]')],
    props=('C09', 'C08'))

CONTRACTS += [length_bin_new, length_bin_old, llen_new, llen_old, pkt_header_bytes, pkt_header_len, pkt_header_parse]

# ---------------------------------------------------------------------------------------------------
# signature subpacket header (5.2.3.1): no partial lengths exist for subpackets
SUB_HDR = 'pgpy.packet.subpackets.types.Header'


def subhdr(**f):
    base = {'_lenfmt': Const(1), '_llen': Const(1), '_len': Const(1), '_partial': Const(False), '_typeid': Const(-1), '_critical': Const(False)}
    base.update(f)
    return Obj(SUB_HDR, base)


sub_header_parse = Contract(
    'C09/subpackets.Header.parse', 'pgpy.packet.subpackets.types.Header.parse',
    params={'self': subhdr(), 'packet': Bytes(2, None, kind='bytearray')},
    requires='len(packet) >= lengths.sub_decode_size(packet) + 1',
    ensures=[('length-5.2.3.1', 'self._len == lengths.sub_decode_value(old_packet)'),
             ('type', 'self._typeid == old_packet[lengths.sub_decode_size(old_packet)] % 128'),
             ('critical', 'self._critical == (old_packet[lengths.sub_decode_size(old_packet)] >= 128)'),
             ('consumed', 'packet == old_packet[lengths.sub_decode_size(old_packet) + 1:]')],
    props=('C09', 'C08', 'C05'))

sub_header_bytes = Contract(
    'C09/subpackets.Header.__bytearray__', 'pgpy.packet.subpackets.types.Header.__bytearray__',
    params={'self': subhdr(_len=Int(0, U32), _typeid=Int(0, 127), _critical=Bool())},
    ensures=[('length-decodes-back', 'lengths.sub_decode_value(result) == self._len'),
             ('size', 'len(result) == lengths.sub_decode_size(result) + 1'),
             ('type-octet', 'result[len(result) - 1] == (128 if self._critical else 0) + self._typeid')],
    props=('C09', 'C08'))

sub_header_len = Contract(
    'C09/subpackets.Header.__len__', 'pgpy.packet.subpackets.types.Header.__len__',
    params={'self': subhdr(_len=Int(0, U32), _typeid=Int(0, 127), _critical=Bool())},
    ensures=[('len', 'result == lengths.new_length_size(self._len) + 1')],
    props=('C09', 'C08'))

# ---------------------------------------------------------------------------------------------------
# multiprecision integers (3.2)
MPI = 'pgpy.packet.types.MPI'
mpi_encode = Contract(
    'C09/MPI.to_mpibytes', 'pgpy.packet.types.MPI.to_mpibytes',
    params={'self': Obj(MPI, {}, intvalue=Int(0, None))},
    requires='bitlen(self) < 65536',
    ensures=[('rfc4880-3.2', 'result == mpi.mpi_encode(self)')],
    props=('C09', 'C08', 'C18'))

mpi_len = Contract(
    'C09/MPI.__len__', 'pgpy.packet.types.MPI.__len__',
    params={'self': Obj(MPI, {}, intvalue=Int(0, None))},
    requires='bitlen(self) < 65536',
    ensures=[('len', 'result == mpi.mpi_size(self)')],
    props=('C09', 'C08', 'C18'))

mpi_decode = Contract(
    'C09/MPI.__new__[octets]', 'pgpy.packet.types.MPI.__new__',
    params={'cls': Const(None), 'num': Bytes(2, None, kind='bytearray')},
    requires='len(num) >= 2 + mpi.mpi_body_len(num)',
    ensures=[('value', 'result == b2i(old_num[2:2 + mpi.mpi_body_len(old_num)])'),
             ('consumed', 'num == old_num[2 + mpi.mpi_body_len(old_num):]')],
    native_call=lambda nat: __import__('pgpy').packet.types.MPI(nat['num']),
    props=('C09', 'C08'))

# ---------------------------------------------------------------------------------------------------
# S2K iteration count (3.7.1.3)
S2K = 'pgpy.packet.fields.String2Key'
s2k_count = Contract(
    'C09/String2Key.count', 'pgpy.packet.fields.String2Key.count',
    params={'self': Obj(S2K, {'_count': Int(0, 255)})},
    ensures=[('rfc4880-3.7.1.3', 'result == s2k.decode_count(self._count)')],
    props=('C09', 'C12'))

s2k_count_set = Contract(
    'C09/String2Key.count_int', 'pgpy.packet.fields.String2Key.count_int',
    params={'self': Obj(S2K, {'_count': Const(0)}), 'val': Int(-1000, 1000)},
    ensures=[('stored', 'self._count == val')],
    raises={'ValueError': 'val < 0 or val > 255'},
    props=('C09', 'C12'))

CONTRACTS += [sub_header_parse, sub_header_bytes, sub_header_len, mpi_encode, mpi_len, mpi_decode, s2k_count, s2k_count_set]


# ---------------------------------------------------------------------------------------------------
# partial body lengths (4.2.2.4): the chunk loop of Header.length_bin is PROVED in contracts/partial.py (two-state inductive loop
# contract). This native component stays as the bounded complement: it compares whole chains with the recursive spec partial_chain
# (the induction over the iterations is a meta-argument there) and gives replayable inputs.
def partial_lengths_bounded(tier='quick', seed=0, known=()):
    import itertools, random
    from pgpy.packet.types import Header
    from specs import lengths as L
    rng = random.Random(seed)
    cases, viol, samples, distinct = 0, [], [], set()
    exps = range(0, 9) if tier == 'quick' else range(0, 13)          # chunk sizes 1 .. 256 (4096 thorough)
    finals = [0, 1, 191, 192, 193, 8383, 8384, 8385, 70000] if tier != 'quick' else [0, 1, 191, 192, 500, 8384]
    chains = [()]
    for k in (1, 2, 3):
        chains += list(itertools.product(exps, repeat=k)) if k < 3 or tier != 'quick' else [tuple(rng.choice(list(exps)) for _ in range(3)) for _ in range(300)]
    for chain in chains:
        for fin in finals:
            if sum(1 << e for e in chain) + fin > (1 << 17):
                continue
            body = bytes(rng.randrange(256) for _ in range(sum(1 << e for e in chain) + fin))
            enc, pos = bytearray(), 0
            for e in chain:
                enc.append(224 + e)
                enc += body[pos:pos + (1 << e)]
                pos += 1 << e
            enc += L.new_length(fin) + body[pos:]
            tail = b'\xAA\xBB\xCC'
            buf = bytearray(enc + tail)
            h = Header()
            h._lenfmt = 1
            cases += 1
            distinct.add((chain, fin))
            try:
                h.length = buf
                ok = h._len == len(body) and bytes(buf) == body + tail
                why = None if ok else 'length %r (want %d) or remaining octets differ' % (h._len, len(body))
            except Exception as ex:
                ok, why = False, 'exception %r' % (ex,)
            if len(samples) < 4 and chain:
                samples.append({'chunk_exponents': list(chain), 'final_length': fin, 'decoded': h._len})
            if not ok and len(viol) < 5:
                viol.append({'case': {'chunk_exponents': list(chain), 'final_length': fin, 'encoded_prefix': bytes(enc[:24]).hex()}, 'what': why})
    return {'name': 'C09/partial-body-lengths', 'bound': 'chains of 0..3 partial chunks with every exponent in %s x final lengths %s (bodies up to 2^17 octets), random content, three trailing octets' % (list(exps), finals),
            'cases': cases, 'distinct_nontrivial': len([d for d in distinct if d[0]]), 'rule': 'one case per (chunk exponent tuple, final length); non-trivial = at least one partial chunk',
            'exhaustive': tier != 'quick', 'samples': samples, 'violations': viol, 'known_hits': []}


def timestamps_bounded(tier='quick', seed=0, known=()):
    """four-octet timestamps (key creation, literal time, signature creation / expiration subpackets): the instant's epoch, whatever tzinfo"""
    import random, calendar
    from datetime import datetime, timezone, timedelta
    import pgpy
    from pgpy.packet.packets import PubKeyV4, LiteralData
    from pgpy.packet.subpackets.signature import CreationTime
    rng = random.Random(seed)
    epochs = [0, 1, 2 ** 31 - 1, 2 ** 31, 2 ** 32 - 1, 86399, 86400, 1700000000] + [rng.randrange(2 ** 32) for _ in range(40 if tier == 'quick' else 400)]
    offsets = [0, 330, -720, 840, 60]
    cases, viol, samples = 0, [], []
    for ep in epochs:
        for off in offsets:
            tz = timezone(timedelta(minutes=off))
            d = datetime.fromtimestamp(ep, timezone.utc).astimezone(tz)
            want = ep.to_bytes(4, 'big')
            for name, mk in (('PubKeyV4.created', lambda: _pk(d)), ('LiteralData.mtime', lambda: _lit(d)), ('CreationTime', lambda: _ct(d))):
                cases += 1
                try:
                    got, back = mk()
                    ok = got == want and back == ep
                    why = None if ok else '%s: octets %s, want %s; decoded %r' % (name, got.hex(), want.hex(), back)
                except Exception as ex:
                    ok, why = False, '%s: exception %r' % (name, ex)
                if not ok and len(viol) < 5:
                    viol.append({'case': {'epoch': ep, 'utc_offset_minutes': off, 'field': name}, 'what': why})
        if len(samples) < 3:
            samples.append({'epoch': ep, 'octets': ep.to_bytes(4, 'big').hex()})
    # the same fields in processes whose LOCAL time zone is not UTC, with aware datetimes and with naive ones (which PGPy reads as UTC, as
    # its own tests do): the octets are those of the instant and do not depend on the zone of the machine
    import multiprocessing
    zones = ['Asia/Kolkata', 'America/New_York', 'Pacific/Kiritimati'] if tier == 'quick' else ['Asia/Kolkata', 'America/New_York', 'Pacific/Kiritimati', 'Europe/Berlin', 'Pacific/Pago_Pago']
    ctx = multiprocessing.get_context('fork')
    with ctx.Pool(len(zones)) as pool:
        for zname, n, zviol in pool.map(_timestamps_in_zone, [(z, epochs[:8] + epochs[8:20]) for z in zones], chunksize=1):
            cases += n
            viol += zviol[:max(0, 5 - len(viol))]
    return {'name': 'C09/four-octet-timestamps', 'bound': '%d epochs (boundaries + seeded) x UTC offsets %s x 3 fields; 20 of the epochs again, aware and naive, in processes whose '
            'local zone is %s' % (len(epochs), offsets, ', '.join(zones)), 'cases': cases,
            'distinct_nontrivial': len(set(epochs)) * (len(offsets) - 1), 'rule': 'one case per (epoch, offset, field); non-trivial = non-UTC offset', 'exhaustive': False,
            'samples': samples, 'violations': viol, 'known_hits': []}


def _timestamps_in_zone(arg):
    zname, epochs = arg
    import os, time
    from datetime import datetime, timezone, timedelta
    os.environ['TZ'] = zname
    time.tzset()
    n, viol = 0, []
    for ep in epochs:
        aware = datetime.fromtimestamp(ep, timezone.utc)
        naive = aware.replace(tzinfo=None)              # the UTC reading without a zone, as datetime.utcnow() / a literal datetime(...) gives
        want = ep.to_bytes(4, 'big')
        for kind, d in (('aware', aware), ('aware, other offset', aware.astimezone(timezone(timedelta(hours=9)))), ('naive (UTC reading)', naive)):
            for name, mk in (('PubKeyV4.created', lambda: _pk(d)), ('LiteralData.mtime', lambda: _lit(d)), ('CreationTime', lambda: _ct(d))):
                n += 1
                try:
                    got, back = mk()
                    why = None if (got == want and back == ep) else '%s: octets %s, want %s; decoded %r' % (name, got.hex(), want.hex(), back)
                except Exception as ex:
                    why = '%s: exception %r' % (name, ex)
                if why and len(viol) < 3:
                    viol.append({'case': {'epoch': ep, 'datetime': kind, 'local_zone_of_the_process': zname, 'field': name}, 'what': why + ' [process zone %s, %s datetime]' % (zname, kind)})
    return zname, n, viol


def _pk(d):
    import calendar
    from pgpy.packet.packets import PubKeyV4
    from pgpy.constants import PubKeyAlgorithm
    pk = PubKeyV4()
    pk.pkalg = PubKeyAlgorithm.RSAEncryptOrSign
    pk.created = d
    pk.update_hlen()
    b = bytes(pk.__bytearray__())
    body = b[len(pk.header.__bytearray__()):]     # the versioned header already carries the version octet
    octets = body[0:4]
    pk2 = PubKeyV4()
    pk2.created = bytearray(octets)
    return octets, calendar.timegm(pk2.created.utctimetuple())


def _lit(d):
    import calendar
    from pgpy.packet.packets import LiteralData
    lit = LiteralData()
    lit.mtime = d
    lit.update_hlen()
    b = bytes(lit.__bytearray__())
    body = b[len(lit.header.__bytearray__()):]
    octets = body[2:6]
    l2 = LiteralData()
    l2.mtime = bytearray(octets)
    return octets, calendar.timegm(l2.mtime.utctimetuple())


def _ct(d):
    import calendar
    from pgpy.packet.subpackets.signature import CreationTime
    c = CreationTime()
    c.created = d
    c.update_hlen()
    b = bytes(c.__bytearray__())
    octets = b[-4:]
    c2 = CreationTime()
    c2.created = bytearray(octets)
    return octets, calendar.timegm(c2.created.utctimetuple())


def mpi_reencode_bounded(tier='quick', seed=0, known=()):
    """decode -> encode -> decode of multiprecision integers whose announced bit count is NOT the canonical one (other producers round the
    count up, keep the count of the modulus, or leave leading zero octets): what PGPy writes back must be the RFC 4880 3.2 encoding of
    the value, so that it decodes back to the same value and consumes exactly its own octets. (The two functions are proved separately
    for canonical input; this is their composition on foreign input.)"""
    import random
    from pgpy.packet.types import MPI
    from specs import mpi as S
    rng = random.Random(seed)
    cases, viol, samples, distinct = 0, [], [], set()
    bitlens = list(range(0, 70)) + [127, 128, 129, 255, 256, 257, 1023, 1024, 1025, 2047, 2048, 4095, 4096, 4200]
    if tier != 'quick':
        bitlens = list(range(0, 4201))
    tail = b'\xAA\xBB\xCC'
    for bl in bitlens:
        vals = {0} if bl == 0 else {1 << (bl - 1), (1 << bl) - 1, (1 << (bl - 1)) | rng.getrandbits(bl)}
        for v in sorted(vals):
            nb = (v.bit_length() + 7) // 8
            for slack in (0, 1, 3, 7, 8, 9, 16):                 # announced count = true count + slack
                ann = v.bit_length() + slack
                width = (ann + 7) // 8
                if ann > 65535:
                    continue
                enc = ann.to_bytes(2, 'big') + v.to_bytes(width, 'big')
                buf = bytearray(enc + tail)
                cases += 1
                distinct.add((bl, slack))
                why = None
                try:
                    m = MPI(buf)
                    if int(m) != v or bytes(buf) != tail:
                        why = 'decoded %r (want %r) or the octets left over differ' % (int(m), v)
                    else:
                        out = bytes(m.to_mpibytes())
                        if out != bytes(S.mpi_encode(v)):
                            why = 'written back as %s, RFC 4880 3.2 encoding of the value is %s' % (out[:6].hex(), bytes(S.mpi_encode(v))[:6].hex())
                        else:
                            buf2 = bytearray(out + tail)
                            m2 = MPI(buf2)
                            if int(m2) != v or bytes(buf2) != tail:
                                why = 'the octets written back decode to %r (want %r) or do not end where they should' % (int(m2), v)
                except Exception as ex:
                    why = 'exception %r' % (ex,)
                if len(samples) < 3 and slack:
                    samples.append({'value_bits': v.bit_length(), 'announced_bits': ann, 'encoded_prefix': enc[:6].hex()})
                if why and len(viol) < 5:
                    viol.append({'case': {'value_bits': v.bit_length(), 'announced_bits': ann, 'encoded_prefix': enc[:8].hex()}, 'what': why})
    return {'name': 'C09/mpi-reencode', 'bound': 'values of %d bit lengths (boundary patterns: top bit only, all ones, random) x announced bit count = true count + {0,1,3,7,8,9,16}' % len(bitlens),
            'cases': cases, 'distinct_nontrivial': len([d for d in distinct if d[1]]), 'rule': 'one case per (value, announced slack); non-trivial = the announced count is not the canonical one',
            'exhaustive': tier != 'quick', 'samples': samples, 'violations': viol, 'known_hits': []}
