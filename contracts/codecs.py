"""Contracts on the primitive wire codecs (C09; reused by C08/C18)."""
from pyvc.dsl import Contract, Int, Bool, Const, Choice, Bytes, Obj

U32 = 2 ** 32 - 1

encode_length_new = Contract(
    'C09/Header.encode_length[new]', 'pgpy.types.Header.encode_length',
    params={'length': Int(0, U32), 'nhf': Const(True), 'llen': Choice(0, 1, 2, 4)},
    ensures=[('rfc4880-4.2.2', 'result == lengths.new_length(length)'),
             ('shortest', 'len(result) == lengths.new_length_size(length)'),
             ('decodes-back', 'lengths.decode_new_value(result) == length and lengths.decode_new_size(result) == len(result)')],
    props=('C09', 'C08'))

encode_length_old = Contract(
    'C09/Header.encode_length[old]', 'pgpy.types.Header.encode_length',
    params={'length': Int(0, U32), 'nhf': Const(False), 'llen': Choice(0, 1, 2, 4)},
    requires='llen == 0 or length < 256 ** llen',
    ensures=[('be', 'result == (be(length, llen) if llen > 0 else b"")')],
    props=('C09', 'C08'))

CONTRACTS = [encode_length_new, encode_length_old]
