"""Contracts on the primitive wire codecs (C09; reused by C08/C18)."""
from pyvc.dsl import Contract, Int, Bool, Const, Choice, Bytes, Obj

U32 = 2 ** 32 - 1

encode_length_new = Contract(
    'C09/Header.encode_length[new]', 'pgpy.types.Header.encode_length',
    params={'length': Int(0, U32), 'nhf': Const(True), 'llen': Choice(0, 1, 2, 4)},
    ensures=[('rfc4880-4.2.2', 'result == lengths.new_length(length)'),
             ('shortest', 'len(result) == lengths.new_length_size(length)'),
             ('decodes-back', 'lengths.decode_new_value(result) == length and lengths.decode_new_size(result) == len(result)')],
    props=('C09', 'C08'))

encode_length_old = Contract(
    'C09/Header.encode_length[old]', 'pgpy.types.Header.encode_length',
    params={'length': Int(0, U32), 'nhf': Const(False), 'llen': Choice(0, 1, 2, 4)},
    requires='llen == 0 or length < 256 ** llen',
    ensures=[('be', 'result == (be(length, llen) if llen > 0 else b"")')],
    props=('C09', 'C08'))

CONTRACTS = [encode_length_new, encode_length_old]

# ---------------------------------------------------------------------------------------------------
# Header.length setter on octets (consumes its input in place)
PKT_HDR = 'pgpy.packet.types.Header'


def hdr(lenfmt, llen=Const(1), length=Const(1), **extra):
    f = {'_lenfmt': lenfmt, '_llen': llen, '_len': length, '_partial': Const(False)}
    f.update(extra)
    return Obj(PKT_HDR, f)


length_bin_new = Contract(
    'C09/Header.length_bin[new,non-partial]', 'pgpy.types.Header.length_bin',
    params={'self': hdr(Const(1)), 'val': Bytes(1, None, kind='bytearray')},
    requires='not lengths.is_partial(val[0]) and len(val) >= lengths.decode_new_size(val)',
    ensures=[('value', 'self._len == lengths.decode_new_value(old_val)'),
             ('consumed', 'val == old_val[lengths.decode_new_size(old_val):]')],
    props=('C09', 'C08'))

length_bin_old = Contract(
    'C09/Header.length_bin[old]', 'pgpy.types.Header.length_bin',
    params={'self': hdr(Const(0), llen=Choice(1, 2, 4)), 'val': Bytes(0, None, kind='bytearray')},
    requires='len(val) >= self._llen',
    ensures=[('value', 'self._len == b2i(old_val[:self._llen])'),
             ('consumed', 'val == old_val[self._llen:]')],
    props=('C09', 'C08'))

llen_new = Contract(
    'C09/Header.llen[new]', 'pgpy.types.Header.llen',
    params={'self': hdr(Const(1), llen=Choice(0, 1, 2, 4), length=Int(0, U32))},
    ensures=[('size', 'result == lengths.new_length_size(self._len)')],
    props=('C09', 'C08'))

llen_old = Contract(
    'C09/Header.llen[old]', 'pgpy.types.Header.llen',
    params={'self': hdr(Const(0), llen=Choice(0, 1, 2, 4), length=Int(0, U32))},
    ensures=[('never-narrower-than-the-value-needs', 'result == lengths.old_width(self._llen, self._len)')],
    props=('C09', 'C08'))

pkt_header_bytes = Contract(
    'C09/packet.Header.__bytearray__', 'pgpy.packet.types.Header.__bytearray__',
    params={'self': hdr(Choice(0, 1), llen=Choice(0, 1, 2, 4), length=Int(0, U32), _tag=Int(0, 63))},
    requires='self._lenfmt == 1 or self._tag < 16',
    ensures=[('rfc4880-4.2', 'result == lengths.packet_header(self._lenfmt, self._tag, self._len, self._llen)')],
    props=('C09', 'C08'))

pkt_header_len = Contract(
    'C09/packet.Header.__len__', 'pgpy.packet.types.Header.__len__',
    params={'self': hdr(Choice(0, 1), llen=Choice(0, 1, 2, 4), length=Int(0, U32), _tag=Int(0, 63))},
    requires='self._lenfmt == 1 or self._tag < 16',
    ensures=[('len', 'result == len(lengths.packet_header(self._lenfmt, self._tag, self._len, self._llen))')],
    props=('C09', 'C08'))

pkt_header_parse = Contract(
    'C09/packet.Header.parse[non-partial]', 'pgpy.packet.types.Header.parse',
    params={'self': hdr(Const(1), _tag=Const(0)), 'packet': Bytes(1, None, kind='bytearray', first=(128, 255))},
    requires='lengths.header_complete(packet) and not lengths.header_partial(packet)',
    ensures=[('format', 'self._lenfmt == ((old_packet[0] >> 6) & 1)'),
             ('tag', 'self._tag == lengths.header_tag(old_packet[0])'),
             ('length', 'self._len == lengths.header_body_length(old_packet)'),
             ('consumed', 'packet == old_packet[lengths.header_size(old_packet):]')],
    props=('C09', 'C08'))

CONTRACTS += [length_bin_new, length_bin_old, llen_new, llen_old, pkt_header_bytes, pkt_header_len, pkt_header_parse]

# ---------------------------------------------------------------------------------------------------
# signature subpacket header (5.2.3.1): no partial lengths exist for subpackets
SUB_HDR = 'pgpy.packet.subpackets.types.Header'


def subhdr(**f):
    base = {'_lenfmt': Const(1), '_llen': Const(1), '_len': Const(1), '_partial': Const(False), '_typeid': Const(-1), '_critical': Const(False)}
    base.update(f)
    return Obj(SUB_HDR, base)


sub_header_parse = Contract(
    'C09/subpackets.Header.parse', 'pgpy.packet.subpackets.types.Header.parse',
    params={'self': subhdr(), 'packet': Bytes(2, None, kind='bytearray')},
    requires='len(packet) >= lengths.sub_decode_size(packet) + 1',
    ensures=[('length-5.2.3.1', 'self._len == lengths.sub_decode_value(old_packet)'),
             ('type', 'self._typeid == old_packet[lengths.sub_decode_size(old_packet)] % 128'),
             ('critical', 'self._critical == (old_packet[lengths.sub_decode_size(old_packet)] >= 128)'),
             ('consumed', 'packet == old_packet[lengths.sub_decode_size(old_packet) + 1:]')],
    props=('C09', 'C08', 'C05'))

sub_header_bytes = Contract(
    'C09/subpackets.Header.__bytearray__', 'pgpy.packet.subpackets.types.Header.__bytearray__',
    params={'self': subhdr(_len=Int(0, U32), _typeid=Int(0, 127), _critical=Bool())},
    ensures=[('length-decodes-back', 'lengths.sub_decode_value(result) == self._len'),
             ('size', 'len(result) == lengths.sub_decode_size(result) + 1'),
             ('type-octet', 'result[len(result) - 1] == (128 if self._critical else 0) + self._typeid')],
    props=('C09', 'C08'))

sub_header_len = Contract(
    'C09/subpackets.Header.__len__', 'pgpy.packet.subpackets.types.Header.__len__',
    params={'self': subhdr(_len=Int(0, U32), _typeid=Int(0, 127), _critical=Bool())},
    ensures=[('len', 'result == lengths.new_length_size(self._len) + 1')],
    props=('C09', 'C08'))

# ---------------------------------------------------------------------------------------------------
# multiprecision integers (3.2)
MPI = 'pgpy.packet.types.MPI'
mpi_encode = Contract(
    'C09/MPI.to_mpibytes', 'pgpy.packet.types.MPI.to_mpibytes',
    params={'self': Obj(MPI, {}, intvalue=Int(0, None))},
    requires='bitlen(self) < 65536',
    ensures=[('rfc4880-3.2', 'result == mpi.mpi_encode(self)')],
    props=('C09', 'C08', 'C18'))

mpi_len = Contract(
    'C09/MPI.__len__', 'pgpy.packet.types.MPI.__len__',
    params={'self': Obj(MPI, {}, intvalue=Int(0, None))},
    requires='bitlen(self) < 65536',
    ensures=[('len', 'result == mpi.mpi_size(self)')],
    props=('C09', 'C08', 'C18'))

mpi_decode = Contract(
    'C09/MPI.__new__[octets]', 'pgpy.packet.types.MPI.__new__',
    params={'cls': Const(None), 'num': Bytes(2, None, kind='bytearray')},
    requires='len(num) >= 2 + mpi.mpi_body_len(num)',
    ensures=[('value', 'result == b2i(old_num[2:2 + mpi.mpi_body_len(old_num)])'),
             ('consumed', 'num == old_num[2 + mpi.mpi_body_len(old_num):]')],
    native_call=lambda nat: __import__('pgpy').packet.types.MPI(nat['num']),
    props=('C09', 'C08'))

# ---------------------------------------------------------------------------------------------------
# S2K iteration count (3.7.1.3)
S2K = 'pgpy.packet.fields.String2Key'
s2k_count = Contract(
    'C09/String2Key.count', 'pgpy.packet.fields.String2Key.count',
    params={'self': Obj(S2K, {'_count': Int(0, 255)})},
    ensures=[('rfc4880-3.7.1.3', 'result == s2k.decode_count(self._count)')],
    props=('C09', 'C12'))

s2k_count_set = Contract(
    'C09/String2Key.count_int', 'pgpy.packet.fields.String2Key.count_int',
    params={'self': Obj(S2K, {'_count': Const(0)}), 'val': Int(-1000, 1000)},
    ensures=[('stored', 'self._count == val')],
    raises={'ValueError': 'val < 0 or val > 255'},
    props=('C09', 'C12'))

CONTRACTS += [sub_header_parse, sub_header_bytes, sub_header_len, mpi_encode, mpi_len, mpi_decode, s2k_count, s2k_count_set]
