"""C05: the hashed subpacket area is kept and hashed verbatim (fields.SubPackets)."""
import z3
from pyvc import scn, engine as E
from pyvc.runner import Scenario
from pyvc.dsl import Contract, Obj, Bytes, Const

B = E.BYTES
SP = 'pgpy.packet.fields.SubPackets'


def parse():
    label = 'C05/SubPackets.parse'

    def gen(repo):
        r = scn.Run(repo, SP, 'parse', label)
        ex, st = r.ex, r.st
        OLD = z3.Const('RECEIVED', B)
        st.pc += [z3.Length(OLD) >= 2]
        me = E.VObj(SP, 'sp')
        r.set('sp', '_hashed_raw', E.VNone())
        r.set('sp', '_unhashed_raw', E.VNone())
        buf = ex.new_buf(st, OLD)
        hl = OLD[0] * 256 + OLD[1]
        st.facts += [OLD[0] >= 0, OLD[0] < 256, OLD[1] >= 0, OLD[1] < 256]
        loops = ex.register_loops('parse', r.node)
        if len(loops) != 2 or not all(isinstance(l, __import__('ast').While) for l in loops):
            raise E.ToolLimit('SubPackets.parse no longer has the two while loops the loop contracts are written for')
        sp_cls = repo.resolve_name('pgpy.packet.fields', 'SignatureSP')

        # callee contract of the subpacket dispatcher: consumes c >= 1 octets from the front of its argument, in place,
        # leaves the rest untouched, or raises (assumed here; the dispatcher/header side is C08/C09)
        def dispatch(ex, st, cls, a):
            cell = a[0].cell
            cur = st.heap[cell]
            c = E.fresh('consumed')
            bad = st.clone()
            st.pc += [c >= 1, c <= z3.Length(cur)]
            st.heap[cell] = z3.Extract(cur, c, z3.Length(cur) - c)
            st.ghost['dispatched'] = st.ghost.get('dispatched', 0) + 1
            return [(st, E.VObj(sp_cls, E.fresh('subpacket'))), (bad, E.Raise('PGPError', 0))]
        r.hook(sp_cls, '__call__', dispatch)

        def setitem(ex, st, o, a):
            key = a[0]
            hashed = (isinstance(key.s, str) and key.s.startswith('h_')) or (key.prefix or '').startswith('h_')
            if hashed:
                st.heap[(o.ref, '_hashed_raw')] = E.VNone()       # contract of __setitem__: a hashed addition drops the raw octets
            else:
                st.heap[(o.ref, '_unhashed_raw')] = E.VNone()
            st.ghost.setdefault('stored', []).append(bool(hashed))
            return [(st, E.VNone())]
        r.hook(SP, '__setitem__', scn.method_hook(setitem))

        def suffix_inv(base_off):
            # the buffer is a suffix of the received octets starting at or after base_off
            def inv(ex, st, env):
                cur = st.heap[buf.cell]
                L, n = z3.Length(OLD), z3.Length(cur)
                return z3.And(n <= L - base_off, n >= 0, cur == z3.Extract(OLD, L - n, n))
            return inv

        def havoc(ex, st, env):
            st.heap[buf.cell] = E.fresh('buffer', B)
        ex.loops[('parse', 0)] = {'name': 'hashed-area', 'inv': suffix_inv(2), 'havoc': havoc,
                                  'variant': lambda ex, st, env: z3.Length(st.heap[buf.cell])}
        def exact(ex, st, env):
            # reached only if the hashed subpackets tiled the hashed area exactly: the buffer now starts right after the
            # two-octet unhashed length that follows the hashed area (or is empty if the packet ends early)
            n, L = z3.Length(st.heap[buf.cell]), z3.Length(OLD)
            return n == z3.If(L - (2 + hl + 2) > 0, L - (2 + hl + 2), 0)
        ex.loops[('parse', 1)] = {'name': 'unhashed-area', 'inv': suffix_inv(2 + hl), 'havoc': havoc, 'at_entry': exact,
                                  'variant': lambda ex, st, env: z3.Length(st.heap[buf.cell])}
        outs = r.call(me, [buf])
        nret = 0
        for pi, (s, v) in enumerate(outs):
            if isinstance(v, E.Raise):
                exc = v.exc.split(':')[0]
                r.oblige(s, 'only-rejections(%s)/p%d' % (exc, pi), z3.BoolVal(exc in ('PGPError', 'ValueError')), v.where)
                continue
            nret += 1
            raw = s.heap.get(('sp', '_hashed_raw'))
            isbytes = isinstance(raw, (E.VBuf, E.VBytes))
            r.oblige(s, 'raw-hashed-area-kept/p%d' % pi, z3.BoolVal(isbytes))
            if isbytes:
                r.oblige(s, 'hashed-area-is-the-received-octets/p%d' % pi, ex.seq(raw, s) == z3.Extract(OLD, 0, 2 + hl))
                r.oblige(s, 'hashed-area-complete/p%d' % pi, z3.Length(OLD) >= 2 + hl)
            uraw = s.heap.get(('sp', '_unhashed_raw'))
            if isinstance(uraw, (E.VBuf, E.VBytes)):
                # when kept, the unhashed area is the received octets that follow the hashed area (its two-octet count included)
                uhl = OLD[2 + hl] * 256 + OLD[2 + hl + 1]
                r.oblige(s, 'unhashed-area-kept-verbatim/p%d' % pi,
                         z3.Implies(z3.Length(OLD) >= 2 + hl + 2, ex.seq(uraw, s) == z3.Extract(OLD, 2 + hl, 2 + uhl)))
        r.oblige(st, 'cover-normal-return', z3.BoolVal(nret > 0))
        return r.result()
    return Scenario(label, SP + '.parse', gen, props=('C05', 'C08', 'C09'))


def _mk_sp(f):
    from pgpy.packet.fields import SubPackets
    sp = SubPackets()
    sp._hashed_raw = f['_hashed_raw']
    return sp


def _mk_sp_u(f):
    from pgpy.packet.fields import SubPackets
    sp = SubPackets()
    sp._unhashed_raw = f['_unhashed_raw']
    return sp


unhashbytes_raw = Contract(
    'C08/SubPackets.__unhashbytearray__[parsed]', SP + '.__unhashbytearray__',
    params={'self': Obj(SP, {'_unhashed_raw': Bytes(2, 70000, kind='bytearray')}, build=_mk_sp_u)},
    ensures=[('verbatim', 'result == self._unhashed_raw')],
    props=('C08',))


hashbytes_raw = Contract(
    'C05/SubPackets.__hashbytearray__[parsed]', SP + '.__hashbytearray__',
    params={'self': Obj(SP, {'_hashed_raw': Bytes(2, 70000, kind='bytearray')}, build=_mk_sp)},
    ensures=[('verbatim', 'result == self._hashed_raw')],
    props=('C05', 'C01', 'C02', 'C08'))


def copy_keeps_raw():
    label = 'C05/SubPackets.__copy__'

    def gen(repo):
        r = scn.Run(repo, SP, '__copy__', label)
        ex, st = r.ex, r.st
        RAW = z3.Const('RAW', B)
        URAW = z3.Const('UNHASHED_RAW', B)
        me = E.VObj(SP, 'sp')
        r.set('sp', '_hashed_raw', ex.new_buf(st, RAW))
        r.set('sp', '_unhashed_raw', ex.new_buf(st, URAW))
        r.set('sp', '_hashed_sp', E.VDict([]))
        r.set('sp', '_unhashed_sp', E.VDict([]))
        for pi, (s, v) in enumerate(r.call(me, [])):
            if isinstance(v, E.Raise):
                r.oblige(s, 'safety/p%d' % pi, z3.BoolVal(False), v.where)
                continue
            raw = s.heap.get((v.ref, '_hashed_raw')) if isinstance(v, E.VObj) else None
            ok = isinstance(raw, (E.VBuf, E.VBytes))
            r.oblige(s, 'copy-has-raw/p%d' % pi, z3.BoolVal(ok))
            if ok:
                r.oblige(s, 'copy-raw-equal/p%d' % pi, ex.seq(raw, s) == RAW)
                r.oblige(s, 'copy-raw-not-aliased/p%d' % pi, z3.BoolVal(not (isinstance(raw, E.VBuf) and raw.cell == s.heap[('sp', '_hashed_raw')].cell)))
        return r.result()
    return Scenario(label, SP + '.__copy__', gen, props=('C05', 'C14'))


def setitem_drops_raw():
    label = 'C05/SubPackets.__setitem__[hashed]'

    def gen(repo):
        r = scn.Run(repo, SP, '__setitem__', label)
        ex, st = r.ex, r.st
        me = E.VObj(SP, 'sp')
        r.set('sp', '_hashed_raw', ex.new_buf(st, z3.Const('RAW', B)))
        r.set('sp', '_unhashed_raw', ex.new_buf(st, z3.Const('UNHASHED_RAW', B)))
        r.set('sp', '_hashed_sp', E.VDict([]))
        r.set('sp', '_unhashed_sp', E.VDict([]))
        val = E.VObj('pgpy.packet.subpackets.signature.CreationTime', 'newsp')
        for pi, (s, v) in enumerate(r.call(me, [E.VStr(s='h_CreationTime'), val])):
            if isinstance(v, E.Raise):
                r.oblige(s, 'safety/p%d' % pi, z3.BoolVal(False), v.where)
                continue
            r.oblige(s, 'raw-dropped-when-hashed-subpacket-added/p%d' % pi, z3.BoolVal(isinstance(s.heap.get(('sp', '_hashed_raw')), E.VNone)))
            hd = s.heap.get(('sp', '_hashed_sp'))
            r.oblige(s, 'stored-in-hashed-area/p%d' % pi, z3.BoolVal(isinstance(hd, E.VDict) and any(x is val for _, x in hd.of(s))))
        return r.result()
    return Scenario(label, SP + '.__setitem__', gen, props=('C05',))


def scenarios():
    return [parse(), hashbytes_raw, unhashbytes_raw, copy_keeps_raw(), setitem_drops_raw()]


def subpacket_update_hlen():
    """SubPacket.update_hlen: the stated length becomes (octets of the body) + 1 for the type octet, whatever the length was before
    (also across the 191/192 boundary where the width of the length field itself changes)"""
    label = 'C02/SubPacket.update_hlen'
    BASE, HC = 'pgpy.packet.subpackets.types.SubPacket', 'pgpy.packet.subpackets.types.Header'

    def gen(repo):
        r = scn.Run(repo, BASE, 'update_hlen', label)
        ex, st = r.ex, r.st
        OLDHDR, BODY = z3.Const('HEADER_AS_WRITTEN_NOW', B), z3.Const('BODY', B)
        r.set('sp', 'header', E.VObj(HC, 'hdr'))
        # contracts of the callees (C09): len(header) is the number of octets the header serialises to right now
        r.hook(HC, '__len__', scn.method_hook(lambda ex, st, o, a: [(st, E.VInt(z3.Length(OLDHDR)))]))
        r.hook(BASE, '__bytearray__', scn.method_hook(lambda ex, st, o, a: [(st, ex.new_buf(st, z3.Concat(OLDHDR, BODY)))]))
        for c in ('pgpy.packet.subpackets.signature.Policy',):
            r.hook(c, '__bytearray__', scn.method_hook(lambda ex, st, o, a: [(st, ex.new_buf(st, z3.Concat(OLDHDR, BODY)))]))

        def setlen(ex, st, o, a):
            st.ghost['new_length'] = a[0]
            return [(st, E.VNone())]
        for pi, (s, v) in enumerate(r.call(E.VObj('pgpy.packet.subpackets.signature.Policy', 'sp'), [])):
            if isinstance(v, E.Raise):
                r.oblige(s, 'safety(%s)/p%d' % (v.exc.split(':')[0], pi), z3.BoolVal(False), v.where)
                continue
            nl = s.heap.get(('hdr', '_len'))
            r.oblige(s, 'stated-length=body-octets+1(type-octet)/p%d' % pi, ex.as_int(nl) == z3.Length(BODY) + 1 if isinstance(nl, E.VInt) else z3.BoolVal(False))
        return r.result()
    return Scenario(label, BASE + '.update_hlen', gen, props=('C02', 'C08', 'C05'))


def fresh_area(hashed):
    """SubPackets.__hashbytearray__ / __unhashbytearray__ of a signature being made (no received octets kept): two-octet count, then the
    subpackets in insertion order; requires each subpacket's stated size to be its serialised size (postcondition of update_hlen)"""
    fn = '__hashbytearray__' if hashed else '__unhashbytearray__'
    label = 'C02/SubPackets.%s[fresh signature]' % fn

    def gen(repo):
        r = scn.Run(repo, SP, fn, label)
        ex, st = r.ex, r.st
        r.set('subp', '_hashed_raw', E.VNone())
        r.set('subp', '_unhashed_raw', E.VNone())
        sps = [E.VObj('pgpy.packet.subpackets.types.SubPacket', 'sp%d' % i) for i in range(3)]
        BY = [z3.Const('SUBPACKET_%d' % i, B) for i in range(3)]
        d = E.VDict([(E.VTuple([E.VStr(s='k%d' % i), E.VInt(i)]), sps[i]) for i in range(3)])
        r.set('subp', '_hashed_sp' if hashed else '_unhashed_sp', d)
        r.set('subp', '_unhashed_sp' if hashed else '_hashed_sp', E.VDict([]))
        idx = {x.ref: i for i, x in enumerate(sps)}
        r.hook('pgpy.packet.subpackets.types.SubPacket', '__len__', scn.method_hook(lambda ex, st, o, a: [(st, E.VInt(z3.Length(BY[idx[o.ref]])))]))
        r.hook('pgpy.packet.subpackets.types.SubPacket', '__bytearray__', scn.method_hook(lambda ex, st, o, a: [(st, ex.new_buf(st, BY[idx[o.ref]]))]))
        total = z3.Length(BY[0]) + z3.Length(BY[1]) + z3.Length(BY[2])
        st.pc += [total < 65536]
        for pi, (s, v) in enumerate(r.call(E.VObj(SP, 'subp'), [])):
            if isinstance(v, E.Raise):
                r.oblige(s, 'safety(%s)/p%d' % (v.exc.split(':')[0], pi), z3.BoolVal(False), v.where)
                continue
            r.oblige(s, 'rfc4880-5.2.3:two-octet-count-of-the-area,then-the-subpackets-in-order/p%d' % pi,
                     ex.seq(v, s) == z3.Concat(scn.be(total, 2), BY[0], BY[1], BY[2]))
        return r.result()
    return Scenario(label, SP + '.' + fn, gen, props=('C02', 'C08', 'C05'))


_base_scn_fa = scenarios


def scenarios():
    return _base_scn_fa() + [subpacket_update_hlen(), fresh_area(True), fresh_area(False)]
