"""C01/C02: the per-algorithm verify glue (fields.*Pub.verify, PubKeyV4.verify): what reaches the external verifier and how
its verdict is mapped.  The external (cryptography) is an uninterpreted relation SigOK; `verify` either returns None or raises
InvalidSignature."""
import z3
from pyvc import scn, engine as E
from pyvc.runner import Scenario
from pyvc.scn import cat, be

B = E.BYTES
ALGS = {
    'RSAPub': dict(fields=('n', 'e'), ext='rsa.RSAPublicNumbers.public_key'),
    'DSAPub': dict(fields=('p', 'q', 'g', 'y'), ext='dsa.DSAPublicNumbers.public_key'),
    'ECDSAPub': dict(fields=(), ext=None),
    'EdDSAPub': dict(fields=(), ext=None),
}


def alg_verify(clsname):
    label = 'C01/fields.%s.verify' % clsname
    cls = 'pgpy.packet.fields.' + clsname

    def gen(repo):
        r = scn.Run(repo, cls, 'verify', label)
        ex, st = r.ex, r.st
        SUBJ, SIG = z3.Const('HASHDATA', B), z3.Const('SIGBYTES', B)
        ok = z3.Bool('SigOK')
        me = E.VObj(cls, 'km')
        n = z3.Int('modulus')
        st.pc += [n > 0]
        if clsname == 'RSAPub':
            r.set('km', 'n', E.VInt(n, enum='pgpy.packet.types.MPI'))
            r.set('km', 'e', E.VInt(z3.Int('exponent'), enum='pgpy.packet.types.MPI'))
        halg = E.VExt('hashes.SHA256', ())
        pk = E.VExt('thepublickey', ())
        # the public key object handed to cryptography is built by __pubkey__ from this key's public numbers (separate contract)
        r.hook(cls, '__pubkey__', scn.mconst(pk))

        def ext_verify(ex, st, o, a):
            st.ghost['ext_args'] = a
            s2 = st.clone()
            st.pc.append(ok)
            s2.pc.append(z3.Not(ok))
            return [(st, E.VNone()), (s2, E.Raise('InvalidSignature', 0))]
        r.hook('ext:thepublickey', 'verify', ext_verify)
        outs = r.call(me, [E.VBytes(SUBJ), E.VBytes(SIG), halg])
        for pi, (s, v) in enumerate(outs):
            if isinstance(v, E.Raise):
                r.oblige(s, 'safety(%s)/p%d' % (v.exc.split(':')[0], pi), z3.BoolVal(False), v.where)
                continue
            a = s.ghost.get('ext_args')
            r.oblige(s, 'external-verifier-called/p%d' % pi, z3.BoolVal(a is not None))
            if a is None:
                continue
            r.oblige(s, 'true-iff-external-accepts/p%d' % pi, ex.truth(v, s) == ok)
            r.oblige(s, 'result-is-bool/p%d' % pi, z3.BoolVal(isinstance(v, E.VBool)))
            sig_arg = ex.seq(a[0], s)
            if clsname == 'RSAPub':
                # left-padded with zero octets to the modulus length, never truncated or otherwise changed
                bl = (E.BL(n) + 7) / 8
                pad = z3.If(bl - z3.Length(SIG) > 0, bl - z3.Length(SIG), 0)
                r.oblige(s, 'signature-octets-passed-unchanged-after-padding/p%d' % pi,
                         z3.And(z3.Length(sig_arg) == pad + z3.Length(SIG), z3.Extract(sig_arg, pad, z3.Length(SIG)) == SIG))
                reps = s.ghost.get('repeats', [])
                r.oblige(s, 'padding-is-zero-octets/p%d' % pi,
                         z3.BoolVal(len(reps) == 1 and ex.conc_bytes(E.VBytes(reps[0][1]), s) == b'\x00'))
                r.oblige(s, 'pkcs1v15/p%d' % pi, z3.BoolVal(isinstance(a[2], E.VExt) and a[2].name == 'padding.PKCS1v15'))
                r.oblige(s, 'hash-algorithm-of-the-signature/p%d' % pi, z3.BoolVal(a[3] is halg))
                r.oblige(s, 'message-is-the-hash-data/p%d' % pi, ex.seq(a[1], s) == SUBJ)
            elif clsname == 'DSAPub':
                r.oblige(s, 'signature-octets-passed-unchanged/p%d' % pi, sig_arg == SIG)
                r.oblige(s, 'message-is-the-hash-data/p%d' % pi, ex.seq(a[1], s) == SUBJ)
                r.oblige(s, 'hash-algorithm-of-the-signature/p%d' % pi, z3.BoolVal(a[2] is halg))
            elif clsname == 'ECDSAPub':
                r.oblige(s, 'signature-octets-passed-unchanged/p%d' % pi, sig_arg == SIG)
                r.oblige(s, 'message-is-the-hash-data/p%d' % pi, ex.seq(a[1], s) == SUBJ)
                r.oblige(s, 'ecdsa-with-hash-algorithm-of-the-signature/p%d' % pi,
                         z3.BoolVal(isinstance(a[2], E.VExt) and a[2].name == 'ec.ECDSA' and a[2].args[0] is halg))
            elif clsname == 'EdDSAPub':
                hashed = s.ghost.get('hashed', [])
                r.oblige(s, 'signature-octets-passed-unchanged/p%d' % pi, sig_arg == SIG)
                shape = len(hashed) == 1 and hashed[0][0][0] == 'param' and hashed[0][0][1] is halg
                r.oblige(s, 'one-prehash-with-the-signature-hash-algorithm/p%d' % pi, z3.BoolVal(bool(shape)))
                if shape:
                    r.oblige(s, 'prehash-input-is-the-hash-data-and-digest-is-verified/p%d' % pi,
                             z3.And(hashed[0][1] == SUBJ, ex.seq(a[1], s) == hashed[0][2]))
        return r.result()
    return Scenario(label, cls + '.verify', gen, props=('C01', 'C02'))


def pubkey_numbers(clsname):
    """__pubkey__ builds the external key from exactly this key's public numbers"""
    label = 'C01/fields.%s.__pubkey__' % clsname
    cls = 'pgpy.packet.fields.' + clsname

    def gen(repo):
        r = scn.Run(repo, cls, '__pubkey__', label)
        ex, st = r.ex, r.st
        me = E.VObj(cls, 'km')
        vals = {}
        for f in ALGS[clsname]['fields']:
            vals[f] = z3.Int('pub_' + f)
            r.set('km', f, E.VInt(vals[f], enum='pgpy.packet.types.MPI'))
        outs = r.call(me, [])
        for pi, (s, v) in enumerate(outs):
            if isinstance(v, E.Raise):
                r.oblige(s, 'safety(%s)/p%d' % (v.exc.split(':')[0], pi), z3.BoolVal(False), v.where)
                continue
            good = isinstance(v, E.VExt) and v.name == ALGS[clsname]['ext']
            r.oblige(s, 'external-public-key-from-numbers/p%d' % pi, z3.BoolVal(bool(good)))
            if not good:
                continue
            numbers = v.args[0]
            if clsname == 'RSAPub':
                # RSAPublicNumbers(e, n)
                r.oblige(s, 'e-and-n-of-this-key/p%d' % pi, z3.And(numbers.args[0].z == vals['e'], numbers.args[1].z == vals['n']))
            else:
                params = numbers.args[1]
                ok = isinstance(params, E.VExt) and params.name == 'dsa.DSAParameterNumbers'
                r.oblige(s, 'dsa-parameter-numbers/p%d' % pi, z3.BoolVal(bool(ok)))
                if ok:
                    r.oblige(s, 'y-p-q-g-of-this-key/p%d' % pi, z3.And(numbers.args[0].z == vals['y'], params.args[0].z == vals['p'],
                                                                       params.args[1].z == vals['q'], params.args[2].z == vals['g']))
        return r.result()
    return Scenario(label, cls + '.__pubkey__', gen, props=('C01', 'C02'))


def packet_verify():
    label = 'C01/PubKeyV4.verify'

    def gen(repo):
        r = scn.Run(repo, 'pgpy.packet.packets.PubKeyV4', 'verify', label)
        ex, st = r.ex, r.st
        res = z3.Bool('material_verdict')
        me = E.VObj('pgpy.packet.packets.PubKeyV4', 'pkt')
        r.set('pkt', 'keymaterial', E.VObj('pgpy.packet.fields.RSAPub', 'km'))

        def kmverify(ex, st, o, a):
            st.ghost['args'] = a
            return [(st, E.VBool(res))]
        r.hook('pgpy.packet.fields.PubKey', 'verify', scn.method_hook(kmverify))
        A = [E.VBytes(z3.Const('HASHDATA', B)), E.VBytes(z3.Const('SIGBYTES', B)), E.VExt('hashes.SHA256', ())]
        for pi, (s, v) in enumerate(r.call(me, A)):
            if isinstance(v, E.Raise):
                r.oblige(s, 'safety/p%d' % pi, z3.BoolVal(False), v.where)
                continue
            a = s.ghost.get('args')
            r.oblige(s, 'delegates-to-own-key-material-with-same-arguments/p%d' % pi,
                     z3.BoolVal(a is not None and len(a) == 3 and all(x is y for x, y in zip(a, A))))
            r.oblige(s, 'verdict-unchanged/p%d' % pi, ex.truth(v, s) == res)
        return r.result()
    return Scenario(label, 'pgpy.packet.packets.PubKeyV4.verify', gen, props=('C01',))


def scenarios():
    return [alg_verify(c) for c in ALGS] + [pubkey_numbers('RSAPub'), pubkey_numbers('DSAPub'), packet_verify()]


def alg_sign(clsname):
    """<alg>Priv.sign: what is handed to the external signer (RFC 4880 5.2.2 / 13.1.3, RFC 6637, EdDSA pre-hash), result returned unchanged"""
    label = 'C02/fields.%s.sign' % clsname
    cls = 'pgpy.packet.fields.' + clsname

    def gen(repo):
        r = scn.Run(repo, cls, 'sign', label)
        ex, st = r.ex, r.st
        DATA, OUT = z3.Const('HASHDATA', B), z3.Const('SIGNER_OUTPUT', B)
        halg = E.VExt('hashes.SHA256', ())
        sk = E.VExt('theprivatekey', ())
        r.hook(cls, '__privkey__', scn.mconst(sk))

        def ext_sign(ex, st, o, a):
            st.ghost['ext_args'] = a
            return [(st, E.VBytes(OUT))]
        r.hook('ext:theprivatekey', 'sign', ext_sign)
        for pi, (s, v) in enumerate(r.call(E.VObj(cls, 'km'), [E.VBytes(DATA), halg])):
            if isinstance(v, E.Raise):
                r.oblige(s, 'safety(%s)/p%d' % (v.exc.split(':')[0], pi), z3.BoolVal(False), v.where)
                continue
            a = s.ghost.get('ext_args')
            r.oblige(s, 'external-signer-of-this-key-called-once/p%d' % pi, z3.BoolVal(a is not None))
            if a is None:
                continue
            r.oblige(s, 'returns-the-signer-output-unchanged/p%d' % pi, ex.seq(v, s) == OUT)
            if clsname == 'RSAPriv':
                r.oblige(s, 'signs-the-hash-data,pkcs1v15,hash-of-the-signature/p%d' % pi,
                         z3.And(ex.seq(a[0], s) == DATA, z3.BoolVal(isinstance(a[1], E.VExt) and a[1].name == 'padding.PKCS1v15' and a[2] is halg)))
            elif clsname == 'DSAPriv':
                r.oblige(s, 'signs-the-hash-data-with-the-hash-of-the-signature/p%d' % pi, z3.And(ex.seq(a[0], s) == DATA, z3.BoolVal(a[1] is halg)))
            elif clsname == 'ECDSAPriv':
                r.oblige(s, 'signs-the-hash-data,ecdsa-with-the-hash-of-the-signature/p%d' % pi,
                         z3.And(ex.seq(a[0], s) == DATA, z3.BoolVal(isinstance(a[1], E.VExt) and a[1].name == 'ec.ECDSA' and a[1].args[0] is halg)))
            else:
                hashed = s.ghost.get('hashed', [])
                shape = len(hashed) == 1 and hashed[0][0][0] == 'param' and hashed[0][0][1] is halg
                r.oblige(s, 'one-prehash-with-the-hash-of-the-signature/p%d' % pi, z3.BoolVal(bool(shape)))
                if shape:
                    r.oblige(s, 'prehash-input-is-the-hash-data-and-the-digest-is-signed/p%d' % pi, z3.And(hashed[0][1] == DATA, ex.seq(a[0], s) == hashed[0][2]))
        return r.result()
    return Scenario(label, cls + '.sign', gen, props=('C02', 'C01'))


def sig_fields(kind):
    """signature integers between the signer/verifier format and the packet fields: RSA (one MPI), EdDSA (R, S of 32 octets each)"""
    label = 'C02/fields.%sSignature.from_signer+__sig__' % kind
    cls = 'pgpy.packet.fields.%sSignature' % kind

    def gen(repo):
        obls, funcs, paths = [], [], 0
        r = scn.Run(repo, cls, 'from_signer', label + '[from_signer]')
        ex, st = r.ex, r.st
        OUT = z3.Const('SIGNER_OUTPUT', B)
        n = 64 if kind == 'EdDSA' else 4
        st.pc += [z3.Length(OUT) == n]
        st.facts += [z3.And(OUT[i] >= 0, OUT[i] < 256) for i in range(n)]
        r.hook('pgpy.packet.types.MPI', '__call__', lambda ex, st, c, a: [(st, E.VInt(ex.as_int(a[0]), enum='pgpy.packet.types.MPI'))])
        val = lambda lo, k: sum([OUT[lo + j] * 256 ** (k - 1 - j) for j in range(k)], z3.IntVal(0))
        for pi, (s, v) in enumerate(r.call(E.VObj(cls, 'sig'), [E.VBytes(OUT)])):
            paths += 1
            if isinstance(v, E.Raise):
                r.oblige(s, 'safety(%s)/p%d' % (v.exc.split(':')[0], pi), z3.BoolVal(False), v.where)
                continue
            if kind == 'EdDSA':
                r.oblige(s, 'R-is-the-first-half,S-the-second-half-of-the-signer-output/p%d' % pi,
                         z3.And(ex.as_int(s.heap.get(('sig', 'r'))) == val(0, 32), ex.as_int(s.heap.get(('sig', 's'))) == val(32, 32)))
            else:
                r.oblige(s, 'the-integer-is-the-signer-output-read-big-endian/p%d' % pi, ex.as_int(s.heap.get(('sig', 'md_mod_n'))) == val(0, n))
        res = r.result()
        obls += res['obligations']
        funcs += res['funcs']
        if kind == 'EdDSA':
            r2 = scn.Run(repo, cls, '__sig__', label + '[__sig__]')
            ex, st = r2.ex, r2.st
            R, S = z3.Ints('R S')
            st.pc += [R >= 0, S >= 0, R < 2 ** 256, S < 2 ** 256]
            r2.set('sig', 'r', E.VInt(R, enum='pgpy.packet.types.MPI'))
            r2.set('sig', 's', E.VInt(S, enum='pgpy.packet.types.MPI'))
            ex.bl_extra = (256,)
            ED = E.VExt('OID.Ed25519', ())
            r2.hook('pgpy.constants.EllipticCurveOID', 'Ed25519', scn.const(ED))
            h = lambda ex, st, o, a: [(st, E.VInt(256))]          # curve table (pgpy.constants): Ed25519 has a 256-bit field
            h.is_method = False
            ex.hooks[('ext:OID.Ed25519', 'key_size')] = h
            for pi, (s, v) in enumerate(r2.call(E.VObj(cls, 'sig'), [])):
                paths += 1
                if isinstance(v, E.Raise):
                    r2.oblige(s, 'safety(%s)/p%d' % (v.exc.split(':')[0], pi), z3.BoolVal(False), v.where)
                    continue
                # leading zero octets of R and S are kept: both on exactly 32 octets (the verifier wants 64 octets)
                r2.oblige(s, 'verifier-format:R-and-S-each-on-exactly-32-octets/p%d' % pi, scn.same_octets(ex.seq(v, s), cat(be(R, 32), be(S, 32))))
            res2 = r2.result()
            obls += res2['obligations']
            funcs += res2['funcs']
            # C01 ('the signature integers differ in any way => never a truthy verification'): an integer that does not fit 32 octets is never
            # reduced to 32 octets - what reaches the verifier is then not a 64-octet signature (seeded change C01-13 kept the low 32 octets)
            for wide in ('R', 'S'):
                r3 = scn.Run(repo, cls, '__sig__', label + '[__sig__,%s wider than 32 octets]' % wide)
                ex, st = r3.ex, r3.st
                R3, S3 = z3.Ints('R S')
                big, small = (R3, S3) if wide == 'R' else (S3, R3)
                st.pc += [big >= 2 ** 256, big < 2 ** 264, small >= 0, small < 2 ** 256]
                r3.set('sig', 'r', E.VInt(R3, enum='pgpy.packet.types.MPI'))
                r3.set('sig', 's', E.VInt(S3, enum='pgpy.packet.types.MPI'))
                ex.bl_extra = (256, 264)
                r3.hook('pgpy.constants.EllipticCurveOID', 'Ed25519', scn.const(ED))
                ex.hooks[('ext:OID.Ed25519', 'key_size')] = h
                for pi, (s, v) in enumerate(r3.call(E.VObj(cls, 'sig'), [])):
                    paths += 1
                    if isinstance(v, E.Raise):
                        continue                                  # refusing is allowed
                    r3.oblige(s, 'over-wide-integer-is-not-reduced:the-verifier-does-not-get-64-octets/p%d' % pi, z3.Length(ex.seq(v, s)) != 64)
                res3 = r3.result()
                obls += res3['obligations']
                funcs += res3['funcs']
        return {'obligations': obls, 'funcs': funcs, 'paths': paths}
    return Scenario(label, cls, gen, props=('C02', 'C01'))


_base_scn_sa = scenarios


def scenarios():
    return _base_scn_sa() + [alg_sign(c) for c in ('RSAPriv', 'DSAPriv', 'ECDSAPriv', 'EdDSAPriv')] + [sig_fields('RSA'), sig_fields('EdDSA')]


def dsa_from_signer():
    """DSASignature.from_signer: the signer hands out DER  SEQUENCE { INTEGER r, INTEGER s }  (X.690: 30 L 02 lr <r> 02 ls <s>, short or
    long form of L); the fields get exactly r and s (big-endian contents, a leading zero octet of a DER integer changes nothing).
    Proved for content lengths (lr, ls) in a list that covers 160-, 256- and 528-bit integers with and without the leading zero octet."""
    label = 'C02/fields.DSASignature.from_signer'
    cls = 'pgpy.packet.fields.DSASignature'

    def gen(repo):
        obls, funcs, paths = [], [], 0
        for lr, ls in ((1, 1), (20, 21), (21, 20), (32, 33), (33, 32), (66, 66)):
            r = scn.Run(repo, cls, 'from_signer', '%s[r on %d, s on %d octets]' % (label, lr, ls))
            ex, st = r.ex, r.st
            L = 4 + lr + ls
            hdr = [0x30, L] if L < 128 else [0x30, 0x81, L]
            n = len(hdr) + L
            # the signer output, octet by octet: the framing octets are the DER ones, the contents are free octets
            o_r = len(hdr)
            o_s = o_r + 2 + lr
            octs = [z3.Int('content_octet_%d' % i) for i in range(n)]
            fixed = dict(enumerate(hdr))
            fixed.update({o_r: 2, o_r + 1: lr, o_s: 2, o_s + 1: ls})
            units = [z3.IntVal(fixed[i]) if i in fixed else octs[i] for i in range(n)]
            st.pc += [z3.And(octs[i] >= 0, octs[i] < 256) for i in range(n) if i not in fixed]
            OUT = z3.Concat(*[z3.Unit(u) for u in units])
            r.hook('pgpy.packet.types.MPI', '__call__', lambda ex, st, c, a: [(st, E.VInt(ex.as_int(a[0]), enum='pgpy.packet.types.MPI'))])
            val = lambda lo, k: sum([units[lo + j] * 256 ** (k - 1 - j) for j in range(k)], z3.IntVal(0))
            for as_bytes in (True, False):
                arg = E.VBytes(OUT) if as_bytes else ex.new_buf(st, OUT)
                for pi, (s, v) in enumerate(r.call(E.VObj(cls, 'sig'), [arg])):
                    paths += 1
                    tag = '%s/p%d' % ('bytes' if as_bytes else 'bytearray', pi)
                    if isinstance(v, E.Raise):
                        r.oblige(s, 'safety(%s)/%s' % (v.exc.split(':')[0], tag), z3.BoolVal(False), v.where)
                        continue
                    r.oblige(s, 'r-and-s-are-the-two-DER-integers/%s' % tag,
                             z3.And(ex.as_int(s.heap.get(('sig', 'r'))) == val(o_r + 2, lr), ex.as_int(s.heap.get(('sig', 's'))) == val(o_s + 2, ls)))
            res = r.result()
            obls += res['obligations']
            funcs = res['funcs']
        return {'obligations': obls, 'funcs': funcs, 'paths': paths}
    return Scenario(label, cls + '.from_signer', gen, props=('C02', 'C01'))


_base_scn_dsa = scenarios


def scenarios():
    return _base_scn_dsa() + [dsa_from_signer()]
