"""C09: partial body lengths (RFC 4880 4.2.2.4) - the chunk loop of Header.length_bin under an inductive, two-state loop contract.

The loop removes every chunk's length octets from the middle of the buffer, so that the chunk bodies end up adjacent. Invariant at the
loop head (T = `total`, b = the buffer):
    (1) 0 <= T and b[T:] is a suffix of the received octets           (what is still to be read has not been touched)
Step relation, for an arbitrary iteration from (b0, T0) to (b1, T1) (the pre-state is snapshotted as ghost state at the havoc):
    (2) b1[:T0] == b0[:T0]                                            (bodies collected so far are not touched)
    (3) the length field read is the one at b0[T0:]: size s in {1, 2, 5}, chunk length n per RFC 4880 4.2.2.1-4
    (4) b1[T0:] == b0[T0 + s:]   and   T1 == T0 + n                  (exactly the length octets are removed; the body stays in place)
By induction over the iterations (1)-(4) give: the buffer ends as  body_1 || ... || body_k || rest,  `_len` is the sum of the chunk
lengths, and the octets removed are exactly the length fields - which is specs.lengths.partial_chain. The induction itself is the
meta-argument; every obligation it needs is discharged here for an arbitrary iteration.
"""
import ast
import z3
from pyvc import scn, engine as E
from pyvc.runner import Scenario

B = E.BYTES
HDR = 'pgpy.types.Header'
ENABLED = True


def partial_chain():
    label = 'C09/Header.length_bin[new format, partial chain]'

    def gen(repo):
        r = scn.Run(repo, HDR, 'length_bin', label)
        ex, st = r.ex, r.st
        OLD = z3.Const('RECEIVED', B)
        L = z3.Length(OLD)
        st.pc += [L >= 1, OLD[0] >= 224, OLD[0] < 255]          # the first length octet announces a partial chunk
        buf = ex.new_buf(st, OLD)
        r.set('hdr', '_lenfmt', E.VInt(1))
        r.set('hdr', '_partial_ok', E.VBool(True))
        r.hook(HDR, '_partial_ok', scn.const(E.VBool(True)))
        nested = [x for x in ast.walk(r.node) if isinstance(x, ast.FunctionDef) and x.name == '_new_len']
        if len(nested) != 1:
            raise E.ToolLimit('length_bin no longer has the nested _new_len the loop contract is written for')
        loops = ex.register_loops('_new_len', nested[0])
        if len(loops) != 1 or not isinstance(loops[0], ast.While):
            raise E.ToolLimit('_new_len no longer has the single while loop the loop contract is written for')

        def total_of(st, env):
            e = env
            while e is not None:
                if 'total' in st.envs.get(e.eid, {}):
                    return ex.as_int(st.envs[e.eid]['total'])
                e = e.parent
            raise E.ToolLimit('loop variable `total` not found')

        def suffix(x, goal):
            n = z3.Length(x)
            want = z3.Extract(OLD, L - n, n)
            # as a hypothesis: the sequence equation itself; as a goal: pointwise at an arbitrary index (equivalent, decidable)
            return z3.And(n <= L, scn.same_octets(x, want) if goal else x == want)

        def inv(ex, st, env):
            b, T = st.heap[buf.cell], total_of(st, env)
            snap = st.ghost.get('snapshot')
            at_head = snap is not None and z3.eq(b, snap[0]) and z3.eq(T, snap[1])
            one = z3.And(T >= 0, suffix(z3.Extract(b, T, z3.Length(b) - T), goal=not at_head))
            if snap is None or at_head:
                return one                      # at a loop head (nothing has run since the snapshot): the one-state part only
            b0, T0 = snap
            fo = b0[T0]
            # the length field at b0[T0:] (RFC 4880 4.2.2): size and value; a partial chunk is 2^(fo & 31) octets
            size = z3.If(fo < 192, 1, z3.If(fo < 224, 2, z3.If(fo < 255, 1, 5)))
            two = (fo - 192) * 256 + b0[T0 + 1] + 192
            five = b0[T0 + 1] * 2 ** 24 + b0[T0 + 2] * 2 ** 16 + b0[T0 + 3] * 2 ** 8 + b0[T0 + 4]
            pw = z3.IntVal(1)
            for k in range(31):
                pw = z3.If(fo - 224 == k, 2 ** k, pw)
            n = z3.If(fo < 192, fo, z3.If(fo < 224, two, z3.If(fo < 255, pw, five)))
            complete = T0 + size <= z3.Length(b0)          # the whole length field is there (else: a truncated input, no claim about its value)
            step = z3.And(scn.same_octets(z3.Extract(b, 0, T0), z3.Extract(b0, 0, T0)),
                          z3.Implies(complete, z3.And(scn.same_octets(z3.Extract(b, T0, z3.Length(b) - T0), z3.Extract(b0, T0 + size, z3.Length(b0) - T0 - size)),
                                                      T == T0 + n)))
            return z3.And(one, step)

        def havoc(ex, st, env):
            b0 = E.fresh('buffer', B)
            st.heap[buf.cell] = b0
            e = env
            while e is not None:
                d = st.envs.get(e.eid, {})
                if 'total' in d:
                    T0 = E.fresh('total')
                    d['total'] = E.VInt(T0)
                    for nm in ('part_len', 'size'):
                        d[nm] = E.VInt(E.fresh(nm))
                    d['partial'] = E.VBool(E.fresh('partial', z3.BoolSort()))
                    st.ghost['snapshot'] = (b0, T0)
                    return
                e = e.parent
            raise E.ToolLimit('loop variable `total` not found')
        def at_entry(ex, st, env):
            # before the first iteration: the first length octet is gone, nothing else, and the first chunk is 2^(octet & 31) octets
            b, T = st.heap[buf.cell], total_of(st, env)
            pw = z3.IntVal(1)
            for k in range(31):
                pw = z3.If(OLD[0] - 224 == k, 2 ** k, pw)
            return z3.And(scn.same_octets(b, z3.Extract(OLD, 1, L - 1)), T == pw)
        ex.loops[('_new_len', 0)] = {'name': 'chunks', 'inv': inv, 'havoc': havoc, 'at_entry': at_entry}
        for pi, (s, v) in enumerate(r.call(E.VObj(HDR, 'hdr'), [buf])):
            if isinstance(v, E.Raise):
                r.oblige(s, 'only-IndexError(a-truncated-chain)/p%d' % pi, z3.BoolVal(v.exc.split(':')[0] == 'IndexError'), v.where)
                continue
            b = s.heap[buf.cell]
            T = ex.as_int(s.heap.get(('hdr', '_len')))
            r.oblige(s, 'length-is-the-number-of-body-octets-collected-at-the-front;what-follows-is-untouched-input/p%d' % pi,
                     z3.And(T >= 0, suffix(z3.Extract(b, T, z3.Length(b) - T), goal=True)))
        return r.result()
    return Scenario(label, HDR + '.length_bin', gen, props=('C09', 'C08', 'C20'))


def scenarios():
    return [partial_chain()]
