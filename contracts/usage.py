"""C16: key-usage policy (decorators.KeyAction, PGPKey._get_key_flags)."""
import z3
from pyvc import scn, engine as E
from pyvc.runner import Scenario

KA = 'pgpy.decorators.KeyAction'
KEY = 'pgpy.pgp.PGPKey'
COMPS = ['key', 'sk1', 'sk2']


def usage(nflags):
    """nflags: number of required flags of the action (0: none, 1: e.g. Sign, 2: encrypt-communications/storage)"""
    label = 'C16/KeyAction.usage[%d required flag%s]' % (nflags, '' if nflags == 1 else 's')

    def gen(repo):
        r = scn.Run(repo, KA, 'usage', label)
        ex, st = r.ex, r.st
        ex.yield_encoder = 'contextmanager'
        KF = repo.enum_members('pgpy.constants.KeyFlags')
        req = [E.VInt(KF[n], enum='pgpy.constants.KeyFlags') for n in ('EncryptCommunications', 'EncryptStorage')][:nflags]
        me = E.VObj(KA, 'action')
        r.set('action', 'flags', E.VSet(req))
        r.set('action', 'conditions', E.VDict([]))
        comps = {c: E.VObj(KEY, c) for c in COMPS}
        enforce = z3.Bool('require_usage_flags')
        r.set('key', '_require_usage_flags', E.VBool(enforce))
        # component c holds required flag j according to its own most recent self-signature: has[c][j] (symbolic)
        has = {c: [z3.Bool('%s_grants_flag%d' % (c, j)) for j in range(max(nflags, 1))] for c in COMPS}
        capable = {c: (z3.Or(*has[c][:nflags]) if nflags else z3.BoolVal(False)) for c in COMPS}
        other = E.VInt(KF['Authentication'], enum='pgpy.constants.KeyFlags')

        def get_flags(ex, st, o, a):
            st.ghost.setdefault('flag_queries', []).append((o.ref, a[0] if a else None))
            items, conds = [other], [z3.BoolVal(True)]
            for j in range(nflags):
                items.append(req[j])
                conds.append(has[o.ref][j])
            return [(st, E.VSet(items, conds))]
        r.hook(KEY, '_get_key_flags', scn.method_hook(get_flags))
        r.hook(KEY, 'subkeys', scn.const(E.VDict([(E.VStr(s='id1'), comps['sk1']), (E.VStr(s='id2'), comps['sk2'])])))
        r.hook(KEY, 'fingerprint', lambda ex, st, o, a: [(st, E.VStr(s='FPR-' + o.ref, cls=None))])
        user = E.VStr(z=z3.Const('USER', E.BYTES))
        outs = r.call(me, [comps['key'], user])
        for pi, (s, v) in enumerate(outs):
            ek = scn.exit_kind(v)
            tag = 'p%d' % pi
            if isinstance(v, E.Raise) and v.exc not in ('BlockException', 'BlockBaseException'):
                none_capable = z3.Not(z3.Or(*[capable[c] for c in COMPS]))
                r.oblige(s, 'refuses-only-with-PGPError-when-no-component-is-capable-and-enforcement-is-on/' + tag,
                         z3.And(z3.BoolVal(v.exc.split(':')[0] == 'PGPError' and nflags > 0), none_capable, enforce), v.where)
                r.oblige(s, 'refusal-before-the-action-runs/' + tag, z3.BoolVal(s.ghost.get('with_block') is None))
                continue
            y = s.ghost.get('yielded_value')
            ok = isinstance(y, E.VObj) and y.ref in COMPS
            r.oblige(s, 'yields-a-component-of-this-key/' + tag, z3.BoolVal(ok))
            if not ok:
                continue
            if nflags == 0:
                r.oblige(s, 'no-required-flag:the-key-itself/' + tag, z3.BoolVal(y.ref == 'key'))
                continue
            idx = COMPS.index(y.ref)
            anycap = z3.Or(*[capable[c] for c in COMPS])
            # first capable component in the order primary, subkeys; chosen component is capable; no earlier one is
            r.oblige(s, 'chosen-component-is-capable-or-enforcement-is-off/' + tag, z3.Or(capable[y.ref], z3.And(z3.Not(anycap), z3.Not(enforce))))
            r.oblige(s, 'no-earlier-component-is-capable/' + tag, z3.Not(z3.Or(*[capable[c] for c in COMPS[:idx]])) if idx else z3.BoolVal(True))
            r.oblige(s, 'capability-judged-for-the-requested-identity/' + tag,
                     z3.BoolVal(all(q[1] is user for q in s.ghost.get('flag_queries', []))))
        return r.result()
    return Scenario(label, KA + '.usage', gen, props=('C16',))


def check_attributes():
    label = 'C16/KeyAction.check_attributes'

    def gen(repo):
        r = scn.Run(repo, KA, 'check_attributes', label)
        ex, st = r.ex, r.st
        me = E.VObj(KA, 'action')
        want_unlocked, want_public = z3.Bool('expected_is_unlocked'), z3.Bool('expected_is_public')
        is_unlocked, is_public = z3.Bool('key_is_unlocked'), z3.Bool('key_is_public')
        r.set('action', 'conditions', E.VDict([(E.VStr(s='is_unlocked'), E.VBool(want_unlocked)), (E.VStr(s='is_public'), E.VBool(want_public))]))
        r.hook(KEY, 'is_unlocked', scn.const(E.VBool(is_unlocked)))
        r.hook(KEY, 'is_public', scn.const(E.VBool(is_public)))
        key = E.VObj(KEY, 'key')
        for pi, (s, v) in enumerate(r.call(me, [key])):
            good = z3.And(want_unlocked == is_unlocked, want_public == is_public)
            if isinstance(v, E.Raise):
                r.oblige(s, 'refuses-with-PGPError-iff-a-condition-is-not-met/p%d' % pi, z3.And(z3.BoolVal(v.exc.split(':')[0] == 'PGPError'), z3.Not(good)), v.where)
            else:
                r.oblige(s, 'passes-only-if-every-condition-is-met/p%d' % pi, good)
        return r.result()
    return Scenario(label, KA + '.check_attributes', gen, props=('C16', 'C07', 'C06'))


def action_wrapper(which):
    """the wrapper KeyAction puts around every key operation: order of the gates, and what the action is called with.
    which: 'other' (any action but certify) | 'certify-own-uid' | 'certify-foreign-uid'"""
    label = 'C16/KeyAction.__call__._action[%s]' % which

    def gen(repo):
        r = scn.Run(repo, KA, '__call__', label)
        ex, st = r.ex, r.st
        me = E.VObj(KA, 'action')
        key, chosen = E.VObj(KEY, 'key'), E.VObj(KEY, 'chosen')
        otherkey = E.VObj(KEY, 'otherkey')
        haskey, nouids, primary, usage_ok, attrs_key_ok, attrs_chosen_ok = [z3.Bool(n) for n in
            ('has_key_material', 'no_user_id', 'is_primary', 'a_component_may_act', 'conditions_hold_for_the_key', 'conditions_hold_for_the_chosen_component')]

        def keypkt(ex, st, o, a):
            s2 = st.clone()
            st.pc.append(haskey)
            s2.pc.append(z3.Not(haskey))
            return [(st, E.VObj('pgpy.packet.packets.PrivKeyV4', 'pkt')), (s2, E.VNone())]
        r.hook(KEY, '_key', keypkt)

        def uids(ex, st, o, a):
            s2 = st.clone()
            st.pc.append(nouids)
            s2.pc.append(z3.Not(nouids))
            return [(st, ex.new_list(st, [])), (s2, ex.new_list(s2, [E.VObj('pgpy.pgp.PGPUID', 'uid0')]))]
        r.hook(KEY, '_uids', uids)
        r.hook(KEY, 'is_primary', scn.const(E.VBool(primary)))
        wrapped_certify = E.VExt('the-certify-function', ())
        other_action = E.VExt('some-other-action', ())
        cert = E.VExt('certify-bound-method', ())
        r.hook(KEY, 'certify', scn.const(cert))
        ex.hooks[('ext:certify-bound-method', '__wrapped__')] = lambda ex, st, o, a: [(st, wrapped_certify)]
        ex.hooks[('ext:certify-bound-method', '__wrapped__')].is_method = False
        subject = E.VObj('pgpy.pgp.PGPUID', 'subject')
        r.hook('pgpy.types.ParentRef', 'parent', lambda ex, st, o, a: [(st, key if which == 'certify-own-uid' else otherkey)])
        r.hook('pgpy.pgp.PGPUID', 'is_uid', scn.const(E.VBool(True)))

        def usage(ex, st, o, a):
            st.ghost['order'] = st.ghost.get('order', ()) + ('usage',)
            s2 = st.clone()
            st.pc.append(usage_ok)
            s2.pc.append(z3.Not(usage_ok))
            return [(st, E.VCtx(chosen)), (s2, E.Raise('PGPError', 0))]
        r.hook(KA, 'usage', scn.method_hook(usage))

        def chk(ex, st, o, a):
            which_obj = a[0].ref
            st.ghost['order'] = st.ghost.get('order', ()) + ('check:' + which_obj,)
            cond = attrs_key_ok if which_obj == 'key' else attrs_chosen_ok
            s2 = st.clone()
            st.pc.append(cond)
            s2.pc.append(z3.Not(cond))
            return [(st, E.VNone()), (s2, E.Raise('PGPError', 0))]
        r.hook(KA, 'check_attributes', scn.method_hook(chk))
        RES = E.VExt('result-of-action', ())
        act = other_action if which == 'other' else wrapped_certify

        def do_action(ex, st, o, a):
            st.ghost['order'] = st.ghost.get('order', ()) + ('action',)
            st.ghost['action_args'] = a
            return [(st, RES)]
        ex.hooks[('ext:' + act.name, '__call__')] = do_action
        outs = r.call(me, [act])
        n = 0
        for s0, wrapper in outs:
            if isinstance(wrapper, E.Raise) or not isinstance(wrapper, E.VFunc):
                r.oblige(s0, 'decorator-returns-the-wrapper', z3.BoolVal(False))
                continue
            for pi, (s, v) in enumerate(ex.call(wrapper, [key, subject], {}, s0, {'mod': 'pgpy.decorators'}, None, None)):
                n += 1
                order = s.ghost.get('order', ())
                first_ok = which == 'certify-own-uid'
                complete = z3.Or(z3.Not(nouids), z3.Not(primary), z3.BoolVal(first_ok))
                if isinstance(v, E.Raise):
                    r.oblige(s, 'refusals-are-PGPError/p%d' % pi, z3.BoolVal(v.exc.split(':')[0] == 'PGPError'), v.where)
                    r.oblige(s, 'refused=>the-action-did-not-run/p%d' % pi, z3.BoolVal('action' not in order))
                    r.oblige(s, 'refuses-only-when-a-gate-fails/p%d' % pi, z3.Not(z3.And(haskey, complete, usage_ok, attrs_key_ok, attrs_chosen_ok)))
                    continue
                r.oblige(s, 'runs-only-with-key-material,identity-gate,usage,conditions/p%d' % pi, z3.And(haskey, complete, usage_ok, attrs_key_ok, attrs_chosen_ok))
                r.oblige(s, 'gates-before-the-action:usage,conditions-of-key-and-of-the-chosen-component/p%d' % pi,
                         z3.BoolVal(order == ('usage', 'check:key', 'check:chosen', 'action')))
                aa = s.ghost.get('action_args')
                r.oblige(s, 'action-runs-on-the-chosen-component-with-the-caller-arguments/p%d' % pi, z3.BoolVal(aa is not None and aa[0] is chosen and aa[1] is subject and v is RES))
        r.oblige(r.st, 'cover-paths', z3.BoolVal(n >= 4))
        return r.result()
    return Scenario(label, KA + '.__call__', gen, props=('C16', 'C07', 'C06'))


def sig_key_flags(case):
    """PGPSignature.key_flags: the capabilities a self-signature or binding signature GRANTS are the ones its issuer signed - the Key Flags
    subpacket of the hashed area. A Key Flags subpacket in the unhashed area (which anybody can append to a valid signature) grants nothing:
    with no hashed one the answer is the empty set or an error, never the appended flags."""
    label = 'C16/PGPSignature.key_flags[%s]' % case
    SIG, SPC, KF = 'pgpy.pgp.PGPSignature', 'pgpy.packet.fields.SubPackets', 'pgpy.packet.subpackets.signature.KeyFlags'

    def gen(repo):
        r = scn.Run(repo, SIG, 'key_flags', label)
        ex, st = r.ex, r.st
        r.set('sig', '_signature', E.VObj('pgpy.packet.packets.SignatureV4', 'spkt'))
        r.set('spkt', 'subpackets', E.VObj(SPC, 'subp'))
        hashed, unhashed = E.VObj(KF, 'kf-hashed'), E.VObj(KF, 'kf-unhashed')
        FH = E.VSet([E.VInt(v, enum='pgpy.constants.KeyFlags') for v in (1, 2, 4, 8)], [z3.Bool('signed_flag_%d' % v) for v in (1, 2, 4, 8)])
        FU = E.VSet([E.VInt(v, enum='pgpy.constants.KeyFlags') for v in (1, 2, 4, 8)], [z3.Bool('appended_flag_%d' % v) for v in (1, 2, 4, 8)])
        r.hook(KF, 'flags', lambda ex, st, o, a: [(st, FH if o.ref == 'kf-hashed' else FU)])
        hs = [hashed] if case.startswith('hashed') else []
        us = [unhashed] if 'unhashed' in case else []

        def contains(ex, st, o, a):
            name = a[0].s
            return [(st, E.VBool({'KeyFlags': bool(hs or us), 'h_KeyFlags': bool(hs)}.get(name, False)))]

        def getitem(ex, st, o, a):
            name = a[0].s
            return [(st, ex.new_list(st, {'KeyFlags': hs + us, 'h_KeyFlags': hs}.get(name, [])))]       # hashed subpackets are listed first
        r.hook(SPC, '__contains__', scn.method_hook(contains))
        r.hook(SPC, '__getitem__', scn.method_hook(getitem))
        for pi, (s, v) in enumerate(r.call(E.VObj(SIG, 'sig'), [])):
            if isinstance(v, E.Raise):
                r.oblige(s, 'an-error-only-when-there-is-no-signed-subpacket-to-read/p%d' % pi, z3.BoolVal(case == 'unhashed only'), v.where)
                continue
            if hs:
                r.oblige(s, 'the-flags-of-the-signed-subpacket/p%d' % pi, z3.BoolVal(v is FH))
            else:
                empty = isinstance(v, E.VSet) and not v.view(s).items
                r.oblige(s, 'nothing-is-granted-without-a-signed-subpacket(appended-flags-do-not-count)/p%d' % pi, z3.BoolVal(bool(empty)))
        return r.result()
    return Scenario(label, SIG + '.key_flags', gen, props=('C16', 'C15'))


def get_key_flags():
    """which signature decides a component's capabilities"""
    label = 'C16/PGPKey._get_key_flags'

    def gen(repo):
        obls, funcs, paths = [], [], 0
        # (a) subkey: flags of the LAST (most recent: the deque is sorted by creation time, stable) binding signature
        r = scn.Run(repo, KEY, '_get_key_flags', label + '[subkey]')
        ex, st = r.ex, r.st
        sub = E.VObj(KEY, 'sub')
        r.hook(KEY, 'is_primary', scn.const(E.VBool(False)))
        sigs = [E.VObj('pgpy.pgp.PGPSignature', 'bind%d' % i) for i in range(3)]
        r.hook(KEY, 'self_signatures', lambda ex, st, o, a: [(st, ex.new_list(st, sigs))])
        FL = {x.ref: E.VSet([E.VInt(z3.Int('flag_of_' + x.ref))]) for x in sigs}
        r.hook('pgpy.pgp.PGPSignature', 'key_flags', lambda ex, st, o, a: [(st, FL[o.ref])])
        for pi, (s, v) in enumerate(r.call(sub, [E.VNone()])):
            paths += 1
            if isinstance(v, E.Raise):
                r.oblige(s, 'safety/p%d' % pi, z3.BoolVal(False), v.where)
                continue
            r.oblige(s, 'flags-of-the-most-recent-binding-signature/p%d' % pi, z3.BoolVal(v is FL['bind2']))
        res = r.result()
        obls += res['obligations']
        funcs += res['funcs']
        # (b) primary: Certify always, plus the flags of the chosen identity's self-signature
        r2 = scn.Run(repo, KEY, '_get_key_flags', label + '[primary]')
        ex, st = r2.ex, r2.st
        prim = E.VObj(KEY, 'prim')
        KF = repo.enum_members('pgpy.constants.KeyFlags')
        r2.hook(KEY, 'is_primary', scn.const(E.VBool(True)))
        uid = E.VObj('pgpy.pgp.PGPUID', 'uid')
        selfsig = E.VObj('pgpy.pgp.PGPSignature', 'selfsig')
        F = z3.Int('flag_of_selfsig')
        r2.hook(KEY, 'get_uid', scn.mconst(uid))
        r2.hook('pgpy.pgp.PGPUID', 'selfsig', scn.const(selfsig))
        F2 = z3.Int('flag_of_the_more_recent_selfsig_it_got_since')
        r2.hook('pgpy.pgp.PGPSignature', 'key_flags', lambda ex, st, o, a: [(st, E.VSet([E.VInt(F2 if st.ghost.get('epoch') else F, enum='pgpy.constants.KeyFlags')]))])
        r2.hook('pgpy.pgp.PGPSignature', '__bool__', scn.mconst(E.VBool(True)))
        for pi, (s, v) in enumerate(r2.call(prim, [E.VStr(s='someone')])):
            paths += 1
            if isinstance(v, E.Raise):
                r2.oblige(s, 'safety/p%d' % pi, z3.BoolVal(False), v.where)
                continue
            ok = isinstance(v, E.VSet) and v.conds is None
            r2.oblige(s, 'is-a-set/p%d' % pi, z3.BoolVal(ok))
            if ok:
                vals = [ex.as_int(x) for x in v.items]
                r2.oblige(s, 'certify-always-and-the-identity-self-signature-flags/p%d' % pi,
                          z3.And(z3.Or(*[x == KF['Certify'] for x in vals]), z3.Or(*[x == F for x in vals]),
                                 *[z3.Or(x == KF['Certify'], x == F) for x in vals]))
            # no hidden state: asked again for the same identity after it got a more recent self-signature (attached to the identity, not to the key)
            s.ghost['epoch'] = 1
            for qi, (s3, v3) in enumerate(ex.call_func(E.VFunc(r2.node, None, cls=r2.dcls, self_val=prim, mod=r2.mod), [E.VStr(s='someone')], {}, s, {'mod': r2.mod})):
                paths += 1
                if isinstance(v3, E.Raise):
                    r2.oblige(s3, 'second-call:safety/p%d.%d' % (pi, qi), z3.BoolVal(False), v3.where)
                    continue
                ok3 = isinstance(v3, E.VSet) and v3.conds is None
                vals3 = [ex.as_int(x) for x in v3.items] if ok3 else []
                r2.oblige(s3, 'second-call-after-a-more-recent-self-signature:certify-and-ITS-flags/p%d.%d' % (pi, qi),
                          z3.And(z3.BoolVal(ok3), z3.Or(*[x == F2 for x in vals3]) if vals3 else z3.BoolVal(False), *[z3.Or(x == KF['Certify'], x == F2) for x in vals3]))
        res2 = r2.result()
        return {'obligations': obls + res2['obligations'], 'funcs': funcs + res2['funcs'], 'paths': paths}
    return Scenario(label, KEY + '._get_key_flags', gen, props=('C16', 'C15'))


def scenarios():
    return [usage(0), usage(1), usage(2), check_attributes(), get_key_flags()] + [sig_key_flags(c) for c in ('hashed', 'hashed and unhashed', 'unhashed only', 'none')] + [action_wrapper(w) for w in ('other', 'certify-own-uid', 'certify-foreign-uid')]
