"""C03 / C04 / C13: session-key packets, integrity-protected data, symmetric glue, fresh randomness."""
import hashlib
import z3
from pyvc import scn, engine as E
from pyvc.runner import Scenario
from pyvc.scn import U, cat, be, lit

B = E.BYTES
SEIPD = 'pgpy.packet.packets.IntegrityProtectedSKEDataV1'
PKESK = 'pgpy.packet.packets.PKESessionKeyV3'
SKESK = 'pgpy.packet.packets.SKESessionKeyV4'
SHA1ID = z3.IntVal(int(hashlib.sha256(b'sha1').hexdigest()[:6], 16))
SHA1ID_UP = z3.IntVal(int(hashlib.sha256(b'SHA1').hexdigest()[:6], 16))
CIPHERS = {'AES256': (9, 128, 256), 'TripleDES': (2, 64, 192), 'CAST5': (3, 64, 128), 'AES128': (7, 128, 128)}


def seipd_decrypt(cname):
    algid, bsbits, _ = CIPHERS[cname]
    bs = bsbits // 8
    label = 'C04/IntegrityProtectedSKEDataV1.decrypt[%s]' % cname

    def gen(repo):
        r = scn.Run(repo, SEIPD, 'decrypt', label)
        ex, st = r.ex, r.st
        scn.cipher_facts(r)
        CT, KEYB, PT = z3.Const('CIPHERTEXT', B), z3.Const('SESSION_KEY', B), z3.Const('DECRYPTED', B)
        me = E.VObj(SEIPD, 'pkt')
        r.set('pkt', 'ct', ex.new_buf(st, CT))
        alg = E.VInt(algid, enum='pgpy.constants.SymmetricKeyAlgorithm')

        KEY2, PT2 = z3.Const('ANOTHER_KEY', B), z3.Const('DECRYPTED_UNDER_ANOTHER_KEY', B)

        def dec(ex, st, o, a):
            st.ghost['dec_args'] = a
            st.ghost['dec_calls'] = st.ghost.get('dec_calls', 0) + 1
            # the external cipher: a different key gives a different (unrelated) octet string
            return [(st, ex.new_buf(st, PT2 if z3.eq(z3.simplify(ex.seq(a[1], st)), KEY2) else PT))]
        ex.fhooks['pgpy.symenc._decrypt'] = dec
        n = z3.Length(PT)
        mdc_ok = z3.And(n >= 22, z3.Extract(PT, n - 22, 22) == cat(U(0xD3), U(0x14), E.HFN(SHA1ID_UP, z3.Extract(PT, 0, n - 20))))
        quick_ok = z3.And(n >= bs + 2, z3.Extract(PT, bs - 2, 2) == z3.Extract(PT, bs, 2))
        nret = 0
        for pi, (s, v) in enumerate(r.call(me, [E.VBytes(KEYB), alg])):
            if isinstance(v, E.Raise):
                r.oblige(s, 'rejects-only-with-PGPDecryptionError/p%d' % pi, z3.BoolVal(v.exc.split(':')[0] == 'PGPDecryptionError'), v.where)
                r.oblige(s, 'rejects-only-when-a-check-fails/p%d' % pi, z3.Not(z3.And(mdc_ok, quick_ok)))
                continue
            nret += 1
            r.oblige(s, 'accepted=>modification-detection-code-matches(D3 14 || SHA1 of everything before)/p%d' % pi, mdc_ok)
            r.oblige(s, 'accepted=>prefix-repeats-its-last-two-octets/p%d' % pi, quick_ok)
            r.oblige(s, 'returns-exactly-the-octets-after-the-prefix/p%d' % pi, ex.seq(v, s) == z3.Extract(PT, bs + 2, n - bs - 2))
            a = s.ghost.get('dec_args')
            r.oblige(s, 'decrypts-the-packet-ciphertext-with-the-given-key-and-cipher-zero-iv/p%d' % pi,
                     z3.And(z3.BoolVal(a is not None and len(a) == 3), z3.And(ex.seq(a[0], s) == CT, ex.seq(a[1], s) == KEYB, ex.as_int(a[2]) == algid)
                            if a is not None and len(a) == 3 else z3.BoolVal(False)))
            # no hidden state: after a successful decryption, a second call with ANOTHER key goes through the cipher and both checks again
            n2 = z3.Length(PT2)
            mdc2 = z3.And(n2 >= 22, z3.Extract(PT2, n2 - 22, 22) == cat(U(0xD3), U(0x14), E.HFN(SHA1ID_UP, z3.Extract(PT2, 0, n2 - 20))))
            quick2 = z3.And(n2 >= bs + 2, z3.Extract(PT2, bs - 2, 2) == z3.Extract(PT2, bs, 2))
            calls = s.ghost.get('dec_calls', 0)
            for qi, (s2, v2) in enumerate(ex.call_func(E.VFunc(r.node, None, cls=r.dcls, self_val=me, mod=r.mod), [E.VBytes(KEY2), alg], {}, s, {'mod': r.mod})):
                if isinstance(v2, E.Raise):
                    r.oblige(s2, 'second-call-with-another-key:rejects-only-with-PGPDecryptionError-when-a-check-fails/p%d.%d' % (pi, qi),
                             z3.And(z3.BoolVal(v2.exc.split(':')[0] == 'PGPDecryptionError'), z3.Not(z3.And(mdc2, quick2))), v2.where)
                    continue
                r.oblige(s2, 'second-call-with-another-key:accepted=>the-cipher-ran-again-and-both-checks-hold-for-ITS-output/p%d.%d' % (pi, qi),
                         z3.And(z3.BoolVal(s2.ghost.get('dec_calls', 0) == calls + 1), mdc2, quick2))
                r.oblige(s2, 'second-call-with-another-key:returns-the-octets-decrypted-under-that-key/p%d.%d' % (pi, qi),
                         ex.seq(v2, s2) == z3.Extract(PT2, bs + 2, n2 - bs - 2))
        r.oblige(st, 'cover-accepting-path', z3.BoolVal(nret > 0))
        return r.result()
    def native(rng, n):
        """well-formed containers made by the independent side (lengths as for encrypt) are opened to their data; one flipped octet is refused"""
        import hashlib as H
        from cryptography.hazmat.primitives.ciphers import Cipher, modes
        from pgpy.packet.packets import IntegrityProtectedSKEDataV1
        from pgpy.constants import SymmetricKeyAlgorithm
        from pgpy.errors import PGPDecryptionError
        from specs import indep
        alg = SymmetricKeyAlgorithm(algid)
        ccls, klen, _ = indep.CIPHERS[algid]
        # data lengths that put the hashed octets - and, second list, the whole ciphertext (prefix + data + 22) - on and next to multiples of
        # the sizes an implementation may work in (cipher block, page, 64 KiB chunk)
        lens = [0, 1, bs, 64, 100] + [m * k - (bs + 2) + d for m in (64, 4096, 65536) for k in (1, 2) for d in (-1, 0, 1)] + \
               [m * k - (bs + 2) - 22 + d for m in (64, 4096, 65536) for k in (1, 2) for d in (-1, 0, 1)] + \
               [rng.randrange(0, 5000) for _ in range(max(4, n // 50))]
        viol, cases = [], 0
        for ln in lens:
            if ln < 0:
                continue
            data = (bytes(rng.getrandbits(8) for _ in range(min(ln, 256))) * (ln // 256 + 1))[:ln]
            key, pre = bytes(rng.getrandbits(8) for _ in range(klen)), bytes(rng.getrandbits(8) for _ in range(bs))
            body = pre + pre[-2:] + data + b'\xd3\x14'
            body += H.sha1(body).digest()
            e = Cipher(ccls(key), modes.CFB(b'\x00' * bs)).encryptor()
            ct = e.update(body) + e.finalize()
            for flip in (None, rng.randrange(len(ct))):
                cases += 1
                c2 = bytearray(ct)
                if flip is not None:
                    c2[flip] ^= 0x01
                pkt = IntegrityProtectedSKEDataV1()
                pkt.ct = bytearray(c2)
                why = None
                try:
                    out = bytes(pkt.decrypt(key, alg))
                    if flip is None and out != body[bs + 2:]:          # everything after the prefix (the MDC packet included: the caller parses it)
                        why = 'a well-formed container opens to other octets'
                    elif flip is not None:
                        why = 'a container with one flipped octet is accepted'
                except PGPDecryptionError:
                    if flip is None:
                        why = 'a well-formed container is refused (PGPDecryptionError)'
                except Exception as ex:
                    why = 'raised %s: %s' % (type(ex).__name__, str(ex)[:60])
                if why:
                    viol.append({'args': {'cipher': cname, 'data_octets': ln, 'hashed_octets': ln + bs + 2 + 2, 'flipped_octet': flip}, 'violation': why})
                    return {'cases': cases, 'violations': viol}
        return {'cases': cases, 'violations': viol}
    return Scenario(label, SEIPD + '.decrypt', gen, props=('C04', 'C03'), native=native)


def seipd_encrypt(cname):
    algid, bsbits, _ = CIPHERS[cname]
    bs = bsbits // 8
    label = 'C03/IntegrityProtectedSKEDataV1.encrypt[%s]' % cname

    def gen(repo):
        r = scn.Run(repo, SEIPD, 'encrypt', label)
        ex, st = r.ex, r.st
        scn.cipher_facts(r)
        DATA, KEYB, CT = z3.Const('PLAINTEXT_PACKETS', B), z3.Const('SESSION_KEY', B), z3.Const('CIPHERTEXT', B)
        me = E.VObj(SEIPD, 'pkt')
        r.set('pkt', 'ct', ex.new_buf(st, z3.Empty(B)))
        alg = E.VInt(algid, enum='pgpy.constants.SymmetricKeyAlgorithm')
        MDCPKT = z3.Function('MDC_PACKET_WITH_HEX_DIGEST', B, B)
        MDC = 'pgpy.packet.packets.MDC'
        r.hook(MDC, '__call__', lambda ex, st, cls, a: [(st, E.VObj(MDC, E.fresh('mdc')))])
        r.hook(MDC, 'update_hlen', scn.mconst(E.VNone()))

        def mdc_bytes(ex, st, o, a):
            f = st.heap.get(('sym:' + str(z3.simplify(o.ref)), 'mdc')) or st.heap.get((o.ref, 'mdc'))
            if f is None:
                raise E.ToolLimit('MDC packet serialised before its digest was set')
            return [(st, E.VBytes(MDCPKT(ex.strseq(f) if isinstance(f, E.VStr) else ex.seq(f, st))))]
        r.hook(MDC, '__bytes__', scn.method_hook(mdc_bytes))

        def mdc_set(ex, st, o, a):
            return [(st, E.VNone())]
        r.hook(SEIPD, 'update_hlen', scn.mconst(E.VNone()))

        def enc(ex, st, o, a):
            st.ghost['enc_args'] = a
            return [(st, ex.new_buf(st, CT))]
        ex.fhooks['pgpy.symenc._encrypt'] = enc
        for pi, (s, v) in enumerate(r.call(me, [E.VBytes(KEYB), alg, E.VBytes(DATA)])):
            if isinstance(v, E.Raise):
                r.oblige(s, 'safety(%s)/p%d' % (v.exc.split(':')[0], pi), z3.BoolVal(False), v.where)
                continue
            draws = s.ghost.get('rand', ())
            r.oblige(s, 'one-fresh-random-prefix-of-block-size/p%d' % pi, z3.And(z3.BoolVal(len(draws) == 1), draws[0][0] == bs if draws else z3.BoolVal(False)))
            a = s.ghost.get('enc_args')
            r.oblige(s, 'encrypted-once-with-zero-iv/p%d' % pi, z3.BoolVal(a is not None and len(a) == 3))
            if not draws or a is None:
                continue
            R = draws[0][1]
            pre = cat(R, z3.Extract(R, bs - 2, 2), DATA)
            HEX = z3.Function('HEXLIFY', B, B)
            want = cat(pre, MDCPKT(HEX(E.HFN(SHA1ID_UP, cat(pre, U(0xD3), U(0x14))))))
            r.oblige(s, 'rfc4880-5.13-plaintext:prefix||repeat||data||mdc(sha1(prefix||repeat||data||D3 14))/p%d' % pi, ex.seq(a[0], s) == want)
            r.oblige(s, 'under-the-session-key-and-cipher/p%d' % pi, z3.And(ex.seq(a[1], s) == KEYB, ex.as_int(a[2]) == algid))
            r.oblige(s, 'packet-holds-the-ciphertext/p%d' % pi, ex.seq(s.heap[('pkt', 'ct')], s) == CT)
        return r.result()
    def native(rng, n):
        """the real packet against an independent RFC 4880 5.13 reader; data lengths include the ones that make the hashed stretch a multiple
        of the sizes implementations hash in (64 octets: a SHA-1 block; 4 KiB; 64 KiB)"""
        import hashlib as H
        from pgpy.packet.packets import IntegrityProtectedSKEDataV1
        from pgpy.constants import SymmetricKeyAlgorithm
        from specs import indep
        alg = SymmetricKeyAlgorithm(algid)
        klen = indep.CIPHERS[algid][1]
        lens = [0, 1, 2, bs - 2, bs, 63, 64, 100] + [m * k - (bs + 2) + d for m in (64, 4096, 65536) for k in (1, 2) for d in (-1, 0, 1)] + \
               [rng.randrange(0, 5000) for _ in range(max(4, n // 50))]
        viol, cases = [], 0
        for ln in lens:
            if ln < 0:
                continue
            data, key = bytes(rng.getrandbits(8) for _ in range(min(ln, 256))) * (ln // 256 + 1), bytes(rng.getrandbits(8) for _ in range(klen))
            data = data[:ln]
            cases += 1
            pkt = IntegrityProtectedSKEDataV1()
            try:
                pkt.encrypt(key, alg, data)
                pt = indep.cfb_decrypt(algid, key, bytes(pkt.ct))
                why = None
                if pt[bs - 2:bs] != pt[bs:bs + 2]:
                    why = 'prefix does not repeat its last two octets'
                elif pt[bs + 2:-22] != data:
                    why = 'the data is not what follows the prefix'
                elif pt[-22:] != b'\xd3\x14' + H.sha1(pt[:-20]).digest():
                    why = 'modification detection code is not D3 14 || SHA-1(prefix || data || D3 14)'
            except Exception as ex:
                why = 'raised %s: %s' % (type(ex).__name__, str(ex)[:60])
            if why:
                viol.append({'args': {'cipher': cname, 'data_octets': ln, 'hashed_octets': ln + bs + 2 + 2}, 'violation': why})
                break
        return {'cases': cases, 'violations': viol}
    return Scenario(label, SEIPD + '.encrypt', gen, props=('C03', 'C13'), native=native)


def symenc(direction):
    fn = '_encrypt' if direction == 'encrypt' else '_decrypt'
    label = 'C03/symenc.%s' % fn

    def gen(repo):
        q = 'pgpy.symenc.' + fn
        if q not in repo.functions:
            raise E.ToolLimit(q + ' not found')
        node = repo.functions[q]
        info = {'qualname': q, 'file': repo.paths.get('pgpy.symenc'), 'line': node.lineno, 'sha256': repo.func_sha(node)}
        obls = []
        paths = 0
        for cname, (algid, bsbits, _) in CIPHERS.items():
            for with_iv in (False, True):
                ex = E.Exec(repo)
                ex.label = label
                st = E.State()
                IN, KEYB, IV, OUT1, OUT2 = [z3.Const(n, B) for n in ('INPUT', 'KEY', 'IV', 'EXT_UPDATE_OUTPUT', 'EXT_FINALIZE_OUTPUT')]
                insecure, supported = z3.Bool('is_insecure'), z3.Bool('is_supported')
                ex.hooks[('pgpy.constants.SymmetricKeyAlgorithm', 'block_size')] = scn.const(E.VInt(bsbits))
                ex.hooks[('pgpy.constants.SymmetricKeyAlgorithm', 'is_insecure')] = scn.const(E.VBool(insecure))
                ex.hooks[('pgpy.constants.SymmetricKeyAlgorithm', 'is_supported')] = scn.const(E.VBool(supported))
                ex.hooks[('pgpy.constants.SymmetricKeyAlgorithm', 'cipher')] = scn.const(E.VExt('algorithms.X', ()))
                ex.hooks[('pgpy.constants.SymmetricKeyAlgorithm', 'name')] = scn.const(E.VStr(s=cname))

                def upd(ex, st, o, a):
                    st.ghost['ext_input'] = a[0]
                    st.ghost['ext_obj'] = o
                    return [(st, E.VBytes(OUT1))]
                for kind in ('encryptor', 'decryptor'):
                    ex.hooks[('ext:Cipher.' + kind, 'update')] = upd
                    ex.hooks[('ext:Cipher.' + kind, 'finalize')] = lambda ex, st, o, a: [(st, E.VBytes(OUT2))]
                alg = E.VInt(algid, enum='pgpy.constants.SymmetricKeyAlgorithm')
                args = [E.VBytes(IN), E.VBytes(KEYB), alg] + ([E.VBytes(IV)] if with_iv else [])
                outs = ex.call_func(E.VFunc(node, None, mod='pgpy.symenc'), args, {}, st, {'mod': 'pgpy.symenc'})
                tag = '%s,%s' % (cname, 'iv given' if with_iv else 'no iv')
                for pi, (s, v) in enumerate(outs):
                    paths += 1
                    H = list(s.facts) + list(s.pc)
                    if isinstance(v, E.Raise):
                        exc = v.exc.split(':')[0]
                        if direction == 'encrypt':
                            obls.append(('%s[%s]/refuses-only-insecure-or-unsupported-ciphers(%s)/p%d' % (label, tag, exc, pi), H,
                                         z3.Or(z3.And(z3.BoolVal(exc == 'PGPInsecureCipherError'), insecure), z3.And(z3.BoolVal(exc == 'PGPEncryptionError'), z3.Not(supported)))))
                        else:
                            obls.append(('%s[%s]/safety(%s)/p%d' % (label, tag, exc, pi), H, z3.BoolVal(False)))
                        continue
                    if direction == 'encrypt':
                        obls.append(('%s[%s]/never-encrypts-with-an-insecure-or-unsupported-cipher/p%d' % (label, tag, pi), H, z3.And(z3.Not(insecure), supported)))
                    o = s.ghost.get('ext_obj')
                    ok = o is not None and o.name == ('Cipher.encryptor' if direction == 'encrypt' else 'Cipher.decryptor')
                    obls.append(('%s[%s]/uses-the-cfb-%s-of-the-cipher/p%d' % (label, tag, direction + 'or', pi), H, z3.BoolVal(bool(ok))))
                    if not ok:
                        continue
                    cipher = o.args[0]
                    shape = isinstance(cipher, E.VExt) and cipher.name == 'Cipher' and len(cipher.args) >= 2 and isinstance(cipher.args[1], E.VExt) and cipher.args[1].name == 'modes.CFB'
                    obls.append(('%s[%s]/cipher-object-shape/p%d' % (label, tag, pi), H, z3.BoolVal(bool(shape))))
                    if not shape:
                        continue
                    keyarg = cipher.args[0]
                    obls.append(('%s[%s]/keyed-with-the-given-key/p%d' % (label, tag, pi), H,
                                 z3.And(z3.BoolVal(isinstance(keyarg, E.VExt) and keyarg.name.startswith('algorithms.X')),
                                        ex.seq(keyarg.args[-1], s) == KEYB if isinstance(keyarg, E.VExt) and keyarg.args else z3.BoolVal(False))))
                    ivarg = ex.seq(cipher.args[1].args[0], s)
                    if with_iv:
                        obls.append(('%s[%s]/iv-is-the-given-iv/p%d' % (label, tag, pi), H, ivarg == IV))
                    else:
                        obls.append(('%s[%s]/iv-is-all-zero-of-block-size/p%d' % (label, tag, pi), H, ivarg == lit(bytes(bsbits // 8))))
                    obls.append(('%s[%s]/whole-input-processed-and-output-is-update||finalize/p%d' % (label, tag, pi), H,
                                 z3.And(ex.seq(s.ghost['ext_input'], s) == IN, ex.seq(v, s) == cat(OUT1, OUT2))))
        return {'obligations': obls, 'funcs': [info], 'paths': paths}
    return Scenario(label, 'pgpy.symenc.' + fn, gen, props=('C03', 'C04', 'C06'))


def pkesk_encrypt(kind):
    label = 'C03/PKESessionKeyV3.encrypt_sk[%s]' % kind

    def gen(repo):
        r = scn.Run(repo, PKESK, 'encrypt_sk', label)
        ex, st = r.ex, r.st
        PA = repo.enum_members('pgpy.constants.PubKeyAlgorithm')
        me = E.VObj(PKESK, 'pkt')
        r.set('pkt', '_pkalg', E.VInt(PA['RSAEncryptOrSign'] if kind == 'RSA' else PA['ECDH'], enum='pgpy.constants.PubKeyAlgorithm'))
        ctcls = 'pgpy.packet.fields.RSACipherText' if kind == 'RSA' else 'pgpy.packet.fields.ECDHCipherText'
        r.set('pkt', 'ct', E.VObj(ctcls, 'ct'))
        pk = E.VObj('pgpy.packet.packets.PubKeyV4', 'recipient')
        r.set('recipient', 'keymaterial', E.VObj('pgpy.packet.fields.RSAPub', 'km'))
        PUB = E.VExt('recipient-public-key', ())
        r.hook('pgpy.packet.fields.RSAPub', '__pubkey__', scn.mconst(PUB))
        NEWCT = E.VObj(ctcls, 'newct')

        def ct_encrypt(ex, st, o, a):
            st.ghost['ct_encrypt_args'] = a
            return [(st, NEWCT)]
        r.hook('pgpy.packet.fields.CipherText', 'encrypt', scn.method_hook(ct_encrypt))
        r.hook(PKESK, 'update_hlen', scn.mconst(E.VNone()))
        KEYB = z3.Const('SESSION_KEY', B)
        algv = z3.Int('symalg')
        st.pc += [algv >= 0, algv < 256]
        SUMOCT = z3.Function('SUM_OF_OCTETS', B, z3.IntSort())
        for pi, (s, v) in enumerate(r.call(me, [pk, E.VInt(algv, enum='pgpy.constants.SymmetricKeyAlgorithm'), E.VBytes(KEYB)])):
            if isinstance(v, E.Raise):
                r.oblige(s, 'safety(%s)/p%d' % (v.exc.split(':')[0], pi), z3.BoolVal(False), v.where)
                continue
            a = s.ghost.get('ct_encrypt_args')
            r.oblige(s, 'encrypted-once/p%d' % pi, z3.BoolVal(a is not None))
            if a is None:
                continue
            m = cat(U(algv), KEYB, be(SUMOCT(KEYB) % 65536, 2))
            if kind == 'RSA':
                okshape = len(a) == 3 and isinstance(a[0], E.VBuiltin) and a[0].name == 'extmethod' and a[0].bound[0] is PUB and a[0].bound[1] == 'encrypt' \
                    and isinstance(a[2], E.VExt) and a[2].name == 'padding.PKCS1v15'
                r.oblige(s, 'rsa:pkcs1v15-under-the-recipient-public-key/p%d' % pi, z3.BoolVal(bool(okshape)))
            else:
                r.oblige(s, 'ecdh:to-the-recipient-key-packet/p%d' % pi, z3.BoolVal(len(a) == 2 and a[0] is pk))
            r.oblige(s, 'rfc4880-5.1:m=algorithm||key||16-bit-sum-of-key-octets/p%d' % pi, ex.seq(a[1], s) == m)
            r.oblige(s, 'packet-holds-the-new-ciphertext/p%d' % pi, z3.BoolVal(s.heap.get(('pkt', 'ct')) is NEWCT))
        return r.result()
    return Scenario(label, PKESK + '.encrypt_sk', gen, props=('C03',))


def pkesk_decrypt():
    label = 'C04/PKESessionKeyV3.decrypt_sk[ECDH path]'

    def gen(repo):
        r = scn.Run(repo, PKESK, 'decrypt_sk', label)
        ex, st = r.ex, r.st
        PA = repo.enum_members('pgpy.constants.PubKeyAlgorithm')
        me = E.VObj(PKESK, 'pkt')
        r.set('pkt', '_pkalg', E.VInt(PA['ECDH'], enum='pgpy.constants.PubKeyAlgorithm'))
        r.set('pkt', 'ct', E.VObj('pgpy.packet.fields.ECDHCipherText', 'ct'))
        pk = E.VObj('pgpy.packet.packets.PrivKeyV4', 'recipient')
        M = z3.Const('DECRYPTED_M', B)
        st.pc += [z3.Length(M) >= 1, M[0] >= 0, M[0] < 256]

        def ct_decrypt(ex, st, o, a):
            st.ghost['ct_decrypt_args'] = a
            return [(st, E.VBytes(M))]
        r.hook('pgpy.packet.fields.CipherText', 'decrypt', scn.method_hook(ct_decrypt))
        r.hook('pgpy.packet.fields.ECDHCipherText', 'decrypt', scn.method_hook(ct_decrypt))
        SUMOCT = z3.Function('SUM_OF_OCTETS', B, z3.IntSort())
        KS = {2: 24, 3: 16, 4: 16, 7: 16, 8: 24, 9: 32, 10: 32, 11: 16, 12: 24, 13: 32, 1: 16}
        for pi, (s, v) in enumerate(r.call(me, [pk])):
            if isinstance(v, E.Raise):
                exc = v.exc.split(':')[0]
                r.oblige(s, 'rejections-are-errors(%s)/p%d' % (exc, pi), z3.BoolVal(exc in ('PGPDecryptionError', 'ValueError', 'NotImplementedError')), v.where)
                continue
            ok = isinstance(v, E.VTuple) and len(v.items) == 2
            r.oblige(s, 'returns-cipher-and-key/p%d' % pi, z3.BoolVal(ok))
            if not ok:
                continue
            symalg, key = v.items
            ks = z3.IntVal(0)
            for k, n in KS.items():
                ks = z3.If(M[0] == k, n, ks)
            keyspec = z3.Extract(M, 1, ks)
            chk = z3.Extract(M, 1 + ks, 2)
            r.oblige(s, 'cipher-is-the-first-octet/p%d' % pi, ex.as_int(symalg) == M[0])
            r.oblige(s, 'key-is-the-next-keysize-octets/p%d' % pi, ex.seq(key, s) == keyspec)
            r.oblige(s, 'accepted=>16-bit-checksum-of-the-key-matches/p%d' % pi, SUMOCT(ex.seq(key, s)) % 65536 == scn.b2i2(chk))
            a = s.ghost.get('ct_decrypt_args')
            r.oblige(s, 'decrypted-with-the-given-private-key/p%d' % pi, z3.BoolVal(a is not None and a[0] is pk))
        return r.result()
    return Scenario(label, PKESK + '.decrypt_sk', gen, props=('C04', 'C03'))


def skesk_encrypt():
    label = 'C03/SKESessionKeyV4.encrypt_sk'

    def gen(repo):
        r = scn.Run(repo, SKESK, 'encrypt_sk', label)
        ex, st = r.ex, r.st
        me = E.VObj(SKESK, 'pkt')
        r.set('pkt', 's2k', E.VObj('pgpy.packet.fields.String2Key', 's2k'))
        r.set('s2k', 'salt', ex.new_buf(st, z3.Const('OLD_SALT', B)))
        algv = 9
        r.hook(SKESK, 'symalg', scn.const(E.VInt(algv, enum='pgpy.constants.SymmetricKeyAlgorithm')))
        ESK, SK, CT = z3.Const('S2K_DERIVED_KEY', B), z3.Const('SESSION_KEY', B), z3.Const('CIPHERTEXT', B)

        def derive(ex, st, o, a):
            st.ghost['salt_at_derive'] = st.heap.get(('s2k', 'salt'))
            st.ghost['derive_arg'] = a[0]
            return [(st, E.VBytes(ESK))]
        r.hook('pgpy.packet.fields.String2Key', 'derive_key', scn.method_hook(derive))

        def enc(ex, st, o, a):
            st.ghost['enc_args'] = a
            return [(st, ex.new_buf(st, CT))]
        ex.fhooks['pgpy.symenc._encrypt'] = enc
        r.hook(SKESK, 'update_hlen', scn.mconst(E.VNone()))
        PW = E.VStr(z=z3.Const('PASSPHRASE', B))
        for pi, (s, v) in enumerate(r.call(me, [PW, E.VBytes(SK)])):
            if isinstance(v, E.Raise):
                r.oblige(s, 'safety(%s)/p%d' % (v.exc.split(':')[0], pi), z3.BoolVal(False), v.where)
                continue
            draws = s.ghost.get('rand', ())
            r.oblige(s, 'one-fresh-8-octet-salt/p%d' % pi, z3.And(z3.BoolVal(len(draws) == 1), draws[0][0] == 8 if draws else z3.BoolVal(False)))
            sd = s.ghost.get('salt_at_derive')
            if draws and sd is not None:
                r.oblige(s, 'key-derived-from-the-passphrase-with-the-fresh-salt/p%d' % pi, z3.And(ex.seq(sd, s) == draws[0][1], z3.BoolVal(s.ghost.get('derive_arg') is PW)))
            a = s.ghost.get('enc_args')
            r.oblige(s, 'rfc4880-5.3:encrypts-algorithm||session-key-under-the-derived-key-zero-iv/p%d' % pi,
                     z3.And(z3.BoolVal(a is not None and len(a) == 3),
                            z3.And(ex.seq(a[0], s) == cat(U(algv), SK), ex.seq(a[1], s) == ESK, ex.as_int(a[2]) == algv) if a is not None and len(a) == 3 else z3.BoolVal(False)))
            r.oblige(s, 'packet-holds-the-ciphertext/p%d' % pi, ex.seq(s.heap[('pkt', 'ct')], s) == CT)
        return r.result()
    return Scenario(label, SKESK + '.encrypt_sk', gen, props=('C03', 'C13'))


def skesk_decrypt():
    label = 'C03/SKESessionKeyV4.decrypt_sk'

    def gen(repo):
        r = scn.Run(repo, SKESK, 'decrypt_sk', label)
        ex, st = r.ex, r.st
        me = E.VObj(SKESK, 'pkt')
        r.set('pkt', 's2k', E.VObj('pgpy.packet.fields.String2Key', 's2k'))
        CT, ESK, M = z3.Const('CIPHERTEXT', B), z3.Const('S2K_DERIVED_KEY', B), z3.Const('DECRYPTED', B)
        r.set('pkt', 'ct', ex.new_buf(st, CT))
        r.hook(SKESK, 'symalg', scn.const(E.VInt(9, enum='pgpy.constants.SymmetricKeyAlgorithm')))
        r.hook('pgpy.packet.fields.String2Key', 'derive_key', scn.mconst(E.VBytes(ESK)))
        st.pc += [z3.Length(M) >= 1, M[0] >= 0, M[0] < 256]

        def dec(ex, st, o, a):
            st.ghost['dec_args'] = a
            return [(st, ex.new_buf(st, M))]
        ex.fhooks['pgpy.symenc._decrypt'] = dec
        for pi, (s, v) in enumerate(r.call(me, [E.VStr(z=z3.Const('PASSPHRASE', B))])):
            if isinstance(v, E.Raise):
                r.oblige(s, 'rejections-are-errors(%s)/p%d' % (v.exc.split(':')[0], pi), z3.BoolVal(v.exc.split(':')[0] in ('ValueError',)), v.where)
                continue
            ok = isinstance(v, E.VTuple) and len(v.items) == 2
            r.oblige(s, 'returns-cipher-and-key/p%d' % pi, z3.BoolVal(ok))
            if not ok:
                continue
            alg, key = v.items
            a = s.ghost.get('dec_args')
            if a is None:
                r.oblige(s, 'no-ciphertext:derived-key-is-the-session-key/p%d' % pi, z3.And(z3.Length(CT) == 0, ex.seq(key, s) == ESK, ex.as_int(alg) == 9))
            else:
                r.oblige(s, 'rfc4880-5.3:first-octet-cipher-rest-session-key/p%d' % pi,
                         z3.And(ex.as_int(alg) == M[0], ex.seq(key, s) == z3.Extract(M, 1, z3.Length(M) - 1)))
                r.oblige(s, 'decrypts-the-packet-ciphertext-under-the-derived-key/p%d' % pi, z3.And(ex.seq(a[0], s) == CT, ex.seq(a[1], s) == ESK, ex.as_int(a[2]) == 9))
        return r.result()
    return Scenario(label, SKESK + '.decrypt_sk', gen, props=('C03',))


def gen_random(which):
    label = 'C13/SymmetricKeyAlgorithm.%s' % which

    def gen(repo):
        obls, funcs, paths = [], [], 0
        for cname, (algid, bsbits, keybits) in CIPHERS.items():
            r = scn.Run(repo, 'pgpy.constants.SymmetricKeyAlgorithm', which, '%s[%s]' % (label, cname))
            scn.cipher_facts(r)
            for pi, (s, v) in enumerate(r.call(E.VInt(algid, enum='pgpy.constants.SymmetricKeyAlgorithm'), [])):
                paths += 1
                if isinstance(v, E.Raise):
                    r.oblige(s, 'safety/p%d' % pi, z3.BoolVal(False), v.where)
                    continue
                draws = s.ghost.get('rand', ())
                want = (keybits if which == 'gen_key' else bsbits) // 8
                r.oblige(s, 'is-one-fresh-draw-of-%d-octets/p%d' % (want, pi),
                         z3.And(z3.BoolVal(len(draws) == 1), z3.And(draws[0][0] == want, r.ex.seq(v, s) == draws[0][1]) if draws else z3.BoolVal(False)))
            res = r.result()
            obls += res['obligations']
            funcs = res['funcs']
        return {'obligations': obls, 'funcs': funcs, 'paths': paths}
    return Scenario(label, 'pgpy.constants.SymmetricKeyAlgorithm.' + which, gen, props=('C13',))


def scenarios():
    out = [seipd_decrypt(c) for c in ('AES256', 'TripleDES')] + [seipd_encrypt(c) for c in ('AES256', 'CAST5')]
    out += [symenc('encrypt'), symenc('decrypt'), pkesk_encrypt('RSA'), pkesk_encrypt('ECDH'), pkesk_decrypt(), skesk_encrypt(), skesk_decrypt(),
            gen_random('gen_key'), gen_random('gen_iv')]
    return out


# ---------------------------------------------------------------------------------------------------
KEY = 'pgpy.pgp.PGPKey'
MSG = 'pgpy.pgp.PGPMessage'


def key_encrypt(supplied):
    label = 'C03/PGPKey.encrypt[session key %s]' % ('supplied in a bytearray' if supplied == 'bytearray' else 'supplied' if supplied else 'generated')

    def gen(repo):
        r = scn.Run(repo, KEY, 'encrypt', label)
        ex, st = r.ex, r.st
        scn.cipher_facts(r)
        me = E.VObj(KEY, 'component')
        KEYID = z3.Const('KEYID_HEX_OF_THE_COMPONENT_THAT_ENCRYPTS', B)
        r.hook(KEY, 'fingerprint', scn.const(E.VStr(z=z3.Const('FPR', B), cls='pgpy.types.Fingerprint')))
        r.hook('pgpy.types.Fingerprint', 'keyid', scn.const(E.VStr(z=KEYID)))
        ALG = z3.Int('key_algorithm')
        st.pc.append(z3.Or(*[ALG == m for m in sorted(set(repo.enum_members('pgpy.constants.PubKeyAlgorithm').values()))]))
        r.hook(KEY, 'key_algorithm', scn.const(E.VInt(ALG, enum='pgpy.constants.PubKeyAlgorithm')))
        keypkt = E.VObj('pgpy.packet.packets.PubKeyV4', 'keypkt')
        r.set('component', '_key', keypkt)
        uid = E.VObj('pgpy.pgp.PGPUID', 'uid')
        r.hook(KEY, 'userids', scn.const(ex.new_list(st, [uid])))
        AES = E.VInt(9, enum='pgpy.constants.SymmetricKeyAlgorithm')
        r.hook('pgpy.pgp.PGPUID', 'selfsig', scn.const(E.VObj('pgpy.pgp.PGPSignature', 'selfsig')))
        r.hook('pgpy.pgp.PGPSignature', 'cipherprefs', scn.const(ex.new_list(st, [AES])))
        r.hook('pgpy.pgp.PGPSignature', 'compprefs', scn.const(ex.new_list(st, [])))
        # what else the recipient's self-signature says is arbitrary - in particular whether it advertises modification detection (keys
        # made by old tools do not): what is produced is an integrity-protected container all the same (C04: a plain tag 9 packet is malleable)
        r.hook('pgpy.pgp.PGPSignature', 'features', scn.const(E.VSet([E.VInt(1, enum='pgpy.constants.Features')], [z3.Bool('recipient_advertises_modification_detection')])))
        msg = E.VObj(MSG, 'plain')
        r.hook(MSG, 'is_compressed', scn.const(E.VBool(False)))
        r.hook(MSG, 'is_encrypted', lambda ex, st, o, a: [(st, E.VBool(False))])
        PLAIN = z3.Const('MESSAGE_OCTETS', B)
        r.hook(MSG, '__bytes__', scn.method_hook(lambda ex, st, o, a: [(st, E.VBytes(PLAIN))]))
        PK, SE = 'pgpy.packet.packets.PKESessionKeyV3', SEIPD
        r.hook(PK, '__call__', lambda ex, st, cls, a: [(st, E.VObj(PK, 'pkesk'))])
        r.hook(SE, '__call__', lambda ex, st, cls, a: [(st, E.VObj(SE, 'seipd'))])
        r.hook(MSG, '__call__', lambda ex, st, cls, a: [(st, E.VObj(MSG, 'out'))])

        def set_encrypter(ex, st, o, a):
            st.ghost['encrypter'] = a
            return [(st, E.VNone())]

        def esk(ex, st, o, a):
            st.ghost['encrypt_sk_args'] = tuple(E.VBytes(ex.seq(x, st)) if isinstance(x, E.VBuf) else x for x in a)     # octets as they are at the call
            st.ghost['encrypter_at_encrypt_sk'] = (st.heap.get(('pkesk', '_encrypter')), st.heap.get(('pkesk', '_pkalg')))
            return [(st, E.VNone())]
        r.hook(PK, 'encrypt_sk', scn.method_hook(esk))

        def senc(ex, st, o, a):
            st.ghost['seipd_args'] = tuple(E.VBytes(ex.seq(x, st)) if isinstance(x, E.VBuf) else x for x in a)
            return [(st, E.VNone())]
        r.hook(SE, 'encrypt', scn.method_hook(senc))

        # any OTHER container class that might be chosen (a tag 9 packet has no encrypt() on this tree): recorded, and refused below
        SED = 'pgpy.packet.packets.SKEData'
        r.hook(SED, '__call__', lambda ex, st, cls, a: [(st, E.VObj(SED, 'unprotected-container'))])

        def sedenc(ex, st, o, a):
            st.ghost['unprotected_container_args'] = a
            return [(st, E.VNone())]
        r.hook(SED, 'encrypt', scn.method_hook(sedenc))

        def m_or(ex, st, o, a):
            st.ghost['added'] = st.ghost.get('added', ()) + (a[0],)
            return [(st, o)]
        r.hook(MSG, '__or__', scn.method_hook(m_or))
        SK = z3.Const('SUPPLIED_SESSION_KEY', B)
        skbuf = ex.new_buf(st, SK) if supplied == 'bytearray' else None
        args = [msg] + ([skbuf if skbuf is not None else E.VBytes(SK)] if supplied else [])
        for pi, (s, v) in enumerate(r.call(me, args)):
            if skbuf is not None:
                # the documented way to address several recipients is to pass the SAME session key to one encrypt() after the other
                r.oblige(s, 'the-caller\'s-session-key-buffer-is-left-as-it-was(it-is-used-for-the-next-recipient)/p%d' % pi, s.heap[skbuf.cell] == SK)
            if isinstance(v, E.Raise):
                r.oblige(s, 'safety(%s)/p%d' % (v.exc.split(':')[0], pi), z3.BoolVal(False), v.where)
                continue
            draws = s.ghost.get('rand', ())
            ea, sa = s.ghost.get('encrypt_sk_args'), s.ghost.get('seipd_args')
            r.oblige(s, 'one-session-key-packet-and-one-integrity-protected-container(tag-18,with-MDC)/p%d' % pi,
                     z3.BoolVal(ea is not None and sa is not None and s.ghost.get('unprotected_container_args') is None))
            if ea is None or sa is None:
                continue
            if supplied:
                r.oblige(s, 'uses-the-supplied-session-key-and-draws-none/p%d' % pi, z3.And(z3.BoolVal(len(draws) == 0), ex.seq(ea[2], s) == SK, ex.seq(sa[0], s) == SK))
            else:
                r.oblige(s, 'session-key-is-one-fresh-draw-of-the-cipher-key-size/p%d' % pi,
                         z3.And(z3.BoolVal(len(draws) == 1), z3.And(draws[0][0] == 32, ex.seq(ea[2], s) == draws[0][1], ex.seq(sa[0], s) == draws[0][1]) if len(draws) == 1 else z3.BoolVal(False)))
            r.oblige(s, 'session-key-encrypted-to-this-component-material-with-the-message-cipher/p%d' % pi, z3.And(z3.BoolVal(ea[0] is keypkt), ex.as_int(ea[1]) == 9))
            r.oblige(s, 'container-encrypts-the-whole-message-with-the-same-cipher/p%d' % pi, z3.And(ex.as_int(sa[1]) == 9, ex.seq(sa[2], s) == PLAIN))
            enc, pkalg = s.ghost.get('encrypter_at_encrypt_sk')
            UNHEX = z3.Function('UNHEXLIFY', B, B)
            good = isinstance(enc, E.VStr) and enc.z is not None
            HEX = z3.Function('HEXLIFY', B, B)
            UP = z3.Function('STR_UPPER', B, B)
            r.oblige(s, 'recipient-key-id-is-the-key-id-of-this-component/p%d' % pi,
                     z3.And(z3.BoolVal(good), enc.z == UP(HEX(UNHEX(KEYID))) if good else z3.BoolVal(False)))
            r.oblige(s, 'recipient-algorithm-is-this-component-algorithm/p%d' % pi, ex.as_int(pkalg) == ALG if pkalg is not None else z3.BoolVal(False))
            added = s.ghost.get('added', ())
            r.oblige(s, 'message-carries-the-container-and-the-session-key-packet/p%d' % pi,
                     z3.BoolVal(len(added) == 2 and {getattr(x, 'ref', None) for x in added} == {'pkesk', 'seipd'} and isinstance(v, E.VObj) and v.ref == 'out'))
            if not supplied:
                # no hidden state: the SAME message object encrypted once more gets a session key of its own (the next draw)
                for qi, (s2, v2) in enumerate(ex.call_func(E.VFunc(r.node, None, cls=r.dcls, self_val=me, mod=r.mod), list(args), {}, s, {'mod': r.mod})):
                    if isinstance(v2, E.Raise):
                        r.oblige(s2, 'second-encryption-of-the-same-message:safety(%s)/p%d.%d' % (v2.exc.split(':')[0], pi, qi), z3.BoolVal(False), v2.where)
                        continue
                    d2, e2, a2 = s2.ghost.get('rand', ()), s2.ghost.get('encrypt_sk_args'), s2.ghost.get('seipd_args')
                    okk = len(d2) == 2 and e2 is not None and a2 is not None and e2 is not ea
                    r.oblige(s2, 'second-encryption-of-the-same-message:its-session-key-is-a-second-fresh-draw/p%d.%d' % (pi, qi),
                             z3.And(z3.BoolVal(okk), z3.And(d2[1][0] == 32, ex.seq(e2[2], s2) == d2[1][1], ex.seq(a2[0], s2) == d2[1][1]) if okk else z3.BoolVal(False)))
        return r.result()
    return Scenario(label, KEY + '.encrypt', gen, props=('C03', 'C13', 'C16', 'C18', 'C04'))


def key_decrypt():
    label = 'C04/PGPKey.decrypt'

    def gen(repo):
        r = scn.Run(repo, KEY, 'decrypt', label)
        ex, st = r.ex, r.st
        me, sub = E.VObj(KEY, 'key'), E.VObj(KEY, 'sub')
        MYID, SUBID = z3.Ints('my_keyid subkey_keyid')
        R1, R2 = z3.Ints('recipient1_keyid recipient2_keyid')
        A1, MYALG = z3.Ints('recipient1_algorithm my_algorithm')
        st.pc += [MYID != SUBID]
        FP = 'pgpy.types.Fingerprint'
        r.hook(KEY, 'fingerprint', lambda ex, st, o, a: [(st, E.VInt({'key': MYID, 'sub': SUBID}[o.ref], enum=FP))])
        r.hook(FP, 'keyid', lambda ex, st, o, a: [(st, E.VInt(o.z))])
        r.hook(KEY, 'subkeys', scn.const(E.VDict([(E.VInt(SUBID), sub)])))
        r.hook(KEY, 'key_algorithm', scn.const(E.VInt(MYALG, enum='pgpy.constants.PubKeyAlgorithm')))
        r.set('key', '_key', E.VObj('pgpy.packet.packets.PrivKeyV4', 'keypkt'))
        msg = E.VObj(MSG, 'msg')
        r.hook(MSG, 'is_encrypted', scn.const(E.VBool(True)))
        PKC, SKC = 'pgpy.packet.packets.PKESessionKeyV3', 'pgpy.packet.packets.SKESessionKeyV4'
        skesk, pk1, pk2 = E.VObj(SKC, 'skesk'), E.VObj(PKC, 'pk1'), E.VObj(PKC, 'pk2')
        # a passphrase session-key packet first, then two public-key session-key packets (any order of kinds must work)
        r.set('msg', '_sessionkeys', ex.new_list(st, [skesk, pk1, pk2]))
        r.hook(MSG, 'encrypters', scn.const(E.VSet([E.VInt(R1), E.VInt(R2)])))
        r.hook(PKC, 'pkalg', lambda ex, st, o, a: [(st, E.VInt(A1 if o.ref == 'pk1' else MYALG, enum='pgpy.constants.PubKeyAlgorithm'))])
        r.hook(PKC, 'encrypter', lambda ex, st, o, a: [(st, E.VInt(R1 if o.ref == 'pk1' else R2))])
        container = E.VObj(SEIPD, 'container')
        r.hook(MSG, 'message', scn.const(container))
        SKEY = z3.Const('SESSION_KEY', B)

        def dsk(ex, st, o, a):
            st.ghost['decrypt_sk'] = (o, a)
            return [(st, E.VTuple([E.VInt(9, enum='pgpy.constants.SymmetricKeyAlgorithm'), E.VBytes(SKEY)]))]
        r.hook(PKC, 'decrypt_sk', scn.method_hook(dsk))
        PT = z3.Const('DECRYPTED_PACKETS', B)

        def cdec(ex, st, o, a):
            st.ghost['container_decrypt'] = a
            return [(st, ex.new_buf(st, PT))]
        r.hook(SEIPD, 'decrypt', scn.method_hook(cdec))
        r.hook(MSG, '__call__', lambda ex, st, cls, a: [(st, E.VObj(MSG, 'decmsg'))])

        def parse(ex, st, o, a):
            st.ghost['parsed'] = (o, a)
            return [(st, E.VNone())]
        r.hook(MSG, 'parse', scn.method_hook(parse))
        SUBRES = E.VObj(MSG, 'result-of-subkey')

        def subdec(ex, st, o, a):
            st.ghost['delegated'] = (o, a)
            return [(st, SUBRES)]
        r.hook(KEY, 'decrypt', scn.method_hook(subdec))
        for pi, (s, v) in enumerate(r.call(me, [msg])):
            mine = z3.Or(R1 == MYID, R2 == MYID)
            viasub = z3.And(z3.Not(mine), z3.Or(R1 == SUBID, R2 == SUBID))
            if isinstance(v, E.Raise):
                exc = v.exc.split(':')[0]
                if exc == 'PGPError':
                    r.oblige(s, 'refuses-exactly-when-neither-this-key-nor-a-subkey-is-a-recipient/p%d' % pi, z3.And(z3.Not(mine), z3.Not(viasub)), v.where)
                elif exc == 'StopIteration':
                    # addressed to this key id but with another public-key algorithm: no usable session-key packet
                    r.oblige(s, 'no-matching-packet-only-if-none-has-this-id-and-algorithm/p%d' % pi,
                             z3.Not(z3.Or(z3.And(R1 == MYID, A1 == MYALG), R2 == MYID)), v.where)
                else:
                    r.oblige(s, 'safety(%s)/p%d' % (exc, pi), z3.BoolVal(False), v.where)
                continue
            dg = s.ghost.get('delegated')
            if dg is not None:
                r.oblige(s, 'delegates-to-the-addressed-subkey-only-when-this-key-is-not-a-recipient/p%d' % pi, z3.And(viasub, z3.BoolVal(dg[0] is sub and dg[1][0] is msg and v is SUBRES)))
                continue
            ds = s.ghost.get('decrypt_sk')
            r.oblige(s, 'this-key-is-a-recipient/p%d' % pi, mine)
            r.oblige(s, 'uses-a-public-key-session-key-packet/p%d' % pi, z3.BoolVal(ds is not None and ds[0].ref in ('pk1', 'pk2')))
            if ds is None:
                continue
            chosen = ds[0].ref
            r.oblige(s, 'chosen-packet-names-this-key-and-its-algorithm/p%d' % pi,
                     z3.And(R1 == MYID, A1 == MYALG) if chosen == 'pk1' else (R2 == MYID))
            r.oblige(s, 'session-key-recovered-with-this-key-material/p%d' % pi, z3.BoolVal(ds[1][0] is s.heap[('key', '_key')]))
            cd = s.ghost.get('container_decrypt')
            r.oblige(s, 'container-decrypted-with-the-recovered-key-and-cipher/p%d' % pi,
                     z3.And(z3.BoolVal(cd is not None), z3.And(ex.seq(cd[0], s) == SKEY, ex.as_int(cd[1]) == 9) if cd is not None else z3.BoolVal(False)))
            pa = s.ghost.get('parsed')
            r.oblige(s, 'result-is-parsed-from-exactly-the-decrypted-octets/p%d' % pi,
                     z3.And(z3.BoolVal(pa is not None and pa[0].ref == 'decmsg' and isinstance(v, E.VObj) and v.ref == 'decmsg'),
                            ex.seq(pa[1][0], s) == PT if pa is not None else z3.BoolVal(False)))
        return r.result()
    return Scenario(label, KEY + '.decrypt', gen, props=('C04', 'C03', 'C16'))


def message_decrypt():
    label = 'C04/PGPMessage.decrypt'

    def gen(repo):
        r = scn.Run(repo, MSG, 'decrypt', label)
        ex, st = r.ex, r.st
        me = E.VObj(MSG, 'msg')
        r.hook(MSG, 'is_encrypted', scn.const(E.VBool(True)))
        PKC, SKC = 'pgpy.packet.packets.PKESessionKeyV3', 'pgpy.packet.packets.SKESessionKeyV4'
        sk1, sk2, pk = E.VObj(SKC, 'sk1'), E.VObj(SKC, 'sk2'), E.VObj(PKC, 'pk')
        r.set('msg', '_sessionkeys', ex.new_list(st, [pk, sk1, sk2]))
        container = E.VObj(SEIPD, 'container')
        r.hook(MSG, 'message', scn.const(container))
        okk = {n: z3.Bool('session_key_packet_%s_opens' % n) for n in ('sk1', 'sk2')}
        okc = {n: z3.Bool('container_checks_pass_with_key_of_%s' % n) for n in ('sk1', 'sk2')}
        okp = {n: z3.Bool('decrypted_octets_parse_%s' % n) for n in ('sk1', 'sk2')}
        KEYS = {n: z3.Const('KEY_FROM_' + n, B) for n in ('sk1', 'sk2')}
        PTS = {n: z3.Const('PLAINTEXT_VIA_' + n, B) for n in ('sk1', 'sk2')}

        def dsk(ex, st, o, a):
            s2 = st.clone()
            st.pc.append(okk[o.ref])
            s2.pc.append(z3.Not(okk[o.ref]))
            st.ghost['cur'] = o.ref
            return [(st, E.VTuple([E.VInt(9, enum='pgpy.constants.SymmetricKeyAlgorithm'), E.VBytes(KEYS[o.ref])])), (s2, E.Raise('PGPDecryptionError', 0))]
        r.hook(SKC, 'decrypt_sk', scn.method_hook(dsk))

        def cdec(ex, st, o, a):
            cur = st.ghost['cur']
            s2 = st.clone()
            st.pc.append(okc[cur])
            s2.pc.append(z3.Not(okc[cur]))
            st.ghost['cdec_key'] = a[0]
            return [(st, ex.new_buf(st, PTS[cur])), (s2, E.Raise('PGPDecryptionError', 0))]
        r.hook(SEIPD, 'decrypt', scn.method_hook(cdec))
        r.hook(MSG, '__call__', lambda ex, st, cls, a: [(st, E.VObj(MSG, E.fresh('decmsg')))])

        def parse(ex, st, o, a):
            cur = st.ghost['cur']
            s2 = st.clone()
            st.pc.append(okp[cur])
            s2.pc.append(z3.Not(okp[cur]))
            st.ghost['parsed'] = (o, a, cur)
            return [(st, E.VNone()), (s2, E.Raise('ValueError', 0))]
        r.hook(MSG, 'parse', scn.method_hook(parse))
        good = {n: z3.And(okk[n], okc[n], okp[n]) for n in ('sk1', 'sk2')}
        for pi, (s, v) in enumerate(r.call(me, [E.VStr(z=z3.Const('PASSPHRASE', B))])):
            if isinstance(v, E.Raise):
                r.oblige(s, 'every-failure-is-PGPDecryptionError/p%d' % pi, z3.BoolVal(v.exc.split(':')[0] == 'PGPDecryptionError'), v.where)
                r.oblige(s, 'fails-only-if-no-passphrase-packet-opens-and-checks/p%d' % pi, z3.Not(z3.Or(good['sk1'], good['sk2'])))
                continue
            pa = s.ghost.get('parsed')
            r.oblige(s, 'result-comes-from-a-packet-that-opened-checked-and-parsed/p%d' % pi,
                     z3.And(z3.BoolVal(pa is not None and isinstance(v, E.VObj) and v.ref is pa[0].ref), good[pa[2]] if pa is not None else z3.BoolVal(False)))
            if pa is not None:
                r.oblige(s, 'parsed-from-exactly-the-octets-decrypted-with-that-packet-key/p%d' % pi,
                         z3.And(ex.seq(pa[1][0], s) == PTS[pa[2]], ex.seq(s.ghost['cdec_key'], s) == KEYS[pa[2]]))
        return r.result()
    return Scenario(label, MSG + '.decrypt', gen, props=('C04', 'C03'))


_base_scenarios = scenarios


def scenarios():
    return _base_scenarios() + [key_encrypt(False), key_encrypt(True), key_encrypt('bytearray'), key_decrypt(), message_decrypt()]


# ---------------------------------------------------------------------------------------------------
def ecdh_encrypt(curve):
    """ECDHCipherText.encrypt (RFC 6637 section 8): wiring of the externals. curve: 'Curve25519' | 'NIST'"""
    label = 'C03/ECDHCipherText.encrypt[%s]' % curve
    CT = 'pgpy.packet.fields.ECDHCipherText'

    def gen(repo):
        r = scn.Run(repo, CT, 'encrypt', label)
        ex, st = r.ex, r.st
        C25519 = E.VExt('OID.Curve25519', ())
        r.hook('pgpy.constants.EllipticCurveOID', 'Curve25519', scn.const(C25519))
        oid = C25519 if curve == 'Curve25519' else E.VExt('OID.NIST_P256', ())
        pk = E.VObj('pgpy.packet.packets.PubKeyV4', 'recipient')
        km = E.VObj('pgpy.packet.fields.ECDHPub', 'km')
        r.set('recipient', 'keymaterial', km)
        r.set('km', 'oid', oid)
        kdf = E.VObj('pgpy.packet.fields.ECKDF', 'kdf')
        r.set('km', 'kdf', kdf)
        FPR = E.VExt('recipient-fingerprint', ())
        r.hook('pgpy.packet.packets.PubKeyV4', 'fingerprint', scn.const(FPR))
        RPUB = E.VExt('recipient-public-key', ())
        r.hook('pgpy.packet.fields.ECDHPub', '__pubkey__', scn.mconst(RPUB))
        M = z3.Const('M', B)
        PADDED = z3.Function('PKCS5_PAD8', B, B)

        def pad_update(ex, st, o, a):
            # o is the opaque padder: PKCS7(<block bits>).padder()
            made_by = o.args[0] if isinstance(o, E.VExt) and o.args else None
            st.ghost['pad_block_bits'] = made_by.args[0] if isinstance(made_by, E.VExt) and made_by.args else None
            return [(st, E.VBytes(PADDED(ex.seq(a[0], st))))]
        ex.hooks[('ext:PKCS7.padder', 'update')] = pad_update
        ex.hooks[('ext:PKCS7.padder', 'finalize')] = lambda ex, st, o, a: [(st, E.VBytes(z3.Empty(B)))]
        r.hook(CT, '__call__', lambda ex, st, c, a: [(st, E.VObj(CT, 'ct'))])
        r.hook('pgpy.packet.types.MPI', '__call__', lambda ex, st, c, a: [(st, E.VExt('MPI', (a[0],)))])
        r.hook('pgpy.packet.fields.ECPoint', 'from_values', scn.method_hook(lambda ex, st, o, a: [(st, E.VExt('ECPoint', tuple(a)))]))
        Z = z3.Const('KEK', B)

        def derive(ex, st, o, a):
            st.ghost['kdf_args'] = a
            return [(st, E.VBytes(Z))]
        r.hook('pgpy.packet.fields.ECKDF', 'derive_key', scn.method_hook(derive))
        gens = []

        def generate(ex, st, o, a):
            g = E.VExt('ephemeral-private-key-%d' % len(gens), ())
            gens.append(g)
            st.ghost['generated'] = st.ghost.get('generated', ()) + (g,)
            return [(st, g)]
        ex.hooks[('ext', 'x25519.X25519PrivateKey.generate')] = generate
        ex.hooks[('ext', 'ec.generate_private_key')] = generate
        for pi, (s, v) in enumerate(r.call(E.VClass(CT), [pk, E.VBytes(M)])):
            if isinstance(v, E.Raise):
                r.oblige(s, 'safety(%s)/p%d' % (v.exc, pi), z3.BoolVal(False), v.where)
                continue
            gen_ = s.ghost.get('generated', ())
            r.oblige(s, 'one-fresh-ephemeral-key-per-encryption/p%d' % pi, z3.BoolVal(len(gen_) == 1))
            if len(gen_) != 1:
                continue
            eph = gen_[0]
            ka = s.ghost.get('kdf_args')
            r.oblige(s, 'kek-derived-once/p%d' % pi, z3.BoolVal(ka is not None and len(ka) == 4))
            if ka is None:
                continue
            shared = ka[0]
            okx = isinstance(shared, E.VExt) and shared.name.endswith('.exchange') and shared.args[0] is eph and shared.args[-1] is RPUB
            r.oblige(s, 'shared-secret=exchange(ephemeral-private,recipient-public)/p%d' % pi, z3.BoolVal(bool(okx)))
            PA = repo.enum_members('pgpy.constants.PubKeyAlgorithm')
            r.oblige(s, 'kdf-parameters:curve,ECDH,recipient-fingerprint/p%d' % pi, z3.And(z3.BoolVal(ka[1] is oid and ka[3] is FPR), ex.as_int(ka[2]) == PA['ECDH']))
            c = s.heap.get(('ct', 'c'))
            okc = isinstance(c, E.VExt) and c.name == 'aes_key_wrap' and len(c.args) >= 2
            r.oblige(s, 'C=aes_key_wrap(KEK,padded-m)/p%d' % pi,
                     z3.And(z3.BoolVal(bool(okc)), z3.And(ex.seq(c.args[0], s) == Z, ex.seq(c.args[1], s) == PADDED(M)) if okc else z3.BoolVal(False)))
            pb = s.ghost.get('pad_block_bits')
            r.oblige(s, 'rfc6637-8:padding-is-to-a-multiple-of-eight-octets/p%d' % pi, ex.as_int(pb) == 64 if pb is not None else z3.BoolVal(False))
            p = s.heap.get(('ct', 'p'))

            def mentions(t, what):
                if t is what:
                    return True
                if isinstance(t, E.VBuiltin) and isinstance(t.bound, tuple):       # attribute read on an opaque external value
                    return any(mentions(x, what) for x in t.bound)
                return isinstance(t, E.VExt) and any(mentions(x, what) for x in list(t.args) + list(t.kws.values()))
            r.oblige(s, 'ephemeral-public-point-of-that-key-is-sent/p%d' % pi, z3.BoolVal(isinstance(p, E.VExt) and p.name == 'ECPoint' and mentions(p, eph)))
            r.oblige(s, 'returns-the-new-ciphertext/p%d' % pi, z3.BoolVal(isinstance(v, E.VObj) and v.ref == 'ct'))
        return r.result()
    return Scenario(label, CT + '.encrypt', gen, props=('C03', 'C13'))


_base_scn2 = scenarios


def scenarios():
    return _base_scn2() + [ecdh_encrypt('Curve25519'), ecdh_encrypt('NIST')]


def eckdf_derive():
    """ECKDF.derive_key: RFC 6637 section 7 Param layout and KDF wiring"""
    label = 'C03/ECKDF.derive_key'
    KDF = 'pgpy.packet.fields.ECKDF'

    def gen(repo):
        r = scn.Run(repo, KDF, 'derive_key', label)
        ex, st = r.ex, r.st
        scn.cipher_facts(r)
        me = E.VObj(KDF, 'kdf')
        r.set('kdf', '_halg', E.VInt(8, enum='pgpy.constants.HashAlgorithm'))
        r.set('kdf', '_encalg', E.VInt(7, enum='pgpy.constants.SymmetricKeyAlgorithm'))      # AES-128: 16-octet KEK
        S = z3.Const('SHARED_SECRET', B)
        OIDDER = z3.Const('DER_OF_CURVE_OID', B)
        st.pc += [z3.Length(OIDDER) >= 1]
        curve = E.VExt('curve-oid', ())
        ex.hooks[('ext:curve-oid', 'value')] = lambda ex, st, o, a: [(st, E.VExt('oid-value', ()))]
        ex.hooks[('ext:curve-oid', 'value')].is_method = False
        ex.hooks[('ext', 'encoder.encode')] = lambda ex, st, o, a: [(st, E.VBytes(OIDDER))] if isinstance(a[0], E.VExt) and a[0].name == 'oid-value' else [(st, E.VBytes(z3.Const('OTHER', B)))]
        FPRHEX = z3.Const('FINGERPRINT_HEX', B)
        fpr = E.VStr(z=FPRHEX)
        PA = repo.enum_members('pgpy.constants.PubKeyAlgorithm')
        outs = r.call(me, [E.VBytes(S), curve, E.VInt(PA['ECDH'], enum='pgpy.constants.PubKeyAlgorithm'), fpr])
        UNHEX = z3.Function('UNHEXLIFY', B, B)
        REPL = z3.Function("STR_REPLACE[' '->'']", B, B)
        for pi, (s, v) in enumerate(outs):
            if isinstance(v, E.Raise):
                r.oblige(s, 'safety(%s)/p%d' % (v.exc, pi), z3.BoolVal(False), v.where)
                continue
            ok = isinstance(v, E.VExt) and v.name == 'ConcatKDFHash.derive' and isinstance(v.args[0], E.VExt) and v.args[0].name == 'ConcatKDFHash'
            r.oblige(s, 'concat-kdf-of-the-shared-secret/p%d' % pi, z3.And(z3.BoolVal(bool(ok)), ex.seq(v.args[1], s) == S if ok else z3.BoolVal(False)))
            if not ok:
                continue
            kw = v.args[0].kws
            r.oblige(s, 'kek-length-is-the-key-size-of-the-kek-cipher/p%d' % pi, ex.as_int(kw['length']) == 16)
            alg = kw.get('algorithm')
            r.oblige(s, 'kdf-hash-is-the-one-named-in-the-key/p%d' % pi, z3.BoolVal(isinstance(alg, E.VExt) and alg.name.startswith('hashes.SHA256')))
            param = cat(z3.Extract(OIDDER, 1, z3.Length(OIDDER) - 1), U(PA['ECDH']), U(3), U(1), U(8), U(7),
                        scn.lit(b'Anonymous Sender    '), UNHEX(REPL(FPRHEX)))
            r.oblige(s, 'rfc6637-7:Param=oid||alg||03 01 hash kek||"Anonymous Sender    "||fingerprint/p%d' % pi, ex.seq(kw['otherinfo'], s) == param)
        return r.result()
    return Scenario(label, KDF + '.derive_key', gen, props=('C03',))


_base_scn3 = scenarios


def scenarios():
    return _base_scn3() + [eckdf_derive()]


def ecdh_decrypt(curve):
    """ECDHCipherText.decrypt (RFC 6637 section 8, inverse direction): wiring of the externals"""
    label = 'C04/ECDHCipherText.decrypt[%s]' % curve
    CT = 'pgpy.packet.fields.ECDHCipherText'

    def gen(repo):
        r = scn.Run(repo, CT, 'decrypt', label)
        ex, st = r.ex, r.st
        C25519 = E.VExt('OID.Curve25519', ())
        r.hook('pgpy.constants.EllipticCurveOID', 'Curve25519', scn.const(C25519))
        oid = C25519 if curve == 'Curve25519' else E.VExt('OID.NIST_P256', ())
        pk = E.VObj('pgpy.packet.packets.PrivKeyV4', 'recipient')
        km = E.VObj('pgpy.packet.fields.ECDHPriv', 'km')
        r.set('recipient', 'keymaterial', km)
        r.set('km', 'oid', oid)
        r.set('km', 'kdf', E.VObj('pgpy.packet.fields.ECKDF', 'kdf'))
        FPR = E.VExt('recipient-fingerprint', ())
        r.hook('pgpy.packet.packets.PrivKeyV4', 'fingerprint', scn.const(FPR))
        RPRIV = E.VExt('recipient-private-key', ())
        r.hook('pgpy.packet.fields.ECDHPriv', '__privkey__', scn.mconst(RPRIV))
        PX, PY = E.VExt('received-point-x', ()), E.VExt('received-point-y', ())
        point = E.VObj('pgpy.packet.fields.ECPoint', 'point')
        r.set('ct', 'p', point)
        r.set('point', 'x', PX)
        r.set('point', 'y', PY)
        C = z3.Const('C', B)
        r.set('ct', 'c', E.VBytes(C))
        Z = z3.Const('KEK', B)
        UNPAD = z3.Function('PKCS5_UNPAD8', B, B)
        UNWRAP = z3.Function('AES_KEY_UNWRAP', B, B, B)

        def derive(ex, st, o, a):
            st.ghost['kdf_args'] = a
            return [(st, E.VBytes(Z))]
        r.hook('pgpy.packet.fields.ECKDF', 'derive_key', scn.method_hook(derive))
        ex.hooks[('ext', 'aes_key_unwrap')] = lambda ex, st, o, a: [(st, E.VBytes(UNWRAP(ex.seq(a[0], st), ex.seq(a[1], st))))]

        def unpad_update(ex, st, o, a):
            made_by = o.args[0] if isinstance(o, E.VExt) and o.args else None
            st.ghost['pad_block_bits'] = made_by.args[0] if isinstance(made_by, E.VExt) and made_by.args else None
            return [(st, E.VBytes(UNPAD(ex.seq(a[0], st))))]
        ex.hooks[('ext:PKCS7.unpadder', 'update')] = unpad_update
        ex.hooks[('ext:PKCS7.unpadder', 'finalize')] = lambda ex, st, o, a: [(st, E.VBytes(z3.Empty(B)))]

        def mentions(t, what):
            if t is what:
                return True
            if isinstance(t, E.VBuiltin) and isinstance(t.bound, tuple):
                return any(mentions(x, what) for x in t.bound)
            return isinstance(t, E.VExt) and any(mentions(x, what) for x in list(t.args) + list(t.kws.values()))
        for pi, (s, v) in enumerate(r.call(E.VObj(CT, 'ct'), [pk])):
            if isinstance(v, E.Raise):
                r.oblige(s, 'safety(%s)/p%d' % (v.exc, pi), z3.BoolVal(False), v.where)
                continue
            ka = s.ghost.get('kdf_args')
            r.oblige(s, 'kek-derived-once/p%d' % pi, z3.BoolVal(ka is not None and len(ka) == 4))
            if ka is None:
                continue
            shared = ka[0]
            okx = isinstance(shared, E.VExt) and shared.name.endswith('.exchange') and shared.args[0] is RPRIV and mentions(shared.args[-1], PX)
            r.oblige(s, 'shared-secret=exchange(recipient-private,received-ephemeral-point)/p%d' % pi, z3.BoolVal(bool(okx)))
            if curve != 'Curve25519':
                r.oblige(s, 'both-coordinates-and-the-key-curve-make-the-ephemeral-point/p%d' % pi, z3.BoolVal(mentions(shared.args[-1], PY) and mentions(shared.args[-1], oid)))
            PA = repo.enum_members('pgpy.constants.PubKeyAlgorithm')
            r.oblige(s, 'kdf-parameters:curve,ECDH,recipient-fingerprint/p%d' % pi, z3.And(z3.BoolVal(ka[1] is oid and ka[3] is FPR), ex.as_int(ka[2]) == PA['ECDH']))
            pb = s.ghost.get('pad_block_bits')
            r.oblige(s, 'rfc6637-8:padding-is-to-a-multiple-of-eight-octets/p%d' % pi, ex.as_int(pb) == 64 if pb is not None else z3.BoolVal(False))
            r.oblige(s, 'm=unpad(aes_key_unwrap(KEK,C))/p%d' % pi, ex.seq(v, s) == UNPAD(UNWRAP(Z, C)))
        return r.result()
    return Scenario(label, CT + '.decrypt', gen, props=('C04', 'C03'))


_base_scn4 = scenarios


def scenarios():
    return _base_scn4() + [ecdh_decrypt('Curve25519'), ecdh_decrypt('NIST')]


def message_encrypt(supplied, already, pw_octets=False):
    """PGPMessage.encrypt (passphrase): iterated+salted S2K with the requested hash and cipher, session key drawn iff none is supplied,
    the whole message in one integrity-protected container (or, for an already encrypted message, one more session-key packet)"""
    label = 'C03/PGPMessage.encrypt[session key %s%s%s]' % ('supplied in a bytearray' if supplied == 'bytearray' else 'supplied' if supplied else 'generated', ', message already encrypted' if already else '',
                                                             ', passphrase given as octets of any length' if pw_octets else '')
    SK4, S2K = 'pgpy.packet.packets.SKESessionKeyV4', 'pgpy.packet.fields.String2Key'

    def gen(repo):
        r = scn.Run(repo, MSG, 'encrypt', label)
        ex, st = r.ex, r.st
        scn.cipher_facts(r)
        me = E.VObj(MSG, 'plain')
        r.hook(MSG, 'is_encrypted', lambda ex, st, o, a: [(st, E.VBool(already if o.ref == 'plain' else False))])
        PLAIN = z3.Const('MESSAGE_OCTETS', B)
        r.hook(MSG, '__bytes__', scn.method_hook(lambda ex, st, o, a: [(st, E.VBytes(PLAIN))]))
        r.hook(SK4, '__call__', lambda ex, st, cls, a: [(st, E.VObj(SK4, 'skesk'))])
        r.hook(SEIPD, '__call__', lambda ex, st, cls, a: [(st, E.VObj(SEIPD, 'seipd'))])
        r.hook(MSG, '__call__', lambda ex, st, cls, a: [(st, E.VObj(MSG, 'out'))])
        r.set('skesk', 's2k', E.VObj(S2K, 's2k'))
        TUNED = z3.Int('tuned_count_of_the_hash')
        st.pc += [TUNED >= 0, TUNED <= 255]          # contract of HashAlgorithm.tuned_count: a coded count octet
        r.hook('pgpy.constants.HashAlgorithm', 'tuned_count', scn.const(E.VInt(TUNED)))

        def esk(ex, st, o, a):
            st.ghost['encrypt_sk_args'] = tuple(E.VBytes(ex.seq(x, st)) if isinstance(x, E.VBuf) else x for x in a)     # octets as they are at the call
            st.ghost['s2k_at_encrypt_sk'] = {f: st.heap.get(('s2k', f)) for f in ('usage', '_specifier', '_halg', '_encalg', '_count', 'count')}
            return [(st, E.VNone())]
        r.hook(SK4, 'encrypt_sk', scn.method_hook(esk))

        def senc(ex, st, o, a):
            st.ghost['seipd_args'] = tuple(E.VBytes(ex.seq(x, st)) if isinstance(x, E.VBuf) else x for x in a)
            return [(st, E.VNone())]
        r.hook(SEIPD, 'encrypt', scn.method_hook(senc))

        def m_or(ex, st, o, a):
            st.ghost['added'] = st.ghost.get('added', ()) + ((o.ref, a[0]),)
            return [(st, o)]
        r.hook(MSG, '__or__', scn.method_hook(m_or))
        # the coded-count setter is proved in C09; here: what is asked of it
        def set_count(ex, st, o, a):
            st.heap[('s2k', 'count')] = a[0]
            return [(st, E.VNone())]
        # a passphrase may be given as text or as octets - of any length, also one that looks like key material: it is stretched all the same
        PW, SK = (E.VBytes(z3.Const('PASSPHRASE_OCTETS', B)) if pw_octets else E.VStr(z=z3.Const('PASSPHRASE', B))), z3.Const('SUPPLIED_SESSION_KEY', B)
        kws = {'cipher': E.VInt(9, enum='pgpy.constants.SymmetricKeyAlgorithm'), 'hash': E.VInt(10, enum='pgpy.constants.HashAlgorithm')}
        skbuf = ex.new_buf(st, SK) if supplied == 'bytearray' else None
        for pi, (s, v) in enumerate(r.call(me, [PW] + ([skbuf if skbuf is not None else E.VBytes(SK)] if supplied else []), kws)):
            if skbuf is not None:
                r.oblige(s, 'the-caller\'s-session-key-buffer-is-left-as-it-was(it-is-used-for-the-next-recipient)/p%d' % pi, s.heap[skbuf.cell] == SK)
            if isinstance(v, E.Raise):
                r.oblige(s, 'safety(%s)/p%d' % (v.exc.split(':')[0], pi), z3.BoolVal(False), v.where)
                continue
            ea, sa, draws = s.ghost.get('encrypt_sk_args'), s.ghost.get('seipd_args'), s.ghost.get('rand', ())
            r.oblige(s, 'one-passphrase-session-key-packet/p%d' % pi, z3.BoolVal(ea is not None and ea[0] is PW))
            if ea is None:
                continue
            s2 = s.ghost.get('s2k_at_encrypt_sk', {})
            g = lambda f: ex.as_int(s2[f]) if isinstance(s2.get(f), E.VInt) else z3.IntVal(-1)
            r.oblige(s, 's2k:usage-255,iterated+salted(3),requested-hash-and-cipher,coded-count-of-that-hash/p%d' % pi,
                     z3.And(g('usage') == 255, g('_specifier') == 3, g('_halg') == 10, g('_encalg') == 9, g('_count') == TUNED))
            if supplied:
                r.oblige(s, 'uses-the-supplied-session-key-and-draws-none/p%d' % pi, z3.And(z3.BoolVal(len(draws) == 0), ex.seq(ea[1], s) == SK))
            else:
                r.oblige(s, 'session-key-is-one-fresh-draw-of-the-cipher-key-size/p%d' % pi,
                         z3.And(z3.BoolVal(len(draws) == 1), z3.And(draws[0][0] == 32, ex.seq(ea[1], s) == draws[0][1]) if len(draws) == 1 else z3.BoolVal(False)))
            added = s.ghost.get('added', ())
            if already:
                r.oblige(s, 'already-encrypted:no-second-container;session-key-packet-then-the-message-as-it-is/p%d' % pi,
                         z3.BoolVal(sa is None and [x[1].ref for x in added if isinstance(x[1], E.VObj)] == ['skesk', 'plain']))
            else:
                r.oblige(s, 'container-encrypts-the-whole-message-under-that-session-key-and-cipher/p%d' % pi,
                         z3.And(z3.BoolVal(sa is not None), z3.And(ex.seq(sa[0], s) == ex.seq(ea[1], s), ex.as_int(sa[1]) == 9, ex.seq(sa[2], s) == PLAIN) if sa is not None else z3.BoolVal(False)))
                r.oblige(s, 'result:session-key-packet-then-the-container/p%d' % pi,
                         z3.BoolVal([x[1].ref for x in added if isinstance(x[1], E.VObj)] == ['skesk', 'seipd'] and isinstance(v, E.VObj) and v.ref == 'out'))
            if not supplied and not already:
                # no hidden state: the SAME message object encrypted once more gets a session key of its own (the next draw)
                for qi, (s2, v2) in enumerate(ex.call_func(E.VFunc(r.node, None, cls=r.dcls, self_val=me, mod=r.mod), [PW], dict(kws), s, {'mod': r.mod})):
                    if isinstance(v2, E.Raise):
                        r.oblige(s2, 'second-encryption-of-the-same-message:safety(%s)/p%d.%d' % (v2.exc.split(':')[0], pi, qi), z3.BoolVal(False), v2.where)
                        continue
                    d2, e2, a2 = s2.ghost.get('rand', ()), s2.ghost.get('encrypt_sk_args'), s2.ghost.get('seipd_args')
                    okk = len(d2) == 2 and e2 is not None and a2 is not None and e2 is not ea
                    r.oblige(s2, 'second-encryption-of-the-same-message:its-session-key-is-a-second-fresh-draw/p%d.%d' % (pi, qi),
                             z3.And(z3.BoolVal(okk), z3.And(d2[1][0] == 32, ex.seq(e2[1], s2) == d2[1][1], ex.seq(a2[0], s2) == d2[1][1]) if okk else z3.BoolVal(False)))
        return r.result()
    return Scenario(label, MSG + '.encrypt', gen, props=('C03', 'C13', 'C04'))


_base_scn5 = scenarios


def scenarios():
    return _base_scn5() + [message_encrypt(False, False), message_encrypt(True, False), message_encrypt(False, True), message_encrypt('bytearray', False),
                           message_encrypt('bytearray', True), message_encrypt(False, False, pw_octets=True)]


def pkesk_decrypt_rsa():
    """PKESessionKeyV3.decrypt_sk, RSA path: the ciphertext integer is handed to the private key as exactly (modulus bits // 8) octets,
    left-padded with zero octets (an integer with leading zero octets is a legitimate ciphertext: about 1 in 256)"""
    label = 'C04/PKESessionKeyV3.decrypt_sk[RSA path]'

    def gen(repo):
        r = scn.Run(repo, PKESK, 'decrypt_sk', label)
        ex, st = r.ex, r.st
        PA = repo.enum_members('pgpy.constants.PubKeyAlgorithm')
        me = E.VObj(PKESK, 'pkt')
        r.set('pkt', '_pkalg', E.VInt(PA['RSAEncryptOrSign'], enum='pgpy.constants.PubKeyAlgorithm'))
        r.set('pkt', 'ct', E.VObj('pgpy.packet.fields.RSACipherText', 'ct'))
        CT = z3.Const('CIPHERTEXT_OCTETS_WITHOUT_LEADING_ZEROS', B)           # what MPI.to_mpibytes()[2:] yields: the minimal big-endian form
        MPIB = z3.Const('MPI_OCTETS', B)
        st.pc += [z3.Length(MPIB) >= 2, CT == z3.Extract(MPIB, 2, z3.Length(MPIB) - 2)]
        r.set('ct', 'me_mod_n', E.VObj('abstract:MPI', 'c'))
        r.hook('abstract:MPI', 'to_mpibytes', scn.mconst(E.VBytes(MPIB)))
        BITS = z3.Int('modulus_bits')
        st.pc += [BITS >= 8, BITS % 8 == 0, z3.Length(CT) <= BITS / 8]       # RSA moduli PGPy handles are whole octets; c < n
        pk = E.VObj('pgpy.packet.packets.PrivKeyV4', 'recipient')
        r.set('recipient', 'keymaterial', E.VObj('pgpy.packet.fields.RSAPriv', 'km'))
        SK = E.VExt('rsa-private-key', ())
        r.hook('pgpy.packet.fields.RSAPriv', '__privkey__', scn.mconst(SK))
        h = lambda ex, st, o, a: [(st, E.VInt(BITS))]
        h.is_method = False
        ex.hooks[('ext:rsa-private-key', 'key_size')] = h
        M = z3.Const('DECRYPTED_M', B)
        st.pc += [z3.Length(M) >= 1, M[0] >= 0, M[0] < 256]

        def dec(ex, st, o, a):
            st.ghost['rsa_args'] = a
            return [(st, E.VBytes(M))]
        ex.hooks[('ext:rsa-private-key', 'decrypt')] = dec
        for pi, (s, v) in enumerate(r.call(me, [pk])):
            a = s.ghost.get('rsa_args')
            if isinstance(v, E.Raise):
                exc = v.exc.split(':')[0]
                r.oblige(s, 'rejections-are-errors-raised-after-the-private-key-operation(%s)/p%d' % (exc, pi),
                         z3.BoolVal(exc in ('PGPDecryptionError', 'ValueError', 'NotImplementedError') and a is not None), v.where)
                continue
            r.oblige(s, 'the-private-key-of-the-recipient-decrypts-once/p%d' % pi, z3.BoolVal(a is not None and len(a) == 2))
            if a is None:
                continue
            arg = ex.seq(a[0], s)
            n = BITS / 8
            r.oblige(s, 'ciphertext-handed-over-on-exactly-modulus-size-octets/p%d' % pi, z3.Length(arg) == n)
            r.oblige(s, 'its-low-octets-are-the-ciphertext-integer/p%d' % pi, scn.same_octets(z3.Extract(arg, n - z3.Length(CT), z3.Length(CT)), CT))
            k = E.fresh('k')
            # instance of the repetition law  R = X * c  =>  R[k] = X[k mod len X]  at the index asked about
            inst = [z3.Implies(z3.And(k >= 0, k < z3.Length(R)), R[k] == XX[k % z3.Length(XX)]) for (R, XX, c) in s.ghost.get('repeats', [])]
            r.obls.append(('%s/padded-with-zero-octets-on-the-left/p%d' % (label, pi), list(s.facts) + list(s.pc) + inst,
                           z3.Implies(z3.And(k >= 0, k < n - z3.Length(CT)), arg[k] == 0), None))
            r.oblige(s, 'pkcs1v15/p%d' % pi, z3.BoolVal(isinstance(a[1], E.VExt) and a[1].name.startswith('padding.PKCS1v15')))
        return r.result()
    return Scenario(label, PKESK + '.decrypt_sk', gen, props=('C04', 'C03'))


_base_scn6 = scenarios


def scenarios():
    return _base_scn6() + [pkesk_decrypt_rsa()]


def ske_decrypt(cname):
    """SKEData.decrypt (tag 9, RFC 4880 5.7 / 13.9: OpenPGP CFB with resynchronisation): the first block-size + 2 octets are decrypted
    under a zero IV; unless the last two of them repeat the two before, PGPDecryptionError; the rest is decrypted with the ciphertext
    octets 2 .. block-size + 1 as IV, and that is what is returned. (No integrity protection: finding D28 is about where this packet is
    accepted; here: what it computes.)"""
    algid, bsbits, _ = CIPHERS[cname]
    bs = bsbits // 8
    label = 'C04/SKEData.decrypt[%s]' % cname
    SKE = 'pgpy.packet.packets.SKEData'

    def gen(repo):
        r = scn.Run(repo, SKE, 'decrypt', label)
        ex, st = r.ex, r.st
        scn.cipher_facts(r)
        CT, KEYB = z3.Const('CIPHERTEXT', B), z3.Const('SESSION_KEY', B)
        st.pc.append(z3.Length(CT) >= bs + 2)
        me = E.VObj(SKE, 'pkt')
        r.set('pkt', 'ct', ex.new_buf(st, CT))
        alg = E.VInt(algid, enum='pgpy.constants.SymmetricKeyAlgorithm')
        DEC = z3.Function('CFB_DECRYPT', B, B, B, B)          # (ciphertext, key, iv) -> plaintext, same length as the ciphertext
        calls = []

        def dec(ex, st, o, a, kws=None):
            kws = kws or {}
            iv = a[3] if len(a) > 3 else kws.get('iv')
            ivz = ex.seq(iv, st) if iv is not None and not isinstance(iv, E.VNone) else z3.Concat(*[z3.Unit(z3.IntVal(0))] * bs)
            c = ex.seq(a[0], st)
            out = DEC(c, ex.seq(a[1], st), ivz)
            st.facts.append(z3.Length(out) == z3.Length(c))
            st.ghost['dec'] = st.ghost.get('dec', ()) + ((c, ex.seq(a[1], st), ivz, ex.as_int(a[2])),)
            return [(st, ex.new_buf(st, out))]
        dec.wants_kws = True
        ex.fhooks['pgpy.symenc._decrypt'] = dec
        ZERO = z3.Concat(*[z3.Unit(z3.IntVal(0))] * bs)
        P1 = DEC(z3.Extract(CT, 0, bs + 2), KEYB, ZERO)
        quick = z3.Extract(P1, bs - 2, 2) == z3.Extract(P1, bs, 2)
        nret = 0
        for pi, (s, v) in enumerate(r.call(me, [E.VBytes(KEYB), alg])):
            d = s.ghost.get('dec', ())
            if isinstance(v, E.Raise):
                r.oblige(s, 'rejects-only-with-PGPDecryptionError-when-the-prefix-does-not-repeat/p%d' % pi,
                         z3.And(z3.BoolVal(v.exc.split(':')[0] == 'PGPDecryptionError' and len(d) >= 1), z3.Not(quick)), v.where)
                continue
            nret += 1
            r.oblige(s, 'accepted=>prefix-repeats-its-last-two-octets/p%d' % pi, quick)
            ok = len(d) == 2
            r.oblige(s, 'first-the-prefix-under-a-zero-iv,then-the-rest-resynchronised-on-ciphertext-octets-2..bs+1/p%d' % pi,
                     z3.And(z3.BoolVal(ok), z3.And(d[0][0] == z3.Extract(CT, 0, bs + 2), d[0][1] == KEYB, d[0][2] == ZERO, d[0][3] == algid,
                                                  d[1][0] == z3.Extract(CT, bs + 2, z3.Length(CT) - bs - 2), d[1][1] == KEYB,
                                                  d[1][2] == z3.Extract(CT, 2, bs), d[1][3] == algid) if ok else z3.BoolVal(False)))
            if ok:
                r.oblige(s, 'returns-the-second-decryption/p%d' % pi, ex.seq(v, s) == DEC(d[1][0], d[1][1], d[1][2]))
        r.oblige(st, 'cover-an-accepting-path', z3.BoolVal(nret > 0))
        return r.result()
    return Scenario(label, SKE + '.decrypt', gen, props=('C04', 'C03'))


_base_scn_ske = scenarios


def scenarios():
    return _base_scn_ske() + [ske_decrypt('AES256'), ske_decrypt('CAST5')]
