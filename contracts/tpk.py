"""C14: transferable-key export (PGPKey.__bytearray__), exportable flag, stable sorted insertion."""
import z3
from pyvc import scn, engine as E
from pyvc.runner import Scenario
from pyvc.dsl import Contract, Obj, Bytes, Const, Bool
from pyvc.scn import cat

B = E.BYTES
KEY = 'pgpy.pgp.PGPKey'
SIG = 'pgpy.pgp.PGPSignature'


def key_export():
    """shape bounded (2 direct signatures, 2 user ids with 2 and 1 signatures, 2 subkeys); every flag and octet string symbolic"""
    label = 'C14/PGPKey.__bytearray__[2 key sigs, 2 uids (2+1 sigs), 2 subkeys]'

    def gen(repo):
        r = scn.Run(repo, KEY, '__bytearray__', label)
        ex, st = r.ex, r.st
        me = E.VObj(KEY, 'key')
        KB = z3.Const('KEY_PACKET', B)
        r.set('key', '_key', E.VObj('pgpy.packet.packets.PubKeyV4', 'keypkt'))
        r.hook('pgpy.packet.packets.PubKeyV4', '__bytearray__', scn.method_hook(lambda ex, st, o, a: [(st, ex.new_buf(st, KB))]))
        sigs = {n: E.VObj(SIG, n) for n in ('ks0', 'ks1', 'u0s0', 'u0s1', 'u1s0')}
        SB = {n: z3.Const('SIG_%s' % n, B) for n in sigs}
        emb = {n: z3.Bool('embedded_%s' % n) for n in sigs}
        exp = {n: z3.Bool('exportable_%s' % n) for n in sigs}
        r.hook(SIG, '__bytearray__', scn.method_hook(lambda ex, st, o, a: [(st, ex.new_buf(st, SB[o.ref]))]))
        r.hook(SIG, 'embedded', lambda ex, st, o, a: [(st, E.VBool(emb[o.ref]))])
        r.hook(SIG, 'exportable', lambda ex, st, o, a: [(st, E.VBool(exp[o.ref]))])
        r.set('key', '_signatures', ex.new_list(st, [sigs['ks0'], sigs['ks1']]))
        uids = [E.VObj('pgpy.pgp.PGPUID', 'uid0'), E.VObj('pgpy.pgp.PGPUID', 'uid1')]
        UB = [z3.Const('UID0_PACKET', B), z3.Const('UID1_PACKET', B)]
        for i, u in enumerate(uids):
            r.set(u.ref, '_uid', E.VObj('pgpy.packet.packets.UserID', 'uidpkt%d' % i))
        r.hook('pgpy.packet.packets.UserID', '__bytearray__', scn.method_hook(lambda ex, st, o, a: [(st, ex.new_buf(st, UB[int(o.ref[-1])]))]))
        r.set('uid0', '_signatures', ex.new_list(st, [sigs['u0s0'], sigs['u0s1']]))
        r.set('uid1', '_signatures', ex.new_list(st, [sigs['u1s0']]))
        r.set('key', '_uids', ex.new_list(st, uids))
        subs = [E.VObj(KEY, 'sub0'), E.VObj(KEY, 'sub1')]
        SUBB = [z3.Const('SUBKEY0_WITH_ITS_SIGNATURES', B), z3.Const('SUBKEY1_WITH_ITS_SIGNATURES', B)]
        r.set('key', '_children', E.VDict([(E.VStr(s='id0'), subs[0]), (E.VStr(s='id1'), subs[1])]))
        # recursive export of a subkey: its own contract (same function)
        # ... which yields other octets once the subkey's own signatures have changed (epoch 1: second export of the same key object)
        SUBB1 = [z3.Const('SUBKEY0_WITH_ITS_SIGNATURES_AFTER_IT_CHANGED', B), z3.Const('SUBKEY1_WITH_ITS_SIGNATURES_AFTER_IT_CHANGED', B)]
        r.hook(KEY, '__bytearray__', scn.method_hook(lambda ex, st, o, a: [(st, ex.new_buf(st, (SUBB1 if st.ghost.get('epoch') else SUBB)[int(o.ref[-1])]))]))
        E0 = z3.Empty(B)

        def part(n, own):
            keep = z3.And(z3.Not(emb[n]), exp[n]) if own else exp[n]
            return z3.If(keep, SB[n], E0)
        spec = cat(KB, part('ks0', True), part('ks1', True), UB[0], part('u0s0', False), part('u0s1', False), UB[1], part('u1s0', False), SUBB[0], SUBB[1])
        for pi, (s, v) in enumerate(r.call(me, [])):
            if isinstance(v, E.Raise):
                r.oblige(s, 'safety(%s)/p%d' % (v.exc.split(':')[0], pi), z3.BoolVal(False), v.where)
                continue
            r.oblige(s, 'rfc4880-11.1-order-and-exactly-the-exportable-signatures/p%d' % pi, ex.seq(v, s) == spec)
            if pi == 0:
                # no hidden state: exported again after a subkey got another signature (and one identity signature became non-exportable)
                s.ghost['epoch'] = 1
                spec1 = cat(KB, part('ks0', True), part('ks1', True), UB[0], part('u0s0', False), part('u0s1', False), UB[1], part('u1s0', False), SUBB1[0], SUBB1[1])
                for qi, (s2, v2) in enumerate(ex.call_func(E.VFunc(r.node, None, cls=r.dcls, self_val=me, mod=r.mod), [], {}, s, {'mod': r.mod})):
                    if isinstance(v2, E.Raise):
                        r.oblige(s2, 'second-export:safety(%s)/p%d.%d' % (v2.exc.split(':')[0], pi, qi), z3.BoolVal(False), v2.where)
                        continue
                    r.oblige(s2, 'second-export-of-the-same-key-object-after-a-subkey-changed:the-present-components/p%d.%d' % (pi, qi), ex.seq(v2, s2) == spec1)
        return r.result()
    return Scenario(label, KEY + '.__bytearray__', gen, props=('C14', 'C07'))


def subkey_export():
    """PGPKey.__bytearray__ of a SUBKEY object (what bytes(key.subkeys[id]) and bytes(key.subkeys[id].pubkey) give, and what the export of the
    primary key concatenates): its own packet and its own exportable signatures - nothing of the key it belongs to. (The public twin of a
    private subkey has the PRIVATE primary as parent: anything taken from the parent would put a Secret-Key packet into a public export.)"""
    label = 'C14/PGPKey.__bytearray__[a subkey object, its primary is private]'

    def gen(repo):
        r = scn.Run(repo, KEY, '__bytearray__', label)
        ex, st = r.ex, r.st
        me, prim = E.VObj(KEY, 'sub'), E.VObj(KEY, 'prim')
        SUBKB, PRIMKB, UIDB = z3.Const('PUBLIC_SUBKEY_PACKET', B), z3.Const('SECRET_PRIMARY_KEY_PACKET', B), z3.Const('USER_ID_PACKET', B)
        st.pc += [z3.Length(PRIMKB) > 0, z3.Length(UIDB) > 0]
        r.set('sub', '_key', E.VObj('pgpy.packet.packets.PubSubKeyV4', 'subpkt'))
        r.set('prim', '_key', E.VObj('pgpy.packet.packets.PrivKeyV4', 'primpkt'))
        r.hook('pgpy.packet.packets.PubSubKeyV4', '__bytearray__', scn.method_hook(lambda ex, st, o, a: [(st, ex.new_buf(st, SUBKB))]))
        r.hook('pgpy.packet.packets.PrivKeyV4', '__bytearray__', scn.method_hook(lambda ex, st, o, a: [(st, ex.new_buf(st, PRIMKB))]))
        r.hook('pgpy.packet.packets.UserID', '__bytearray__', scn.method_hook(lambda ex, st, o, a: [(st, ex.new_buf(st, UIDB))]))
        sigs = {n: E.VObj(SIG, n) for n in ('binding', 'cross', 'primsig', 'uidsig')}
        SB = {n: z3.Const('SIG_%s' % n, B) for n in sigs}
        emb = {'binding': z3.BoolVal(False), 'cross': z3.BoolVal(True), 'primsig': z3.BoolVal(False), 'uidsig': z3.BoolVal(False)}
        exp = {n: z3.Bool('exportable_%s' % n) for n in sigs}
        r.hook(SIG, '__bytearray__', scn.method_hook(lambda ex, st, o, a: [(st, ex.new_buf(st, SB[o.ref]))]))
        r.hook(SIG, 'embedded', lambda ex, st, o, a: [(st, E.VBool(emb[o.ref]))])
        r.hook(SIG, 'exportable', lambda ex, st, o, a: [(st, E.VBool(exp[o.ref]))])
        r.set('sub', '_signatures', ex.new_list(st, [sigs['binding'], sigs['cross']]))
        r.set('sub', '_uids', ex.new_list(st, []))
        r.set('sub', '_children', E.VDict([]))
        uid = E.VObj('pgpy.pgp.PGPUID', 'uid')
        r.set('uid', '_uid', E.VObj('pgpy.packet.packets.UserID', 'uidpkt'))
        r.set('uid', '_signatures', ex.new_list(st, [sigs['uidsig']]))
        r.set('prim', '_signatures', ex.new_list(st, [sigs['primsig']]))
        r.set('prim', '_uids', ex.new_list(st, [uid]))
        r.set('prim', '_children', E.VDict([(E.VStr(s='id'), me)]))
        r.hook(KEY, 'is_primary', lambda ex, st, o, a: [(st, E.VBool(o.ref == 'prim'))])
        par = lambda ex, st, o, a: [(st, prim if o.ref == 'sub' else E.VNone())]
        r.hook('pgpy.types.ParentRef', 'parent', par)
        r.hook('pgpy.types.ParentRef', '_parent', par)
        spec = cat(SUBKB, z3.If(exp['binding'], SB['binding'], z3.Empty(B)))
        for pi, (s, v) in enumerate(r.call(me, [])):
            if isinstance(v, E.Raise):
                r.oblige(s, 'safety(%s)/p%d' % (v.exc.split(':')[0], pi), z3.BoolVal(False), v.where)
                continue
            r.oblige(s, 'its-own-packet-and-its-own-exportable-signatures,nothing-of-the-primary-key/p%d' % pi, ex.seq(v, s) == spec)
        return r.result()
    return Scenario(label, KEY + '.__bytearray__', gen, props=('C14', 'C07'))


def exportable_flag():
    label = 'C14/PGPSignature.exportable'

    def gen(repo):
        obls, funcs, paths = [], [], 0
        for present in (False, True, 'twice'):
            # 'twice': the signed (hashed) subpacket and a second one in the unhashed area, which anybody can append without breaking the
            # signature: the signed statement decides (the container lists hashed subpackets before unhashed ones)
            r = scn.Run(repo, SIG, 'exportable', label + ('[hashed subpacket and an unhashed one appended]' if present == 'twice' else '[subpacket present]' if present else '[no subpacket]'))
            ex, st = r.ex, r.st
            me = E.VObj(SIG, 'sig')
            r.set('sig', '_signature', E.VObj('pgpy.packet.packets.SignatureV4', 'spkt'))
            r.set('spkt', 'subpackets', E.VObj('pgpy.packet.fields.SubPackets', 'subp'))
            flag = z3.Bool('exportable_subpacket_value')
            flag_unhashed = z3.Bool('value_of_the_unhashed_subpacket_appended_later')
            sp = E.VObj('pgpy.packet.subpackets.signature.ExportableCertification', 'ec')
            sp_u = E.VObj('pgpy.packet.subpackets.signature.ExportableCertification', 'ec-unhashed')
            # the signature may carry any other subpackets - e.g. a revocation key marked sensitive -, none of which decides exportability
            has_rk, rk_sensitive = z3.Bool('has_a_revocation_key_subpacket'), z3.Bool('revocation_key_is_marked_sensitive')
            RK = 'pgpy.packet.subpackets.signature.RevocationKey'
            rk = E.VObj(RK, 'rk')
            r.hook(RK, 'keyclass', scn.const(E.VSet([E.VInt(0x80, enum='pgpy.constants.RevocationKeyClass'), E.VInt(0x40, enum='pgpy.constants.RevocationKeyClass')],
                                                    [z3.BoolVal(True), rk_sensitive])))

            def contains(ex, st, o, a):
                name = a[0].s if isinstance(a[0], E.VStr) else None
                if name in ('ExportableCertification', 'h_ExportableCertification'):
                    return [(st, E.VBool(present))]
                if name in ('RevocationKey', 'h_RevocationKey'):
                    return [(st, E.VBool(has_rk))]
                return [(st, E.VBool(z3.Bool('has_subpacket_%s' % name)))]

            def getitem(ex, st, o, a):
                name = a[0].s if isinstance(a[0], E.VStr) else None
                if name == 'h_ExportableCertification':
                    return [(st, ex.new_list(st, [sp] if present else []))]
                if name == 'ExportableCertification':
                    return [(st, ex.new_list(st, [sp, sp_u] if present == 'twice' else [sp] if present else []))]
                if name in ('RevocationKey', 'h_RevocationKey'):
                    s2 = st.clone()
                    st.pc.append(has_rk)
                    s2.pc.append(z3.Not(has_rk))
                    return [(st, ex.new_list(st, [rk])), (s2, ex.new_list(s2, []))]
                return [(st, ex.new_list(st, []))]
            r.hook('pgpy.packet.fields.SubPackets', '__contains__', scn.method_hook(contains))
            r.hook('pgpy.packet.fields.SubPackets', '__getitem__', scn.method_hook(getitem))
            r.hook('pgpy.packet.subpackets.signature.Boolean', '__bool__', scn.method_hook(lambda ex, st, o, a: [(st, E.VBool(flag_unhashed if o.ref == 'ec-unhashed' else flag))]))
            for pi, (s, v) in enumerate(r.call(me, [])):
                paths += 1
                if isinstance(v, E.Raise):
                    r.oblige(s, 'safety(%s)/p%d' % (v.exc.split(':')[0], pi), z3.BoolVal(False), v.where)
                    continue
                r.oblige(s, 'exportable-unless-marked-otherwise%s/p%d' % ('(the-signed-subpacket-decides)' if present == 'twice' else '', pi),
                         ex.truth(v, s) == (flag if present else z3.BoolVal(True)))
            res = r.result()
            obls += res['obligations']
            funcs = res['funcs']
        return {'obligations': obls, 'funcs': funcs, 'paths': paths}
    return Scenario(label, SIG + '.exportable', gen, props=('C14',))


BOOLSP = 'pgpy.packet.subpackets.signature.Boolean'


def _mk_bool(f):
    from pgpy.packet.subpackets.signature import ExportableCertification
    o = ExportableCertification()
    o._bool = f['_bool']
    return o


bool_parse = Contract('C14/subpackets.Boolean.bflag_bytearray', BOOLSP + '.bflag_bytearray',
                      params={'self': Obj('pgpy.packet.subpackets.signature.ExportableCertification', {'_bool': Const(False)}, build=_mk_bool),
                              'val': Bytes(1, 1, kind='bytearray')},
                      ensures=[('parsed-octet-decides-the-flag', 'self._bool == (old_val[0] != 0)')], props=('C14', 'C05', 'C08'))
bool_value = Contract('C14/subpackets.Boolean.__bool__', BOOLSP + '.__bool__',
                      params={'self': Obj('pgpy.packet.subpackets.signature.ExportableCertification', {'_bool': Bool()}, build=_mk_bool)},
                      ensures=[('value', 'result == self._bool')], props=('C14',))


def insort(n):
    label = 'C14/SorteDeque.insort[%d elements]' % n

    def gen(repo):
        r = scn.Run(repo, 'pgpy.types.SorteDeque', 'insort', label)
        ex, st = r.ex, r.st
        items = [E.VObj(SIG, 'e%d' % i) for i in range(n)]
        new = E.VObj(SIG, 'new')
        key = {o.ref: z3.Int('created_' + o.ref) for o in items + [new]}
        for i in range(n - 1):
            st.pc.append(key['e%d' % i] <= key['e%d' % (i + 1)])       # representation invariant: sorted by creation time
        r.hook(SIG, '__lt__', scn.method_hook(lambda ex, st, o, a: [(st, E.VBool(key[o.ref] < key[a[0].ref]))]))
        me = ex.new_list(st, items)
        for pi, (s, v) in enumerate(r.call(me, [new])):
            if isinstance(v, E.Raise):
                r.oblige(s, 'safety(%s)/p%d' % (v.exc.split(':')[0], pi), z3.BoolVal(False), v.where)
                continue
            res = [x.ref for x in ex.items(me, s)]
            r.oblige(s, 'multiset-preserved-plus-the-new-element/p%d' % pi, z3.BoolVal(sorted(res) == sorted([o.ref for o in items] + ['new'])))
            r.oblige(s, 'earlier-elements-keep-their-order/p%d' % pi, z3.BoolVal([x for x in res if x != 'new'] == [o.ref for o in items]))
            if 'new' in res:
                i = res.index('new')
                r.oblige(s, 'still-sorted/p%d' % pi, z3.And(*([key[res[j]] <= key[res[j + 1]] for j in range(len(res) - 1)] or [z3.BoolVal(True)])))
                r.oblige(s, 'stable:new-element-after-every-equal-one/p%d' % pi, z3.And(*([key[res[j]] != key['new'] for j in range(i + 1, len(res))] or [z3.BoolVal(True)])))
        return r.result()
    return Scenario(label, 'pgpy.types.SorteDeque.insort', gen, props=('C14', 'C15', 'C20'))


def scenarios():
    return [key_export(), subkey_export(), exportable_flag(), bool_parse, bool_value] + [insort(n) for n in (0, 1, 2, 3)]


def key_or(what):
    """PGPKey.__or__: where each kind of object is attached when a key is assembled from packets (import) or extended"""
    label = 'C14/PGPKey.__or__[%s]' % what
    UID, PKT = 'pgpy.pgp.PGPUID', 'pgpy.packet.packets.PubKeyV4'
    SD = 'pgpy.types.SorteDeque'

    def gen(repo):
        r = scn.Run(repo, KEY, '__or__', label)
        ex, st = r.ex, r.st
        me = E.VObj(KEY, 'key')
        r.set('key', '_sibling', E.VNone())
        r.set('key', '_signatures', E.VObj(SD, 'key-sigs'))
        r.set('key', '_uids', E.VObj(SD, 'key-uids'))
        r.set('key', '_children', E.VDict([]))

        def insort(ex, st, o, a):
            st.ghost['insorted'] = st.ghost.get('insorted', ()) + ((o.ref, a[0]),)
            return [(st, E.VNone())]
        r.hook(SD, 'insort', scn.method_hook(insort))         # contract proved above (insort keeps order, stable)
        pub_me, pub_other, other_primary = z3.Bools('this_key_is_public other_is_public other_is_primary')
        r.hook(KEY, 'is_public', lambda ex, st, o, a: [(st, E.VBool(pub_me if o.ref == 'key' else pub_other))])
        r.hook(KEY, 'is_primary', lambda ex, st, o, a: [(st, E.VBool(other_primary if o.ref == 'other' else True))])
        KEYID = E.VStr(z=z3.Const('SUBKEY_ID', B))
        FP = 'pgpy.types.Fingerprint'
        r.hook(KEY, 'fingerprint', lambda ex, st, o, a: [(st, E.VObj(FP, 'fp-' + o.ref))])
        r.hook(FP, 'keyid', scn.const(KEYID))
        if what == 'key packet':
            r.set('key', '_key', E.VNone())
            other = E.VObj(PKT, 'pkt')
        elif what == 'second key packet':
            r.set('key', '_key', E.VObj(PKT, 'first'))
            other = E.VObj(PKT, 'pkt')
        elif what == 'subkey':
            r.set('key', '_key', E.VObj(PKT, 'first'))
            other = E.VObj(KEY, 'other')
        elif what == 'signature':
            r.set('key', '_key', E.VObj(PKT, 'first'))
            other = E.VObj(SIG, 'sig')
            binding = z3.Bool('is_subkey_binding')
            ST = repo.enum_members('pgpy.constants.SignatureType')
            r.hook(SIG, 'type', scn.const(E.VInt(z3.If(binding, ST['Subkey_Binding'], ST['Positive_Cert']), enum='pgpy.constants.SignatureType')))
            r.set('sig', '_signature', E.VObj('pgpy.packet.packets.SignatureV4', 'sigpkt'))
            r.set('sigpkt', 'subpackets', E.VObj('pgpy.packet.fields.SubPackets', 'subp'))
            emb = E.VObj('pgpy.packet.subpackets.signature.EmbeddedSignature', 'embedded-packet')
            r.hook('pgpy.packet.fields.SubPackets', '__getitem__', scn.method_hook(lambda ex, st, o, a: [(st, ex.new_list(st, [emb]))]))
            r.hook(SIG, '__call__', lambda ex, st, c, a: [(st, E.VObj(SIG, 'wrapped-embedded'))])
            r.hook(SIG, '__or__', scn.method_hook(lambda ex, st, o, a: [(st, o)]))
        else:
            r.set('key', '_key', E.VObj(PKT, 'first'))
            other = E.VObj(UID, 'uid')
        for pi, (s, v) in enumerate(r.call(me, [other])):
            ins = s.ghost.get('insorted', ())
            if what == 'second key packet':
                r.oblige(s, 'a-key-that-has-its-packet-refuses-another-one(TypeError),nothing-changes/p%d' % pi,
                         z3.BoolVal(isinstance(v, E.Raise) and v.exc.split(':')[0] == 'TypeError' and len(ins) == 0 and s.heap.get(('key', '_key')).ref == 'first'))
                continue
            if isinstance(v, E.Raise):
                if what == 'subkey':
                    r.oblige(s, 'refused(TypeError)-only-if-the-other-key-is-a-primary-or-of-the-other-half/p%d' % pi,
                             z3.And(z3.BoolVal(v.exc.split(':')[0] == 'TypeError'), z3.Or(other_primary, pub_other != pub_me)), v.where)
                else:
                    r.oblige(s, 'safety(%s)/p%d' % (v.exc.split(':')[0], pi), z3.BoolVal(False), v.where)
                continue
            r.oblige(s, 'returns-this-key/p%d' % pi, z3.BoolVal(v is me or (isinstance(v, E.VObj) and v.ref == 'key')))
            if what == 'key packet':
                r.oblige(s, 'becomes-the-key-packet/p%d' % pi, z3.BoolVal(s.heap.get(('key', '_key')) is other and len(ins) == 0))
            elif what == 'subkey':
                ch = s.heap.get(('key', '_children'))
                pairs = ch.of(s) if isinstance(ch, E.VDict) else []
                r.oblige(s, 'attached-as-subkey-under-its-key-id,with-this-key-as-parent/p%d' % pi,
                         z3.And(z3.Not(other_primary), pub_other == pub_me,
                                z3.BoolVal(len(pairs) == 1 and pairs[0][0] is KEYID and pairs[0][1] is other and len(ins) == 0)))
                par = s.heap.get(('other', '__parent'))
                r.oblige(s, 'parent-link/p%d' % pi, z3.BoolVal(isinstance(par, E.VExt) and par.name == 'weakref.ref' and par.args[0] is me))
            elif what == 'signature':
                refs = [(d, x.ref) for d, x in ins if isinstance(x, E.VObj)]
                r.oblige(s, 'inserted-in-order-among-the-key-signatures;a-subkey-binding-also-contributes-its-embedded-cross-signature/p%d' % pi,
                         z3.If(binding, z3.BoolVal(refs == [('key-sigs', 'sig'), ('key-sigs', 'wrapped-embedded')]), z3.BoolVal(refs == [('key-sigs', 'sig')])))
                if len(refs) == 2:
                    r.oblige(s, 'the-embedded-signature-is-marked-as-belonging-to-the-binding/p%d' % pi,
                             z3.BoolVal(isinstance(s.heap.get(('wrapped-embedded', '__parent')), E.VExt) and s.heap[('wrapped-embedded', '__parent')].args[0] is other))
            else:
                refs = [(d, x.ref) for d, x in ins if isinstance(x, E.VObj)]
                r.oblige(s, 'inserted-in-order-among-the-identities/p%d' % pi, z3.BoolVal(refs == [('key-uids', 'uid')]))
                par = s.heap.get(('uid', '__parent'))
                r.oblige(s, 'with-this-key-as-its-parent/p%d' % pi, z3.BoolVal(isinstance(par, E.VExt) and par.name == 'weakref.ref' and par.args[0] is me))
        return r.result()
    return Scenario(label, KEY + '.__or__', gen, props=('C14', 'C15'))


_base_scn_or = scenarios


def scenarios():
    return _base_scn_or() + [key_or(w) for w in ('key packet', 'second key packet', 'subkey', 'signature', 'identity')]


def key_copy():
    """PGPKey.__copy__: a new key holding copies of the key packet, of every identity, of every subkey and of every key signature that is
    not an embedded one (those are re-derived from their binding signature when that is attached)"""
    label = 'C14/PGPKey.__copy__'
    UID, PKT = 'pgpy.pgp.PGPUID', 'pgpy.packet.packets.PubKeyV4'

    def gen(repo):
        r = scn.Run(repo, KEY, '__copy__', label)
        ex, st = r.ex, r.st
        me = E.VObj(KEY, 'key')
        r.hook('pgpy.types.Armorable', '__copy__', scn.method_hook(lambda ex, st, o, a: [(st, E.VObj(KEY, 'copy'))]))
        r.set('key', '_key', E.VObj(PKT, 'pkt'))
        uids = [E.VObj(UID, 'uid0'), E.VObj(UID, 'attr0')]
        subs = [E.VObj(KEY, 'sub0'), E.VObj(KEY, 'sub1')]
        sigs = [E.VObj(SIG, 's0'), E.VObj(SIG, 's1'), E.VObj(SIG, 's2')]
        emb = {x.ref: z3.Bool('embedded_' + x.ref) for x in sigs}
        r.set('key', '_uids', ex.new_list(st, uids))
        r.set('key', '_children', E.VDict([(E.VStr(s='id0'), subs[0]), (E.VStr(s='id1'), subs[1])]))
        r.set('key', '_signatures', ex.new_list(st, sigs))
        r.hook(SIG, 'embedded', lambda ex, st, o, a: [(st, E.VBool(emb[o.ref]))])

        def cp(ex, st, o, a):
            return [(st, E.VObj(o.cls, 'copy-of-' + str(o.ref)))]
        for c in (UID, SIG, PKT):
            r.hook(c, '__copy__', scn.method_hook(cp))

        def sub_copy(ex, st, o, a):
            return [(st, E.VObj(KEY, 'copy-of-' + str(o.ref)))]

        # the new key starts empty; what `key |= x` does to it is given by contract (PGPKey.__or__ has its own scenarios): an identity goes
        # to the identities, a subkey to the subkeys, a signature to the key signatures - the obligations below read these collections,
        # whichever way the function fills them
        r.set('copy', '_uids', ex.new_list(st, []))
        r.set('copy', '_signatures', ex.new_list(st, []))
        r.set('copy', '_children', ex.new_list(st, []))

        def ior(ex, st, o, a):
            x = a[0]
            if o.ref == 'copy' and isinstance(x, E.VObj):
                fld = '_uids' if x.cls == UID else '_signatures' if x.cls == SIG else '_children' if x.cls == KEY else None
                if fld is None:
                    return [(st, E.Raise('TypeError', 0))]
                lst = st.heap[('copy', fld)]
                st.heap[lst.cell] = st.heap[lst.cell] + (x,)
            st.ghost['order'] = st.ghost.get('order', ()) + (getattr(x, 'ref', None),)
            return [(st, o)]
        r.hook(KEY, '__or__', scn.method_hook(ior))
        # copies of subkeys are PGPKey copies too: give them by contract (same function, one level down)
        orig_getattr = ex.getattr

        def getattr_(o, attr, st, ctx, n=None):
            if attr == '__copy__' and isinstance(o, E.VObj) and o.cls == KEY and o.ref in ('sub0', 'sub1'):
                return [(st, E.VBuiltin('hook', bound=(sub_copy, o)))]
            return orig_getattr(o, attr, st, ctx, n)
        ex.getattr = getattr_
        for pi, (s, v) in enumerate(r.call(me, [])):
            if isinstance(v, E.Raise):
                r.oblige(s, 'safety(%s)/p%d' % (v.exc.split(':')[0], pi), z3.BoolVal(False), v.where)
                continue
            r.oblige(s, 'a-new-key/p%d' % pi, z3.BoolVal(isinstance(v, E.VObj) and v.ref == 'copy'))
            kp = s.heap.get(('copy', '_key'))
            r.oblige(s, 'holding-a-copy-of-the-key-packet/p%d' % pi, z3.BoolVal(isinstance(kp, E.VObj) and kp.ref == 'copy-of-pkt'))
            got = {}
            for fld in ('_uids', '_children', '_signatures'):
                lst = s.heap.get(('copy', fld))
                got[fld] = [getattr(x, 'ref', None) for x in ex.items(lst, s)] if isinstance(lst, E.VList) else None
            r.oblige(s, 'its-identities-are-copies-of-every-identity,in-order/p%d' % pi, z3.BoolVal(got['_uids'] == ['copy-of-uid0', 'copy-of-attr0']))
            r.oblige(s, 'its-subkeys-are-copies-of-every-subkey,in-order/p%d' % pi, z3.BoolVal(got['_children'] == ['copy-of-sub0', 'copy-of-sub1']))
            rest = got['_signatures'] or []
            r.oblige(s, 'its-key-signatures-are-copies,each-once,in-order/p%d' % pi,
                     z3.BoolVal(got['_signatures'] is not None and rest == [x for x in ['copy-of-s0', 'copy-of-s1', 'copy-of-s2'] if x in rest]))
            for x in sigs:
                r.oblige(s, '%s-copied-iff-it-is-not-an-embedded-signature/p%d' % (x.ref, pi), z3.BoolVal('copy-of-' + x.ref in rest) == z3.Not(emb[x.ref]))
        return r.result()
    return Scenario(label, KEY + '.__copy__', gen, props=('C14', 'C15'))


_base_scn_kc = scenarios


def scenarios():
    return _base_scn_kc() + [key_copy()]


def uid_or_copy():
    """PGPUID.__or__ (a signature is inserted in order; a packet only into an empty shell; anything else refused) and PGPUID.__copy__
    (a new identity holding a copy of the packet and of every signature, in order)"""
    label = 'C14/PGPUID.__or__+__copy__'
    UID, SD = 'pgpy.pgp.PGPUID', 'pgpy.types.SorteDeque'
    UIDP = 'pgpy.packet.packets.UserID'

    def gen(repo):
        obls, funcs, paths = [], [], 0
        for what in ('signature', 'packet', 'second packet', 'key'):
            r = scn.Run(repo, UID, '__or__', label + '[__or__ %s]' % what)
            ex, st = r.ex, r.st
            me = E.VObj(UID, 'uid')
            r.set('uid', '_signatures', E.VObj(SD, 'sigs'))
            r.set('uid', '_uid', E.VObj(UIDP, 'first') if what in ('second packet', 'signature') else E.VNone())
            r.hook('pgpy.types.ParentRef', 'parent', scn.const(E.VNone()))

            def insort(ex, st, o, a):
                st.ghost['insorted'] = st.ghost.get('insorted', ()) + (a[0],)
                return [(st, E.VNone())]
            r.hook(SD, 'insort', scn.method_hook(insort))
            other = {'signature': E.VObj(SIG, 'sig'), 'packet': E.VObj(UIDP, 'pkt'), 'second packet': E.VObj(UIDP, 'pkt'), 'key': E.VObj(KEY, 'key')}[what]
            for pi, (s, v) in enumerate(r.call(me, [other])):
                paths += 1
                ins = s.ghost.get('insorted', ())
                if what in ('second packet', 'key'):
                    r.oblige(s, 'refused(TypeError),nothing-changes/p%d' % pi,
                             z3.BoolVal(isinstance(v, E.Raise) and v.exc.split(':')[0] == 'TypeError' and len(ins) == 0
                                        and (s.heap.get(('uid', '_uid')).ref == 'first' if what == 'second packet' else isinstance(s.heap.get(('uid', '_uid')), E.VNone))))
                    continue
                if isinstance(v, E.Raise):
                    r.oblige(s, 'safety(%s)/p%d' % (v.exc.split(':')[0], pi), z3.BoolVal(False), v.where)
                    continue
                if what == 'signature':
                    r.oblige(s, 'inserted-in-order-among-the-signatures-of-this-identity/p%d' % pi, z3.BoolVal(len(ins) == 1 and ins[0] is other and v is me))
                else:
                    r.oblige(s, 'becomes-the-packet-of-the-identity/p%d' % pi, z3.BoolVal(s.heap.get(('uid', '_uid')) is other and len(ins) == 0))
            res = r.result()
            obls += res['obligations']
            funcs += res['funcs']
        r = scn.Run(repo, UID, '__copy__', label + '[__copy__]')
        ex, st = r.ex, r.st
        r.set('uid', '_uid', E.VObj(UIDP, 'pkt'))
        sigs = [E.VObj(SIG, 's0'), E.VObj(SIG, 's1')]
        r.set('uid', '_signatures', ex.new_list(st, sigs))
        r.hook(UID, '__call__', lambda ex, st, c, a: [(st, E.VObj(UID, 'copy'))])
        cp = lambda ex, st, o, a: [(st, E.VObj(o.cls, 'copy-of-' + str(o.ref)))]
        r.hook(SIG, '__copy__', scn.method_hook(cp))
        r.hook(UIDP, '__copy__', scn.method_hook(cp))

        def ior(ex, st, o, a):
            st.ghost['attached'] = st.ghost.get('attached', ()) + ((o.ref, a[0]),)
            return [(st, o)]
        r.hook(UID, '__or__', scn.method_hook(ior))
        for pi, (s, v) in enumerate(r.call(E.VObj(UID, 'uid'), [])):
            paths += 1
            if isinstance(v, E.Raise):
                r.oblige(s, 'safety(%s)/p%d' % (v.exc.split(':')[0], pi), z3.BoolVal(False), v.where)
                continue
            att = [(t, x.ref) for t, x in s.ghost.get('attached', ()) if isinstance(x, E.VObj)]
            r.oblige(s, 'a-new-identity-with-copies-of-the-packet-and-of-every-signature-in-order/p%d' % pi,
                     z3.BoolVal(isinstance(v, E.VObj) and v.ref == 'copy' and att == [('copy', 'copy-of-pkt'), ('copy', 'copy-of-s0'), ('copy', 'copy-of-s1')]))
        res = r.result()
        return {'obligations': obls + res['obligations'], 'funcs': funcs + res['funcs'], 'paths': paths}
    return Scenario(label, UID + '.__or__', gen, props=('C14', 'C15'))


_base_scn_uc = scenarios


def sig_or_copy():
    """PGPSignature.__or__ (a signature packet goes into an empty shell only) and PGPSignature.__copy__ (a new signature object holding a
    copy of the packet and a copy of the armor headers; what the packet copy carries: C08/SignatureV4.__copy__)"""
    label = 'C14/PGPSignature.__or__+__copy__'
    SIGP = 'pgpy.packet.packets.SignatureV4'

    def gen(repo):
        obls, funcs, paths = [], [], 0
        for what in ('packet', 'second packet', 'user id packet'):
            r = scn.Run(repo, SIG, '__or__', label + '[__or__ %s]' % what)
            ex, st = r.ex, r.st
            me = E.VObj(SIG, 'sig')
            r.set('sig', '_signature', E.VObj(SIGP, 'first') if what == 'second packet' else E.VNone())
            other = E.VObj('pgpy.packet.packets.UserID', 'uidpkt') if what == 'user id packet' else E.VObj(SIGP, 'pkt')
            for pi, (s, v) in enumerate(r.call(me, [other])):
                paths += 1
                cur = s.heap.get(('sig', '_signature'))
                if what != 'packet':
                    r.oblige(s, 'refused(TypeError),nothing-changes/p%d' % pi,
                             z3.BoolVal(isinstance(v, E.Raise) and v.exc.split(':')[0] == 'TypeError'
                                        and (cur.ref == 'first' if what == 'second packet' else isinstance(cur, E.VNone))))
                    continue
                if isinstance(v, E.Raise):
                    r.oblige(s, 'safety(%s)/p%d' % (v.exc.split(':')[0], pi), z3.BoolVal(False), v.where)
                    continue
                r.oblige(s, 'becomes-the-packet-of-the-signature/p%d' % pi, z3.BoolVal(cur is other and v is me))
            res = r.result()
            obls += res['obligations']
            funcs += res['funcs']
        r = scn.Run(repo, SIG, '__copy__', label + '[__copy__]')
        ex, st = r.ex, r.st
        r.set('sig', '_signature', E.VObj(SIGP, 'pkt'))
        hdrs = E.VDict([(E.VStr(s='Comment'), E.VStr(z=z3.Const('COMMENT', E.BYTES)))])
        r.set('sig', 'ascii_headers', hdrs)

        def fresh(ex, st, c, a):
            st.heap[('copy', '_signature')] = E.VNone()
            st.heap[('copy', 'ascii_headers')] = E.VDict([])
            return [(st, E.VObj(SIG, 'copy'))]
        r.hook(SIG, '__call__', fresh)
        r.hook(SIGP, '__copy__', scn.method_hook(lambda ex, st, o, a: [(st, E.VObj(o.cls, 'copy-of-' + str(o.ref)))]))
        for pi, (s, v) in enumerate(r.call(E.VObj(SIG, 'sig'), [])):
            paths += 1
            if isinstance(v, E.Raise):
                r.oblige(s, 'safety(%s)/p%d' % (v.exc.split(':')[0], pi), z3.BoolVal(False), v.where)
                continue
            pk, hd = s.heap.get(('copy', '_signature')), s.heap.get(('copy', 'ascii_headers'))
            r.oblige(s, 'a-new-signature-object-holding-a-copy-of-the-packet/p%d' % pi,
                     z3.BoolVal(isinstance(v, E.VObj) and v.ref == 'copy' and isinstance(pk, E.VObj) and pk.ref == 'copy-of-pkt'))
            same = isinstance(hd, E.VDict) and hd.cell != hdrs.cell and len(hd.of(s)) == 1 and hd.of(s)[0][0].s == 'Comment' and hd.of(s)[0][1] is hdrs.pairs[0][1]
            r.oblige(s, 'armor-headers:an-own-dict-with-the-same-entries/p%d' % pi, z3.BoolVal(bool(same)))
            r.oblige(s, 'original-untouched/p%d' % pi, z3.BoolVal(s.heap.get(('sig', '_signature')).ref == 'pkt' and s.heap.get(('sig', 'ascii_headers')) is hdrs
                                                                    and len(hdrs.of(s)) == 1))
        res = r.result()
        return {'obligations': obls + res['obligations'], 'funcs': funcs + res['funcs'], 'paths': paths}
    return Scenario(label, SIG + '.__copy__', gen, props=('C14', 'C02', 'C07', 'C08'))


def scenarios():
    return _base_scn_uc() + [uid_or_copy(), sig_or_copy()]


def key_parse(shape_name, shape):
    """PGPKey.parse (import of a transferable key): which object every packet ends up on. `shape` is the packet sequence the reader
    yields (the packet reader itself is given by contract: one packet per call, consuming its octets from the front of the buffer):
      K primary key, S signature, U user id, A user attribute, B subkey, T trust packet (dropped),
      O signature packet of an unknown version (skipped), X packet with an unknown tag (dropped together with the signatures after it)
    Expected (RFC 4880 11.1): signatures attach to the key / identity / subkey before them; identities and subkeys to the most recent
    primary key; a second primary key starts a new key, returned in the dict of further keys."""
    label = 'C14/PGPKey.parse[%s]' % shape_name
    PK, T = 'pgpy.packet.packets.', 'pgpy.packet.types.'
    CLS = {'K': PK + 'PubKeyV4', 'S': PK + 'SignatureV4', 'U': PK + 'UserID', 'A': PK + 'UserAttribute', 'B': PK + 'PubSubKeyV4',
           'T': PK + 'Trust', 'O': T + 'Opaque', 'X': T + 'Opaque', 'k': PK + 'PrivKeyV4', 'b': PK + 'PrivSubKeyV4'}
    # a token is a letter, optionally followed by a digit naming the key identity (K1 and k1: public and private form of the same key)
    import re as _re
    tokens = _re.findall(r'[A-Za-z]\d?', shape)
    ident = [t[1:] or str(i) for i, t in enumerate(tokens)]
    shape = ''.join(t[0] for t in tokens)
    isprim = lambda c: c in 'Kk'
    issub = lambda c: c in 'Bb'
    UID = 'pgpy.pgp.PGPUID'

    def gen(repo):
        r = scn.Run(repo, KEY, 'parse', label)
        ex, st = r.ex, r.st
        me = E.VObj(KEY, 'self')
        r.set('self', '_key', E.VNone())
        PTAG = repo.enum_members('pgpy.constants.PacketTag')
        tags = {'K': 'PublicKey', 'S': 'Signature', 'U': 'UserID', 'A': 'UserAttribute', 'B': 'PublicSubKey', 'T': 'Trust', 'O': 'Signature', 'X': 'Marker',
                'k': 'SecretKey', 'b': 'SecretSubKey'}
        pkts = []
        for i, c in enumerate(shape):
            p = E.VObj(CLS[c], 'p%d%s' % (i, c))
            r.set(p.ref, 'header', E.VObj(T + 'Header', 'h%d' % i))
            r.set('h%d' % i, '_tag', E.VInt(PTAG[tags[c]], enum='pgpy.constants.PacketTag'))
            pkts.append(p)
        NB = len(shape)
        buf = ex.new_buf(st, z3.Const('BODY', B))
        st.pc += [z3.Length(st.heap[buf.cell]) == NB]          # one abstract octet stands for one packet
        d = E.VDict([(E.VStr(s='magic'), E.VNone()), (E.VStr(s='headers'), E.VNone()), (E.VStr(s='body'), buf), (E.VStr(s='crc'), E.VNone())])
        r.hook('pgpy.types.Armorable', 'ascii_unarmor', scn.method_hook(lambda ex, st, o, a: [(st, d)]))

        def packet(ex, st, c, a):
            n = st.ghost.get('nread', 0)
            st.ghost['nread'] = n + 1
            S = st.heap[a[0].cell]
            st.heap[a[0].cell] = z3.Extract(S, 1, z3.Length(S) - 1)
            return [(st, pkts[n])]
        r.hook(T + 'Packet', '__call__', packet)
        made = {'n': 0}

        def mk(cls, prefix):
            def h(ex, st, c, a):
                k = st.ghost.get('made_' + prefix, 0)
                st.ghost['made_' + prefix] = k + 1
                if cls in (KEY, UID):
                    st.heap[('%s%d' % (prefix, k), '_signatures')] = ex.new_list(st, [])       # what the constructor leaves: no signature yet
                return [(st, E.VObj(cls, '%s%d' % (prefix, k)))]
            return h
        r.set('self', '_signatures', ex.new_list(st, []))
        # who issued a signature is arbitrary (a subkey may carry a revocation by a designated revoker, an identity the certifications of
        # others): whoever it names, it stays on the object it was read for
        SPC = 'pgpy.packet.fields.SubPackets'
        for p_ in pkts:
            if p_.cls == CLS['S']:
                r.set(p_.ref, 'subpackets', E.VObj(SPC, 'subpackets-of-' + p_.ref))
        r.hook(SPC, '__contains__', scn.method_hook(lambda ex, st, o, a: [(st, E.VBool(z3.Bool('%s_has_%s' % (o.ref, getattr(a[0], 's', 'x')))))]))
        r.hook(SIG, 'embedded', scn.const(E.VBool(False)))
        r.hook(SIG, 'parent', scn.const(E.VNone()))
        r.hook(SIG, 'signer_fingerprint', lambda ex, st, o, a: [(st, E.VStr(z=z3.Const('ISSUER_FINGERPRINT_NAMED_BY_%s' % o.ref, B)))])
        r.hook(SIG, 'signer', lambda ex, st, o, a: [(st, E.VStr(z=z3.Const('ISSUER_KEY_ID_NAMED_BY_%s' % o.ref, B)))])
        r.hook(KEY, '__call__', mk(KEY, 'newkey'))
        r.hook(UID, '__call__', mk(UID, 'uid'))
        r.hook(SIG, '__call__', mk(SIG, 'sig'))

        def attach(ex, st, o, a):
            st.ghost['attached'] = st.ghost.get('attached', ()) + ((str(o.ref), str(a[0].ref) if isinstance(a[0], E.VObj) else repr(a[0])),)
            if isinstance(a[0], E.VObj) and a[0].cls in (CLS['K'], CLS['B'], CLS['k'], CLS['b']):
                st.heap[(o.ref, '_key')] = a[0]
            if isinstance(a[0], E.VObj) and o.cls == SIG:
                st.heap[(o.ref, '_signature')] = a[0]
            if isinstance(a[0], E.VObj) and a[0].cls == SIG and o.cls in (KEY, UID):
                lst = st.heap[(o.ref, '_signatures')]
                st.heap[lst.cell] = tuple(st.heap[lst.cell]) + (a[0],)
            return [(st, o)]
        for c in (KEY, UID, SIG):
            r.hook(c, '__or__', scn.method_hook(attach))
        pk_of = lambda st, o: st.heap.get((o.ref, '_key'))
        r.hook(KEY, 'is_primary', lambda ex, st, o, a: [(st, E.VBool(isinstance(pk_of(st, o), E.VObj) and pk_of(st, o).cls in (CLS['K'], CLS['k'])))])
        r.hook(KEY, 'is_public', lambda ex, st, o, a: [(st, E.VBool(not (isinstance(pk_of(st, o), E.VObj) and pk_of(st, o).cls in (CLS['k'], CLS['b']))))])
        idof = {'p%d%s' % (i, c): ident[i] for i, c in enumerate(shape)}
        r.hook(KEY, 'fingerprint', lambda ex, st, o, a: [(st, E.VObj('pgpy.types.Fingerprint', 'fp-' + idof.get(str(pk_of(st, o).ref) if isinstance(pk_of(st, o), E.VObj) else '', '?')))])
        r.hook('pgpy.types.Fingerprint', 'keyid', lambda ex, st, o, a: [(st, E.VStr(s='ID-' + str(o.ref)))])
        # ---- expected attachments, computed from the shape by the RFC 4880 11.1 grammar
        want, keyobj, cur, last, ku, ks, nk = [], None, None, None, 0, 0, 0
        for i, c in enumerate(shape):
            ref = 'p%d%s' % (i, c)
            if c in 'TO':
                continue                    # trust packets are filtered out; an unknown-version signature is skipped
            if c == 'X':
                last = None                 # what follows an unknown packet belongs to it: dropped
                continue
            if isprim(c):
                keyobj = 'self' if nk == 0 else 'newkey%d' % (nk - 1)
                nk += 1
                want.append((keyobj, ref))
                last = cur = keyobj
                pending = None
            elif issub(c):
                sub = 'newkey%d' % (nk - 1)
                nk += 1
                want.append((sub, ref))
                last = sub
                pending = (cur, sub)
            elif c in 'UA':
                u = 'uid%d' % ku
                ku += 1
                want.append((u, ref))
                last = u
                pending = (cur, u)
            elif c == 'S':
                if last is None:
                    continue                # a signature after an unknown packet is dropped with it (no wrapper is made)
                sname = 'sig%d' % ks
                ks += 1
                want.append((sname, ref))
                want.append((last, sname))
            # an identity / subkey is filed under its primary key once its own signatures are on it
            nxt = shape[i + 1] if i + 1 < len(shape) else None
            if not isprim(c) and (nxt is None or nxt not in 'ST' or (nxt == 'T' and all(x in 'T' for x in shape[i + 1:i + 2]) and (i + 2 >= len(shape) or shape[i + 2] != 'S'))):
                pass
        for pi, (s, v) in enumerate(r.call(me, [E.VBytes(z3.Const('INPUT', B))])):
            if isinstance(v, E.Raise):
                r.oblige(s, 'safety(%s)/p%d' % (v.exc.split(':')[0], pi), z3.BoolVal(False), v.where)
                continue
            att = list(s.ghost.get('attached', ()))
            r.oblige(s, 'every-packet-was-read/p%d' % pi, z3.BoolVal(s.ghost.get('nread', 0) == NB))
            # (1) every kept packet goes into its own wrapper / the key, every signature onto the object before it
            for w in want:
                r.oblige(s, 'attached:%s<-%s/p%d' % (w[0], w[1], pi), z3.BoolVal(w in att))
            # (2) identities and subkeys are filed under the most recent primary key, after their signatures
            cur = None
            nk2 = ku2 = 0
            for i, c in enumerate(shape):
                if isprim(c):
                    cur = 'self' if nk2 == 0 else 'newkey%d' % (nk2 - 1)
                    nk2 += 1
                elif issub(c):
                    child = 'newkey%d' % (nk2 - 1)
                    nk2 += 1
                    r.oblige(s, 'subkey-%s-filed-under-%s/p%d' % (child, cur, pi), z3.BoolVal((cur, child) in att))
                elif c in 'UA':
                    child = 'uid%d' % ku2
                    ku2 += 1
                    r.oblige(s, 'identity-%s-filed-under-%s/p%d' % (child, cur, pi), z3.BoolVal((cur, child) in att))
            # (2b) and stays there: at the end every key, subkey and identity holds exactly the signatures that were read for it, in order
            holders = sorted({w[0] for w in want if not w[0].startswith('sig')})
            for hname in holders:
                lst = s.heap.get((hname, '_signatures'))
                have = [str(x.ref) for x in s.heap[lst.cell]] if isinstance(lst, E.VList) else None
                exp_s = [w[1] for w in want if w[0] == hname and w[1].startswith('sig')]
                r.oblige(s, 'at-the-end-%s-holds-exactly-the-signatures-read-for-it(whoever-issued-them)/p%d' % (hname, pi), z3.BoolVal(have == exp_s))
            # (3) nothing else is attached anywhere, and dropped packets (trust, opaque) are attached nowhere
            extra = [a for a in att if a not in want and not any(a == (k, ch) for k in ['self'] + ['newkey%d' % j for j in range(8)] for ch in ['newkey%d' % j for j in range(8)] + ['uid%d' % j for j in range(8)])]
            r.oblige(s, 'nothing-else-attached/p%d' % pi, z3.BoolVal(not extra))
            dropped = ['p%d%s' % (i, c) for i, c in enumerate(shape) if c in 'TOX']
            r.oblige(s, 'trust-and-unknown-packets-are-attached-nowhere/p%d' % pi, z3.BoolVal(not any(a[1] in dropped for a in att)))
            # (4) one entry per distinct primary key (key id, half), the most recent object of each, ordered by its most recent
            # occurrence (so that what follows a repeated key is filed under that key). The code's attempt to drop the entry of this
            # key itself has no effect - recorded as an observation in DESIGN.md, harmless for C14.
            import collections as _c
            exp = _c.OrderedDict()
            nk3 = 0
            for i, c in enumerate(shape):
                if isprim(c):
                    obj = 'self' if nk3 == 0 else 'newkey%d' % (nk3 - 1)
                    exp.pop((ident[i], c == 'K'), None)
                    exp[(ident[i], c == 'K')] = obj
                if isprim(c) or issub(c):
                    nk3 += 1
            vals = [x for _, x in v.of(s)] if isinstance(v, E.VDict) else None
            r.oblige(s, 'returns-one-entry-per-distinct-primary-key,most-recent-object,ordered-by-last-occurrence/p%d' % pi,
                     z3.BoolVal(vals is not None and [str(x.ref) for x in vals] == list(exp.values())))
        return r.result()
    return Scenario(label, KEY + '.parse', gen, props=('C14',))


_base_scn_kp2 = scenarios


def scenarios():
    shapes = [('key with identities and subkeys', 'KSUSSASBSBS'), ('trust packets interleaved', 'KTUTSTBST'), ('two keys', 'KUSBSKUS'), ('two keys, subkey and second identity on the second', 'K1USK2USBSUS'),
              ('bare key', 'K'), ('unknown-version signature', 'KUSOSBS'), ('unknown packet', 'KUSXSBS'),
              ('public keyring then the secret form of its first key', 'K1USB3SK2USk1USb3S'),
              ('a key repeated after another one', 'K1USK2USK1USBS')]
    return _base_scn_kp2() + [key_parse(n, sh) for n, sh in shapes]
