"""C14: transferable-key export (PGPKey.__bytearray__), exportable flag, stable sorted insertion."""
import z3
from pyvc import scn, engine as E
from pyvc.runner import Scenario
from pyvc.dsl import Contract, Obj, Bytes, Const, Bool
from pyvc.scn import cat

B = E.BYTES
KEY = 'pgpy.pgp.PGPKey'
SIG = 'pgpy.pgp.PGPSignature'


def key_export():
    """shape bounded (2 direct signatures, 2 user ids with 2 and 1 signatures, 2 subkeys); every flag and octet string symbolic"""
    label = 'C14/PGPKey.__bytearray__[2 key sigs, 2 uids (2+1 sigs), 2 subkeys]'

    def gen(repo):
        r = scn.Run(repo, KEY, '__bytearray__', label)
        ex, st = r.ex, r.st
        me = E.VObj(KEY, 'key')
        KB = z3.Const('KEY_PACKET', B)
        r.set('key', '_key', E.VObj('pgpy.packet.packets.PubKeyV4', 'keypkt'))
        r.hook('pgpy.packet.packets.PubKeyV4', '__bytearray__', scn.method_hook(lambda ex, st, o, a: [(st, ex.new_buf(st, KB))]))
        sigs = {n: E.VObj(SIG, n) for n in ('ks0', 'ks1', 'u0s0', 'u0s1', 'u1s0')}
        SB = {n: z3.Const('SIG_%s' % n, B) for n in sigs}
        emb = {n: z3.Bool('embedded_%s' % n) for n in sigs}
        exp = {n: z3.Bool('exportable_%s' % n) for n in sigs}
        r.hook(SIG, '__bytearray__', scn.method_hook(lambda ex, st, o, a: [(st, ex.new_buf(st, SB[o.ref]))]))
        r.hook(SIG, 'embedded', lambda ex, st, o, a: [(st, E.VBool(emb[o.ref]))])
        r.hook(SIG, 'exportable', lambda ex, st, o, a: [(st, E.VBool(exp[o.ref]))])
        r.set('key', '_signatures', ex.new_list(st, [sigs['ks0'], sigs['ks1']]))
        uids = [E.VObj('pgpy.pgp.PGPUID', 'uid0'), E.VObj('pgpy.pgp.PGPUID', 'uid1')]
        UB = [z3.Const('UID0_PACKET', B), z3.Const('UID1_PACKET', B)]
        for i, u in enumerate(uids):
            r.set(u.ref, '_uid', E.VObj('pgpy.packet.packets.UserID', 'uidpkt%d' % i))
        r.hook('pgpy.packet.packets.UserID', '__bytearray__', scn.method_hook(lambda ex, st, o, a: [(st, ex.new_buf(st, UB[int(o.ref[-1])]))]))
        r.set('uid0', '_signatures', ex.new_list(st, [sigs['u0s0'], sigs['u0s1']]))
        r.set('uid1', '_signatures', ex.new_list(st, [sigs['u1s0']]))
        r.set('key', '_uids', ex.new_list(st, uids))
        subs = [E.VObj(KEY, 'sub0'), E.VObj(KEY, 'sub1')]
        SUBB = [z3.Const('SUBKEY0_WITH_ITS_SIGNATURES', B), z3.Const('SUBKEY1_WITH_ITS_SIGNATURES', B)]
        r.set('key', '_children', E.VDict([(E.VStr(s='id0'), subs[0]), (E.VStr(s='id1'), subs[1])]))
        # recursive export of a subkey: its own contract (same function)
        r.hook(KEY, '__bytearray__', scn.method_hook(lambda ex, st, o, a: [(st, ex.new_buf(st, SUBB[int(o.ref[-1])]))]))
        E0 = z3.Empty(B)

        def part(n, own):
            keep = z3.And(z3.Not(emb[n]), exp[n]) if own else exp[n]
            return z3.If(keep, SB[n], E0)
        spec = cat(KB, part('ks0', True), part('ks1', True), UB[0], part('u0s0', False), part('u0s1', False), UB[1], part('u1s0', False), SUBB[0], SUBB[1])
        for pi, (s, v) in enumerate(r.call(me, [])):
            if isinstance(v, E.Raise):
                r.oblige(s, 'safety(%s)/p%d' % (v.exc.split(':')[0], pi), z3.BoolVal(False), v.where)
                continue
            r.oblige(s, 'rfc4880-11.1-order-and-exactly-the-exportable-signatures/p%d' % pi, ex.seq(v, s) == spec)
        return r.result()
    return Scenario(label, KEY + '.__bytearray__', gen, props=('C14', 'C07'))


def exportable_flag():
    label = 'C14/PGPSignature.exportable'

    def gen(repo):
        obls, funcs, paths = [], [], 0
        for present in (False, True):
            r = scn.Run(repo, SIG, 'exportable', label + ('[subpacket present]' if present else '[no subpacket]'))
            ex, st = r.ex, r.st
            me = E.VObj(SIG, 'sig')
            r.set('sig', '_signature', E.VObj('pgpy.packet.packets.SignatureV4', 'spkt'))
            r.set('spkt', 'subpackets', E.VObj('pgpy.packet.fields.SubPackets', 'subp'))
            flag = z3.Bool('exportable_subpacket_value')
            sp = E.VObj('pgpy.packet.subpackets.signature.ExportableCertification', 'ec')
            r.hook('pgpy.packet.fields.SubPackets', '__contains__', scn.method_hook(lambda ex, st, o, a: [(st, E.VBool(present and a[0].s == 'ExportableCertification'))]))
            r.hook('pgpy.packet.fields.SubPackets', '__getitem__', scn.method_hook(lambda ex, st, o, a: [(st, ex.new_list(st, [sp] if present else []))]))
            r.hook('pgpy.packet.subpackets.signature.Boolean', '__bool__', scn.mconst(E.VBool(flag)))
            for pi, (s, v) in enumerate(r.call(me, [])):
                paths += 1
                if isinstance(v, E.Raise):
                    r.oblige(s, 'safety(%s)/p%d' % (v.exc.split(':')[0], pi), z3.BoolVal(False), v.where)
                    continue
                r.oblige(s, 'exportable-unless-marked-otherwise/p%d' % pi, ex.truth(v, s) == (flag if present else z3.BoolVal(True)))
            res = r.result()
            obls += res['obligations']
            funcs = res['funcs']
        return {'obligations': obls, 'funcs': funcs, 'paths': paths}
    return Scenario(label, SIG + '.exportable', gen, props=('C14',))


BOOLSP = 'pgpy.packet.subpackets.signature.Boolean'


def _mk_bool(f):
    from pgpy.packet.subpackets.signature import ExportableCertification
    o = ExportableCertification()
    o._bool = f['_bool']
    return o


bool_parse = Contract('C14/subpackets.Boolean.bflag_bytearray', BOOLSP + '.bflag_bytearray',
                      params={'self': Obj('pgpy.packet.subpackets.signature.ExportableCertification', {'_bool': Const(False)}, build=_mk_bool),
                              'val': Bytes(1, 1, kind='bytearray')},
                      ensures=[('parsed-octet-decides-the-flag', 'self._bool == (old_val[0] != 0)')], props=('C14', 'C05', 'C08'))
bool_value = Contract('C14/subpackets.Boolean.__bool__', BOOLSP + '.__bool__',
                      params={'self': Obj('pgpy.packet.subpackets.signature.ExportableCertification', {'_bool': Bool()}, build=_mk_bool)},
                      ensures=[('value', 'result == self._bool')], props=('C14',))


def insort(n):
    label = 'C14/SorteDeque.insort[%d elements]' % n

    def gen(repo):
        r = scn.Run(repo, 'pgpy.types.SorteDeque', 'insort', label)
        ex, st = r.ex, r.st
        items = [E.VObj(SIG, 'e%d' % i) for i in range(n)]
        new = E.VObj(SIG, 'new')
        key = {o.ref: z3.Int('created_' + o.ref) for o in items + [new]}
        for i in range(n - 1):
            st.pc.append(key['e%d' % i] <= key['e%d' % (i + 1)])       # representation invariant: sorted by creation time
        r.hook(SIG, '__lt__', scn.method_hook(lambda ex, st, o, a: [(st, E.VBool(key[o.ref] < key[a[0].ref]))]))
        me = ex.new_list(st, items)
        for pi, (s, v) in enumerate(r.call(me, [new])):
            if isinstance(v, E.Raise):
                r.oblige(s, 'safety(%s)/p%d' % (v.exc.split(':')[0], pi), z3.BoolVal(False), v.where)
                continue
            res = [x.ref for x in ex.items(me, s)]
            r.oblige(s, 'multiset-preserved-plus-the-new-element/p%d' % pi, z3.BoolVal(sorted(res) == sorted([o.ref for o in items] + ['new'])))
            r.oblige(s, 'earlier-elements-keep-their-order/p%d' % pi, z3.BoolVal([x for x in res if x != 'new'] == [o.ref for o in items]))
            if 'new' in res:
                i = res.index('new')
                r.oblige(s, 'still-sorted/p%d' % pi, z3.And(*([key[res[j]] <= key[res[j + 1]] for j in range(len(res) - 1)] or [z3.BoolVal(True)])))
                r.oblige(s, 'stable:new-element-after-every-equal-one/p%d' % pi, z3.And(*([key[res[j]] != key['new'] for j in range(i + 1, len(res))] or [z3.BoolVal(True)])))
        return r.result()
    return Scenario(label, 'pgpy.types.SorteDeque.insort', gen, props=('C14', 'C15', 'C20'))


def scenarios():
    return [key_export(), exportable_flag(), bool_parse, bool_value] + [insort(n) for n in (0, 1, 2, 3)]
