"""C08: per-class packet codecs (body layouts against RFC 4880 section 5) with the header side given by its own contracts (C09)."""
import z3
from pyvc import scn, engine as E
from pyvc.runner import Scenario
from pyvc.scn import U, cat, be, lit

B = E.BYTES
P = 'pgpy.packet.packets.'


def _hdr(r, HL):
    """the parsed header object: only its body length matters to the class parsers"""
    r.set('pkt', 'header', E.VObj('pgpy.packet.types.Header', 'hdr'))
    r.set('hdr', '_len', E.VInt(HL))
    for c in ('pgpy.packet.types.Packet', 'pgpy.packet.types.VersionedPacket'):
        r.hook(c, 'parse', scn.mconst(E.VNone()))          # base classes: nothing to parse (header was parsed by the dispatcher)


def literal_bytes():
    label = 'C08/LiteralData.__bytearray__'

    def gen(repo):
        r = scn.Run(repo, P + 'LiteralData', '__bytearray__', label)
        ex, st = r.ex, r.st
        HDR, NAME, DATA = z3.Const('HEADER', B), z3.Const('FILENAME_UTF8', B), z3.Const('CONTENTS', B)
        FMT, EPOCH = z3.Ints('format_octet epoch')
        st.pc += [FMT >= 0, FMT < 256, EPOCH >= 0, EPOCH < 2 ** 32, z3.Length(NAME) < 256]
        me = E.VObj(P + 'LiteralData', 'pkt')
        mtime = E.VExt('datetime', ())
        r.set('pkt', 'format', E.VStr(z=z3.Unit(FMT), cp=True))       # one character, any code point below 256 (as parse leaves it)
        r.set('pkt', 'filename', E.VStr(z=NAME))          # str modelled by its UTF-8 octets (str.encode is external)
        r.set('pkt', '_mtime', mtime)
        r.set('pkt', '_contents', ex.new_buf(st, DATA))
        r.hook('pgpy.packet.types.Packet', '__bytearray__', scn.method_hook(lambda ex, st, o, a: [(st, ex.new_buf(st, HDR))]))

        def timegm(ex, st, o, a):
            x = a[0]
            if isinstance(x, E.VExt) and x.name.endswith('.utctimetuple') and x.args[0] is mtime:
                return [(st, E.VInt(EPOCH))]
            return [(st, E.VInt(z3.Int('local_wall_clock')))]
        ex.hooks[('ext', 'calendar.timegm')] = timegm
        scn.local_zone_reading(ex)
        for pi, (s, v) in enumerate(r.call(me, [])):
            if isinstance(v, E.Raise):
                r.oblige(s, 'safety(%s)/p%d' % (v.exc, pi), z3.BoolVal(False), v.where)
                continue
            r.oblige(s, 'rfc4880-5.9:format,name-length,name,time,data/p%d' % pi,
                     ex.seq(v, s) == cat(HDR, U(FMT), U(z3.Length(NAME)), NAME, be(EPOCH, 4), DATA))
        res = r.result()
        # a name that does not fit the one-octet length field: refused, never emitted in some other shape (a cut at 255 octets can fall
        # inside a character, and a wrapped length would mis-frame the packet)
        r2 = scn.Run(repo, P + 'LiteralData', '__bytearray__', label + '[name longer than 255 octets]')
        ex2, st2 = r2.ex, r2.st
        st2.pc += [FMT >= 0, FMT < 256, EPOCH >= 0, EPOCH < 2 ** 32, z3.Length(NAME) >= 256]
        r2.set('pkt', 'format', E.VStr(z=z3.Unit(FMT), cp=True))
        r2.set('pkt', 'filename', E.VStr(z=NAME))
        r2.set('pkt', '_mtime', mtime)
        r2.set('pkt', '_contents', ex2.new_buf(st2, DATA))
        r2.hook('pgpy.packet.types.Packet', '__bytearray__', scn.method_hook(lambda ex, st, o, a: [(st, ex.new_buf(st, HDR))]))
        ex2.hooks[('ext', 'calendar.timegm')] = timegm
        scn.local_zone_reading(ex2)
        nraise = 0
        for pi, (s, v) in enumerate(r2.call(E.VObj(P + 'LiteralData', 'pkt'), [])):
            if isinstance(v, E.Raise):
                nraise += 1
                r2.oblige(s, 'refused-with-ValueError/p%d' % pi, z3.BoolVal(v.exc.split(':')[0] == 'ValueError'), v.where)
                continue
            r2.oblige(s, 'nothing-is-emitted-for-a-name-that-does-not-fit/p%d' % pi, z3.BoolVal(False))
        r2.oblige(st2, 'cover-the-refusal', z3.BoolVal(nraise > 0))
        res2 = r2.result()
        return {'obligations': res['obligations'] + res2['obligations'], 'funcs': res['funcs'] + res2['funcs'], 'paths': 0}
    return Scenario(label, P + 'LiteralData.__bytearray__', gen, props=('C08', 'C20', 'C09'))


def literal_parse():
    label = 'C08/LiteralData.parse'

    def gen(repo):
        r = scn.Run(repo, P + 'LiteralData', 'parse', label)
        ex, st = r.ex, r.st
        OLD = z3.Const('RECEIVED', B)
        HL = z3.Int('header_length')
        me = E.VObj(P + 'LiteralData', 'pkt')
        _hdr(r, HL)
        fnl = OLD[1]
        st.pc += [z3.Length(OLD) >= 2, OLD[0] >= 0, OLD[0] < 256, fnl >= 0, fnl < 256, HL >= 6 + fnl, z3.Length(OLD) >= HL]
        buf = ex.new_buf(st, OLD)
        ex.hooks[('ext', 'datetime.fromtimestamp')] = lambda ex, st, o, a: [(st, E.VExt('datetime', (a[0],)))]
        VALID = z3.Function('VALID[utf-8]', B, z3.BoolSort())
        for pi, (s, v) in enumerate(r.call(me, [buf])):
            if isinstance(v, E.Raise) and v.exc.split(':')[0] == 'UnicodeDecodeError':
                # a rejection, not an acceptance: allowed only for a file name that is not valid UTF-8 (recorded as an observation in DESIGN.md)
                r.oblige(s, 'rejects-only-a-file-name-that-is-not-utf-8/p%d' % pi, z3.Not(VALID(z3.Extract(OLD, 2, fnl))), v.where)
                continue
            if isinstance(v, E.Raise):
                r.oblige(s, 'safety(%s)/p%d' % (v.exc, pi), z3.BoolVal(False), v.where)
                continue
            g = lambda f: s.heap.get(('pkt', f))
            fmt, name, mt, data = g('format'), g('filename'), g('_mtime'), g('_contents')
            r.oblige(s, 'format-is-the-character-with-the-code-of-the-first-octet/p%d' % pi,
                     fmt.z == z3.Unit(OLD[0]) if isinstance(fmt, E.VStr) and fmt.z is not None and fmt.cp else z3.BoolVal(False))
            DEC = z3.Function('DECODE[utf-8]', B, B)
            r.oblige(s, 'file-name-is-the-announced-octets-read-as-utf-8/p%d' % pi,
                     z3.And(z3.BoolVal(isinstance(name, E.VStr) and name.z is not None), name.z == DEC(z3.Extract(OLD, 2, fnl)) if isinstance(name, E.VStr) and name.z is not None else z3.BoolVal(False)))
            okt = isinstance(mt, E.VExt) and mt.name == 'datetime' and len(mt.args) == 1
            r.oblige(s, 'time-is-the-four-octet-number/p%d' % pi,
                     z3.And(z3.BoolVal(bool(okt)), ex.as_int(mt.args[0]) == OLD[2 + fnl] * 2 ** 24 + OLD[3 + fnl] * 2 ** 16 + OLD[4 + fnl] * 256 + OLD[5 + fnl] if okt else z3.BoolVal(False)))
            r.oblige(s, 'contents-are-the-rest-of-the-body/p%d' % pi, ex.seq(data, s) == z3.Extract(OLD, 6 + fnl, HL - 6 - fnl))
            r.oblige(s, 'consumes-exactly-the-body/p%d' % pi, s.heap[buf.cell] == z3.Extract(OLD, HL, z3.Length(OLD) - HL))
        return r.result()
    return Scenario(label, P + 'LiteralData.parse', gen, props=('C08', 'C20'))


def simple_body(clsname, field, version_octets):
    """packets whose body is one opaque octet string: SKEData, IntegrityProtectedSKEDataV1 (after the version octet), UserID"""
    label = 'C08/%s.parse+__bytearray__' % clsname

    def gen(repo):
        obls, funcs, paths = [], [], 0
        cls = P + clsname
        r = scn.Run(repo, cls, 'parse', label + '[parse]')
        ex, st = r.ex, r.st
        OLD, HL = z3.Const('RECEIVED', B), z3.Int('header_length')
        _hdr(r, HL)
        st.pc += [HL >= version_octets, z3.Length(OLD) >= HL - version_octets]
        buf = ex.new_buf(st, OLD)
        me = E.VObj(cls, 'pkt')
        n = HL - version_octets
        for pi, (s, v) in enumerate(r.call(me, [buf])):
            paths += 1
            if isinstance(v, E.Raise):
                r.oblige(s, 'safety(%s)/p%d' % (v.exc, pi), z3.BoolVal(False), v.where)
                continue
            fv = s.heap.get(('pkt', field))
            if clsname == 'UserID':
                okv = isinstance(fv, E.VStr) and fv.z is not None
                r.oblige(s, 'text-is-the-body-decoded/p%d' % pi, z3.BoolVal(bool(okv)))
            else:
                r.oblige(s, 'field-is-the-body/p%d' % pi, ex.seq(fv, s) == z3.Extract(OLD, 0, n))
            r.oblige(s, 'consumes-exactly-the-body/p%d' % pi, s.heap[buf.cell] == z3.Extract(OLD, n, z3.Length(OLD) - n))
        res = r.result()
        obls += res['obligations']
        funcs += res['funcs']
        if clsname != 'UserID':
            r2 = scn.Run(repo, cls, '__bytearray__', label + '[bytes]')
            HDR, CT = z3.Const('HEADER_AND_VERSION', B), z3.Const('BODY', B)
            r2.set('pkt', field, r2.ex.new_buf(r2.st, CT))
            for c in ('pgpy.packet.types.Packet', 'pgpy.packet.types.VersionedPacket'):
                r2.hook(c, '__bytearray__', scn.method_hook(lambda ex, st, o, a: [(st, ex.new_buf(st, HDR))]))
            for pi, (s, v) in enumerate(r2.call(E.VObj(cls, 'pkt'), [])):
                paths += 1
                if isinstance(v, E.Raise):
                    r2.oblige(s, 'safety/p%d' % pi, z3.BoolVal(False), v.where)
                    continue
                r2.oblige(s, 'header-then-body/p%d' % pi, r2.ex.seq(v, s) == cat(HDR, CT))
            res2 = r2.result()
            obls += res2['obligations']
            funcs += res2['funcs']
        return {'obligations': obls, 'funcs': funcs, 'paths': paths}
    return Scenario(label, P + clsname, gen, props=('C08', 'C03'))


def onepass_parse():
    label = 'C08/OnePassSignatureV3.parse'

    def gen(repo):
        r = scn.Run(repo, P + 'OnePassSignatureV3', 'parse', label)
        ex, st = r.ex, r.st
        OLD = z3.Const('RECEIVED', B)
        st.pc += [z3.Length(OLD) >= 12]
        for i in range(3):
            st.pc += [OLD[i] >= 0, OLD[i] < 256]
        ST = sorted(set(repo.enum_members('pgpy.constants.SignatureType').values()))
        PA = sorted(set(repo.enum_members('pgpy.constants.PubKeyAlgorithm').values()))
        st.pc += [z3.Or(*[OLD[0] == x for x in ST]), z3.Or(*[OLD[2] == x for x in PA])]
        _hdr(r, z3.IntVal(13))
        buf = ex.new_buf(st, OLD)
        me = E.VObj(P + 'OnePassSignatureV3', 'pkt')
        r.hook('pgpy.packet.fields.RSASignature', '__call__', lambda ex, st, c, a: [(st, E.VObj('pgpy.packet.fields.RSASignature', E.fresh('sf')))])
        r.hook('pgpy.packet.fields.DSASignature', '__call__', lambda ex, st, c, a: [(st, E.VObj('pgpy.packet.fields.DSASignature', E.fresh('sf')))])
        for pi, (s, v) in enumerate(r.call(me, [buf])):
            if isinstance(v, E.Raise):
                r.oblige(s, 'safety(%s)/p%d' % (v.exc, pi), z3.BoolVal(False), v.where)
                continue
            g = lambda f: s.heap.get(('pkt', f))
            r.oblige(s, 'rfc4880-5.4:type,hash,pubalg/p%d' % pi, z3.And(ex.as_int(g('_sigtype')) == OLD[0], ex.as_int(g('_halg')) == OLD[1], ex.as_int(g('_pubalg')) == OLD[2]))
            HEX, UP = z3.Function('HEXLIFY', B, B), z3.Function('STR_UPPER', B, B)
            sg = g('_signer')
            r.oblige(s, 'issuer-is-the-eight-octets/p%d' % pi, z3.And(z3.BoolVal(isinstance(sg, E.VStr) and sg.z is not None), sg.z == UP(HEX(z3.Extract(OLD, 3, 8))) if isinstance(sg, E.VStr) and sg.z is not None else z3.BoolVal(False)))
            r.oblige(s, 'flag-octet-1-means-last/p%d' % pi, ex.truth(g('nested'), s) == (OLD[11] == 1))
        return r.result()
    return Scenario(label, P + 'OnePassSignatureV3.parse', gen, props=('C08', 'C20'))


def signature_parse():
    label = 'C08/SignatureV4.parse'

    def gen(repo):
        r = scn.Run(repo, P + 'SignatureV4', 'parse', label)
        ex, st = r.ex, r.st
        OLD = z3.Const('RECEIVED', B)
        st.pc += [z3.Length(OLD) >= 3]
        for i in range(3):
            st.pc += [OLD[i] >= 0, OLD[i] < 256]
        ST = sorted(set(repo.enum_members('pgpy.constants.SignatureType').values()))
        PA = sorted(set(repo.enum_members('pgpy.constants.PubKeyAlgorithm').values()))
        st.pc += [z3.Or(*[OLD[0] == x for x in ST]), z3.Or(*[OLD[1] == x for x in PA])]
        _hdr(r, z3.Int('header_length'))
        buf = ex.new_buf(st, OLD)
        me = E.VObj(P + 'SignatureV4', 'pkt')
        r.set('pkt', 'subpackets', E.VObj('pgpy.packet.fields.SubPackets', 'subp'))
        SPLEN = z3.Int('subpacket_areas_length')
        st.pc += [SPLEN >= 4, z3.Length(OLD) >= 3 + SPLEN + 2]

        def sp_parse(ex, st, o, a):
            cur = st.heap[a[0].cell]
            st.ghost['subpackets_saw'] = cur
            st.heap[a[0].cell] = z3.Extract(cur, SPLEN, z3.Length(cur) - SPLEN)       # contract of SubPackets.parse (C05): consumes both areas
            return [(st, E.VNone())]
        r.hook('pgpy.packet.fields.SubPackets', 'parse', scn.method_hook(sp_parse))
        for c in ('RSASignature', 'DSASignature', 'ECDSASignature', 'EdDSASignature', 'OpaqueSignature'):
            r.hook('pgpy.packet.fields.' + c, '__call__', (lambda c: lambda ex, st, cls, a: [(st, E.VObj('pgpy.packet.fields.' + c, E.fresh('sigfield')))])(c))

        def sig_parse(ex, st, o, a):
            st.ghost['sigfield_saw'] = st.heap[a[0].cell]
            st.ghost['sigfield_cls'] = o.cls
            return [(st, E.VNone())]
        r.hook('pgpy.packet.fields.Signature', 'parse', scn.method_hook(sig_parse))
        for c in ('RSASignature', 'DSASignature', 'ECDSASignature', 'EdDSASignature', 'OpaqueSignature'):
            r.hook('pgpy.packet.fields.' + c, 'parse', scn.method_hook(sig_parse))
        want_cls = {1: 'RSASignature', 2: 'RSASignature', 3: 'RSASignature', 17: 'DSASignature', 19: 'ECDSASignature', 22: 'EdDSASignature'}
        for pi, (s, v) in enumerate(r.call(me, [buf])):
            if isinstance(v, E.Raise):
                r.oblige(s, 'safety(%s)/p%d' % (v.exc, pi), z3.BoolVal(False), v.where)
                continue
            g = lambda f: s.heap.get(('pkt', f))
            r.oblige(s, 'rfc4880-5.2.3:type,pubalg,hash-at-their-offsets/p%d' % pi,
                     z3.And(ex.as_int(g('_sigtype')) == OLD[0], ex.as_int(g('_pubalg')) == OLD[1], ex.as_int(g('_halg')) == OLD[2]))
            r.oblige(s, 'subpacket-areas-start-after-the-three-octets/p%d' % pi, s.ghost['subpackets_saw'] == z3.Extract(OLD, 3, z3.Length(OLD) - 3))
            r.oblige(s, 'left-16-bits-follow-the-subpacket-areas/p%d' % pi, ex.seq(g('hash2'), s) == z3.Extract(OLD, 3 + SPLEN, 2))
            r.oblige(s, 'signature-integers-follow/p%d' % pi, s.ghost['sigfield_saw'] == z3.Extract(OLD, 3 + SPLEN + 2, z3.Length(OLD) - 3 - SPLEN - 2))
            cls = s.ghost.get('sigfield_cls', '')
            goods = [z3.And(OLD[1] == k, z3.BoolVal(cls.endswith(w))) for k, w in want_cls.items()]
            r.oblige(s, 'signature-field-class-matches-the-algorithm/p%d' % pi, z3.Or(*goods, z3.And(z3.Not(z3.Or(*[OLD[1] == k for k in want_cls])), z3.BoolVal(cls.endswith('OpaqueSignature')))))
        return r.result()
    return Scenario(label, P + 'SignatureV4.parse', gen, props=('C08', 'C01', 'C05'))


def signature_bytes():
    label = 'C08/SignatureV4.__bytearray__'

    def gen(repo):
        r = scn.Run(repo, P + 'SignatureV4', '__bytearray__', label)
        ex, st = r.ex, r.st
        HDR, SP, H2, SIGB = [z3.Const(n, B) for n in ('HEADER_AND_VERSION', 'SUBPACKET_AREAS', 'LEFT16', 'SIGNATURE_INTEGERS')]
        t, p, h = z3.Ints('sigtype pubalg halg')
        st.pc += [t >= 0, t < 256, p >= 0, p < 256, h >= 0, h < 256]
        me = E.VObj(P + 'SignatureV4', 'pkt')
        for f, v in (('_sigtype', E.VInt(t)), ('_pubalg', E.VInt(p)), ('_halg', E.VInt(h)), ('hash2', ex.new_buf(st, H2)),
                     ('subpackets', E.VObj('pgpy.packet.fields.SubPackets', 'subp')), ('_signature', E.VObj('pgpy.packet.fields.RSASignature', 'sigfield'))):
            r.set('pkt', f, v)
        r.hook('pgpy.packet.types.VersionedPacket', '__bytearray__', scn.method_hook(lambda ex, st, o, a: [(st, ex.new_buf(st, HDR))]))
        r.hook('pgpy.packet.fields.SubPackets', '__bytearray__', scn.method_hook(lambda ex, st, o, a: [(st, ex.new_buf(st, SP))]))
        r.hook('pgpy.packet.fields.RSASignature', '__bytearray__', scn.method_hook(lambda ex, st, o, a: [(st, ex.new_buf(st, SIGB))]))
        for pi, (s, v) in enumerate(r.call(me, [])):
            if isinstance(v, E.Raise):
                r.oblige(s, 'safety(%s)/p%d' % (v.exc, pi), z3.BoolVal(False), v.where)
                continue
            r.oblige(s, 'rfc4880-5.2.3-layout/p%d' % pi, ex.seq(v, s) == cat(HDR, U(t), U(p), U(h), SP, H2, SIGB))
        return r.result()
    return Scenario(label, P + 'SignatureV4.__bytearray__', gen, props=('C08', 'C02'))


def signature_copy():
    """SignatureV4.__copy__: key.pubkey, copy.copy(key / message / signature) export COPIES of signature packets. Every field that
    __bytearray__ writes (header, type, algorithms, subpacket areas, left 16 bits of the hash, signature integers) is carried by the copy:
    the same numbers, the same two hash octets in a buffer of its own, and copies of the header, the areas and the integers."""
    label = 'C08/SignatureV4.__copy__'
    SIGP = P + 'SignatureV4'

    def gen(repo):
        r = scn.Run(repo, SIGP, '__copy__', label)
        ex, st = r.ex, r.st
        H2 = z3.Const('LEFT16', B)
        t, p, h = z3.Ints('sigtype pubalg halg')
        st.pc += [t >= 0, t < 256, p >= 0, p < 256, h >= 0, h < 256, z3.Length(H2) == 2]
        h2 = ex.new_buf(st, H2)
        parts = {'header': E.VObj('pgpy.packet.types.Header', 'hdr'), 'subpackets': E.VObj('pgpy.packet.fields.SubPackets', 'subp'),
                 '_signature': E.VObj('pgpy.packet.fields.RSASignature', 'sigfield')}
        for f, v in (('_sigtype', E.VInt(t, enum='pgpy.constants.SignatureType')), ('_pubalg', E.VInt(p, enum='pgpy.constants.PubKeyAlgorithm')),
                     ('_halg', E.VInt(h, enum='pgpy.constants.HashAlgorithm')), ('hash2', h2)) + tuple(parts.items()):
            r.set('pkt', f, v)

        def cp(ex, st, o, a):
            return [(st, E.VObj(o.cls, 'copy-of-' + str(o.ref)))]
        for c in ('pgpy.packet.types.Header', 'pgpy.packet.fields.SubPackets', 'pgpy.packet.fields.RSASignature'):
            r.hook(c, '__copy__', scn.method_hook(cp))

        def fresh_packet(ex, st, c, a):
            # what SignatureV4.__init__ leaves: nothing set, an empty subpacket container, two zero octets
            for f in ('_sigtype', '_pubalg', '_halg', '_signature'):
                st.heap[('copy', f)] = E.VNone()
            st.heap[('copy', 'subpackets')] = E.VObj('pgpy.packet.fields.SubPackets', 'empty-areas')
            st.heap[('copy', 'hash2')] = ex.new_buf(st, z3.Concat(z3.Unit(z3.IntVal(0)), z3.Unit(z3.IntVal(0))))
            st.heap[('copy', 'header')] = E.VObj('pgpy.packet.types.Header', 'fresh-header')
            return [(st, E.VObj(SIGP, 'copy'))]
        r.hook(SIGP, '__call__', fresh_packet)
        for pi, (s, v) in enumerate(r.call(E.VObj(SIGP, 'pkt'), [])):
            if isinstance(v, E.Raise):
                r.oblige(s, 'safety(%s)/p%d' % (v.exc.split(':')[0], pi), z3.BoolVal(False), v.where)
                continue
            r.oblige(s, 'a-new-packet/p%d' % pi, z3.BoolVal(isinstance(v, E.VObj) and v.ref == 'copy'))
            g = lambda f: s.heap.get(('copy', f))
            for f, z in (('_sigtype', t), ('_pubalg', p), ('_halg', h)):
                x = g(f)
                r.oblige(s, 'same-%s/p%d' % (f.strip('_'), pi), x.z == z if isinstance(x, E.VInt) else z3.BoolVal(False))
            for f, o in parts.items():
                x = g(f)
                r.oblige(s, 'holds-a-copy-of-the-%s/p%d' % ({'_signature': 'signature-integers', 'subpackets': 'subpacket-areas'}.get(f, f), pi),
                         z3.BoolVal(isinstance(x, E.VObj) and x.ref == 'copy-of-' + o.ref))
            x = g('hash2')
            isbuf = isinstance(x, (E.VBuf, E.VBytes))
            r.oblige(s, 'same-left-16-bits-of-the-hash/p%d' % pi, ex.seq(x, s) == H2 if isbuf else z3.BoolVal(False))
            r.oblige(s, 'in-a-buffer-of-its-own/p%d' % pi, z3.BoolVal(isbuf and not (isinstance(x, E.VBuf) and x.cell == h2.cell)))
            r.oblige(s, 'original-untouched/p%d' % pi, z3.And(s.heap[h2.cell] == H2, z3.BoolVal(all(s.heap.get(('pkt', f)) is o for f, o in parts.items()))))
        return r.result()
    return Scenario(label, SIGP + '.__copy__', gen, props=('C08', 'C02', 'C14', 'C07'))


def s2k_roundtrip(spec):
    """String2Key.__bytearray__ / parse for simple (0), salted (1), iterated (3) specifiers, usage 254/255, with and without IV"""
    label = 'C08/String2Key.codec[specifier %d]' % spec
    S2K = 'pgpy.packet.fields.String2Key'

    def gen(repo):
        obls, funcs, paths = [], [], 0
        # ---- serialise
        r = scn.Run(repo, S2K, '__bytearray__', label + '[bytes]')
        ex, st = r.ex, r.st
        scn.cipher_facts(r)
        usage, halg, cnt = z3.Ints('usage halg coded_count')
        SALT, IV = z3.Const('SALT', B), z3.Const('IV', B)
        st.pc += [z3.Or(usage == 254, usage == 255), halg >= 0, halg < 256, cnt >= 0, cnt < 256, z3.Length(SALT) == 8, z3.Length(IV) == 16]
        me = E.VObj(S2K, 's2k')
        for f, v in (('usage', E.VInt(usage)), ('_encalg', E.VInt(9, enum='pgpy.constants.SymmetricKeyAlgorithm')), ('_specifier', E.VInt(spec, enum='pgpy.constants.String2KeyType')),
                     ('_halg', E.VInt(halg)), ('salt', ex.new_buf(st, SALT)), ('_count', E.VInt(cnt)), ('iv', ex.new_buf(st, IV))):
            r.set('s2k', f, v)
        body = [U(usage), U(9), U(spec), U(halg)] + ([SALT] if spec >= 1 else []) + ([U(cnt)] if spec == 3 else []) + [IV]
        for pi, (s, v) in enumerate(r.call(me, [])):
            paths += 1
            if isinstance(v, E.Raise):
                r.oblige(s, 'safety(%s)/p%d' % (v.exc, pi), z3.BoolVal(False), v.where)
                continue
            r.oblige(s, 'rfc4880-3.7-layout/p%d' % pi, ex.seq(v, s) == cat(*body))
        res = r.result()
        obls += res['obligations']
        funcs += res['funcs']
        # ---- parse
        r2 = scn.Run(repo, S2K, 'parse', label + '[parse]')
        ex, st = r2.ex, r2.st
        scn.cipher_facts(r2)
        OLD = z3.Const('RECEIVED', B)
        need = 4 + (8 if spec >= 1 else 0) + (1 if spec == 3 else 0) + 16
        st.pc += [z3.Length(OLD) >= need, z3.Or(OLD[0] == 254, OLD[0] == 255), OLD[1] == 9, OLD[2] == spec]
        for i in range(4):
            st.pc += [OLD[i] >= 0, OLD[i] < 256]
        HA = sorted(set(repo.enum_members('pgpy.constants.HashAlgorithm').values()))
        st.pc.append(z3.Or(*[OLD[3] == x for x in HA]))
        if spec == 3:
            st.pc += [OLD[12] >= 0, OLD[12] < 256]
        me = E.VObj(S2K, 's2k')
        for f, v in (('usage', E.VInt(0)), ('_encalg', E.VInt(0, enum='pgpy.constants.SymmetricKeyAlgorithm')), ('_specifier', E.VInt(0, enum='pgpy.constants.String2KeyType')),
                     ('_halg', E.VInt(0)), ('salt', ex.new_buf(st, z3.Empty(B))), ('_count', E.VInt(0)), ('iv', E.VNone())):
            r2.set('s2k', f, v)
        buf = ex.new_buf(st, OLD)
        for pi, (s, v) in enumerate(r2.call(me, [buf])):
            paths += 1
            if isinstance(v, E.Raise):
                r2.oblige(s, 'safety(%s)/p%d' % (v.exc.split(':')[0], pi), z3.BoolVal(False), v.where)
                continue
            g = lambda f: s.heap.get(('s2k', f))
            off = 4
            r2.oblige(s, 'usage,cipher,specifier,hash/p%d' % pi, z3.And(ex.as_int(g('usage')) == OLD[0], ex.as_int(g('_encalg')) == OLD[1], ex.as_int(g('_specifier')) == spec, ex.as_int(g('_halg')) == OLD[3]))
            if spec >= 1:
                r2.oblige(s, 'salt-is-the-next-eight-octets/p%d' % pi, ex.seq(g('salt'), s) == z3.Extract(OLD, 4, 8))
                off += 8
            if spec == 3:
                r2.oblige(s, 'coded-count-octet/p%d' % pi, ex.as_int(g('_count')) == OLD[12])
                off += 1
            r2.oblige(s, 'iv-of-block-size-follows/p%d' % pi, ex.seq(g('iv'), s) == z3.Extract(OLD, off, 16))
            r2.oblige(s, 'consumed-exactly/p%d' % pi, s.heap[buf.cell] == z3.Extract(OLD, off + 16, z3.Length(OLD) - off - 16))
        res2 = r2.result()
        return {'obligations': obls + res2['obligations'], 'funcs': funcs + res2['funcs'], 'paths': paths}
    return Scenario(label, S2K, gen, props=('C08', 'C06', 'C12'))


def scenarios():
    return [literal_bytes(), literal_parse(), simple_body('SKEData', 'ct', 0), simple_body('IntegrityProtectedSKEDataV1', 'ct', 1), simple_body('UserID', 'uid', 0),
            onepass_parse(), signature_parse(), signature_bytes(), signature_copy()] + [s2k_roundtrip(s) for s in (0, 1, 3)]


def ecpoint_from_values():
    """ECPoint.from_values (RFC 6637 section 6: each coordinate occupies the curve's field size in whole octets)"""
    label = 'C08/ECPoint.from_values'
    F = 'pgpy.packet.fields.'

    def gen(repo):
        r = scn.Run(repo, F + 'ECPoint', 'from_values', label)
        ex, st = r.ex, r.st
        BITS = z3.Int('curve_bits')
        st.pc += [BITS >= 1, BITS <= 4096]
        X, Y, FORM = E.VExt('x', ()), E.VExt('y', ()), E.VExt('point-format', ())
        r.hook(F + 'ECPoint', '__call__', lambda ex, st, c, a: [(st, E.VObj(F + 'ECPoint', 'pt'))])
        for pi, (s, v) in enumerate(r.call(E.VClass(F + 'ECPoint'), [E.VInt(BITS), FORM, X, Y])):
            if isinstance(v, E.Raise):
                r.oblige(s, 'safety(%s)/p%d' % (v.exc, pi), z3.BoolVal(False), v.where)
                continue
            n = s.heap.get(('pt', 'bytelen'))
            n = ex.as_int(n) if isinstance(n, E.VInt) else None
            r.oblige(s, 'coordinate-width-is-the-least-number-of-octets-holding-the-field-size/p%d' % pi,
                     z3.And(8 * n >= BITS, 8 * (n - 1) < BITS) if n is not None else z3.BoolVal(False))
            r.oblige(s, 'format-and-coordinates-stored-as-given/p%d' % pi,
                     z3.BoolVal(s.heap.get(('pt', 'format')) is FORM and s.heap.get(('pt', 'x')) is X and s.heap.get(('pt', 'y')) is Y
                                and isinstance(v, E.VObj) and v.ref == 'pt'))
        return r.result()
    return Scenario(label, F + 'ECPoint.from_values', gen, props=('C08', 'C03', 'C18'))


_base_scn_ec = scenarios


def scenarios():
    return _base_scn_ec() + [ecpoint_from_values()]



def dispatcher(kind):
    """MetaDispatchable.__call__ (Packet(octets)): header first, handler by (tag[, version]) from the registry, Opaque when none is
    registered, the handler's parse gets the same buffer, and ANY exception of a parser leaves as PGPError.
    kind: 'unversioned' (e.g. literal data) | 'versioned' (e.g. signature: generic class, then by version)"""
    label = 'C08/MetaDispatchable.__call__[%s handler]' % kind
    META, PK, T = 'pgpy.types.MetaDispatchable', 'pgpy.packet.types.Packet', 'pgpy.packet.types.'
    GENERIC = 'pgpy.packet.packets.LiteralData' if kind == 'unversioned' else 'pgpy.packet.packets.Signature'
    SPECIFIC = 'pgpy.packet.packets.SignatureV4'

    def gen(repo):
        r = scn.Run(repo, META, '__call__', label)
        ex, st = r.ex, r.st
        root = E.VClass(PK)
        r.hook(META, '_roots', scn.const(E.VSet([root])))
        reg = E.VObj('abstract:Registry', 'registry')
        r.hook(META, '_registry', scn.const(reg))
        known, known_ver = z3.Bool('tag_is_registered'), z3.Bool('tag_and_version_registered')

        def contains(ex, st, o, a):
            k = a[0].items
            if len(k) == 3:
                return [(st, E.VBool(known_ver))]
            return [(st, E.VBool(known))]

        def getitem(ex, st, o, a):
            k = a[0].items
            if len(k) == 2 and isinstance(k[1], E.VNone):
                return [(st, E.VClass(T + 'Opaque'))]
            return [(st, E.VClass(SPECIFIC if len(k) == 3 else GENERIC))]
        r.hook('abstract:Registry', '__contains__', scn.method_hook(contains))
        r.hook('abstract:Registry', '__getitem__', scn.method_hook(getitem))
        OLD = z3.Const('OCTETS', B)
        buf = ex.new_buf(st, OLD)
        TAG, VER = z3.Ints('tag version')

        def mkheader(name):
            def h(ex, st, c, a):
                st.ghost['headers'] = st.ghost.get('headers', ()) + (name,)
                return [(st, E.VObj(c.qual, name + '%d' % len(st.ghost['headers'])))]
            return h
        r.hook(T + 'Header', '__call__', mkheader('header'))
        r.hook(T + 'VersionedHeader', '__call__', mkheader('versioned-header'))

        def hparse(ex, st, o, a):
            st.ghost['events'] = st.ghost.get('events', ()) + (('header.parse', o.ref, a[0]),)
            return [(st, E.VNone())]
        r.hook(T + 'Header', 'parse', scn.method_hook(hparse))
        r.hook(T + 'Header', 'typeid', scn.const(E.VInt(TAG)))
        r.hook(T + 'VersionedHeader', 'version', scn.const(E.VInt(VER)))
        for c in (GENERIC, SPECIFIC, T + 'Opaque', T + 'Packet', T + 'VersionedPacket'):
            r.hook(c, '__init__', scn.mconst(E.VNone()))
        fails = z3.Bool('the_handler_parse_raises')

        def pparse(ex, st, o, a):
            st.ghost['events'] = st.ghost.get('events', ()) + (('packet.parse', o, a[0]),)
            bad = st.clone()
            st.pc.append(z3.Not(fails))
            bad.pc.append(fails)
            return [(st, E.VNone()), (bad, E.Raise('IndexError', 0))]
        for c in (GENERIC, SPECIFIC, T + 'Opaque'):
            r.hook(c, 'parse', scn.method_hook(pparse))
        for pi, (s, v) in enumerate(r.call(root, [buf])):
            ev = s.ghost.get('events', ())
            pp = [e for e in ev if e[0] == 'packet.parse']
            if isinstance(v, E.Raise):
                r.oblige(s, 'any-parser-exception-leaves-as-PGPError/p%d' % pi, z3.And(z3.BoolVal(v.exc.split(':')[0] == 'PGPError'), fails), v.where)
                continue
            r.oblige(s, 'returns-only-after-the-handler-parsed-without-exception/p%d' % pi, z3.And(z3.BoolVal(len(pp) == 1), z3.Not(fails)))
            if len(pp) != 1:
                continue
            obj = pp[0][1]
            r.oblige(s, 'returns-the-object-that-parsed-the-very-buffer-it-was-given/p%d' % pi, z3.BoolVal(v is obj and pp[0][2] is buf))
            if kind == 'unversioned':
                want = z3.If(known, z3.BoolVal(obj.cls == GENERIC), z3.BoolVal(obj.cls == T + 'Opaque'))
            else:
                want = z3.If(z3.And(known, known_ver), z3.BoolVal(obj.cls == SPECIFIC), z3.BoolVal(obj.cls == T + 'Opaque'))
            r.oblige(s, 'handler:registered-class-for-the-tag%s,else-Opaque/p%d' % ('-and-version' if kind == 'versioned' else '', pi), want)
            hp = [e for e in ev if e[0] == 'header.parse']
            r.oblige(s, 'header-parsed-from-the-same-buffer-before-the-body/p%d' % pi,
                     z3.BoolVal(len(hp) >= 1 and all(e[2] is buf for e in hp) and ev.index(hp[-1]) < ev.index(pp[0])))
            hd = s.heap.get((obj.ref, 'header'))
            r.oblige(s, 'the-object-carries-the-parsed-header/p%d' % pi, z3.BoolVal(isinstance(hd, E.VObj) and hd.ref == hp[-1][1] if hp else False))
        return r.result()
    return Scenario(label, META + '.__call__', gen, props=('C08',))


_base_scn_d = scenarios


def scenarios():
    return _base_scn_d() + [dispatcher('unversioned'), dispatcher('versioned')]


def packet_update_hlen():
    """Packet.update_hlen: the header length becomes the number of body octets the packet serialises to right now"""
    label = 'C08/Packet.update_hlen'
    T = 'pgpy.packet.types.'

    def gen(repo):
        r = scn.Run(repo, T + 'Packet', 'update_hlen', label)
        ex, st = r.ex, r.st
        HDRB, BODY = z3.Const('HEADER_AS_WRITTEN_NOW', B), z3.Const('BODY', B)
        r.set('pkt', 'header', E.VObj(T + 'Header', 'hdr'))
        r.hook(T + 'Header', '__len__', scn.method_hook(lambda ex, st, o, a: [(st, E.VInt(z3.Length(HDRB)))]))
        for c in (T + 'Packet', P + 'LiteralData'):
            r.hook(c, '__bytearray__', scn.method_hook(lambda ex, st, o, a: [(st, ex.new_buf(st, z3.Concat(HDRB, BODY)))]))
        for pi, (s, v) in enumerate(r.call(E.VObj(P + 'LiteralData', 'pkt'), [])):
            if isinstance(v, E.Raise):
                r.oblige(s, 'safety(%s)/p%d' % (v.exc.split(':')[0], pi), z3.BoolVal(False), v.where)
                continue
            nl = s.heap.get(('hdr', '_len'))
            r.oblige(s, 'header-length=number-of-body-octets/p%d' % pi, ex.as_int(nl) == z3.Length(BODY) if isinstance(nl, E.VInt) else z3.BoolVal(False))
        return r.result()
    return Scenario(label, T + 'Packet.update_hlen', gen, props=('C08', 'C06'))


_base_scn_uh = scenarios


def scenarios():
    return _base_scn_uh() + [packet_update_hlen()]


def userid_copy():
    """UserID.__copy__: a new packet with a copy of the header and the same text (that the copy of a PARSED packet serialises to the
    octets that were read - also octets that are not UTF-8 - is an obligation of UserID.parse+__bytearray__, stated on the octets and not
    on the field that remembers the codec)"""
    label = 'C08/UserID.__copy__'
    U = P + 'UserID'

    def gen(repo):
        r = scn.Run(repo, U, '__copy__', label)
        ex, st = r.ex, r.st
        TEXT = z3.Const('USER_ID_CODE_POINTS', B)
        fb = z3.Bool('read_with_the_latin1_fallback')
        st.pc += [z3.Implies(fb, z3.And(*[z3.BoolVal(True)]))]
        k = E.fresh('k')
        st.facts.append(z3.Implies(z3.And(k >= 0, k < z3.Length(TEXT)), z3.And(TEXT[k] >= 0, TEXT[k] < 256)))
        r.set('uid', 'uid', E.VStr(z=TEXT, cp=True))
        r.set('uid', '_encoding_fallback', E.VBool(fb))
        r.set('uid', 'header', E.VObj('pgpy.packet.types.Header', 'hdr'))
        r.hook('pgpy.packet.types.Header', '__copy__', scn.method_hook(lambda ex, st, o, a: [(st, E.VObj('pgpy.packet.types.Header', 'hdr-copy'))]))
        r.hook(U, '__call__', lambda ex, st, c, a: [(st, E.VObj(U, 'copy'))])
        for pi, (s, v) in enumerate(r.call(E.VObj(U, 'uid'), [])):
            if isinstance(v, E.Raise):
                r.oblige(s, 'safety(%s)/p%d' % (v.exc.split(':')[0], pi), z3.BoolVal(False), v.where)
                continue
            r.oblige(s, 'a-new-packet-with-a-copy-of-the-header/p%d' % pi,
                     z3.BoolVal(isinstance(v, E.VObj) and v.ref == 'copy' and isinstance(s.heap.get(('copy', 'header')), E.VObj) and s.heap[('copy', 'header')].ref == 'hdr-copy'))
            t = s.heap.get(('copy', 'uid'))
            r.oblige(s, 'same-text/p%d' % pi, t.z == TEXT if isinstance(t, E.VStr) and t.z is not None else z3.BoolVal(False))
        return r.result()
    return Scenario(label, U + '.__copy__', gen, props=('C08', 'C14', 'C07'))


_base_scn_uc = scenarios


def scenarios():
    return _base_scn_uc() + [userid_copy()]


def compressed_parse():
    """CompressedData.parse: algorithm octet, the rest of the body handed to that algorithm's decompressor in one piece, and EVERY octet
    of what comes back read as nested packets, front to back (the nested reader is given by contract: it takes k >= 1 octets from the
    front of the buffer it is given, in place); exactly the body is consumed from the outer buffer."""
    label = 'C08/CompressedData.parse'
    CD = P + 'CompressedData'

    def gen(repo):
        r = scn.Run(repo, CD, 'parse', label)
        ex, st = r.ex, r.st
        OLD, HL, PLAIN = z3.Const('RECEIVED', B), z3.Int('header_length'), z3.Const('WHAT_THE_DECOMPRESSOR_RETURNS', B)
        me = E.VObj(CD, 'pkt')
        _hdr(r, HL)
        ALG = OLD[0]
        st.pc += [z3.Length(OLD) >= HL, HL >= 1, ALG >= 0, ALG <= 3]
        buf = ex.new_buf(st, OLD)
        r.set('pkt', 'packets', ex.new_list(st, []))

        def decompress(ex, st, o, a):
            st.ghost['dec'] = st.ghost.get('dec', ()) + ((o, a[0]),)
            return [(st, E.VBytes(PLAIN))]
        r.hook('pgpy.constants.CompressionAlgorithm', 'decompress', scn.method_hook(decompress))

        def packet(ex, st, c, a):
            if not isinstance(a[0], E.VBuf):
                raise E.ToolLimit('nested packet reader called on something that is not a mutable buffer')
            S = st.heap[a[0].cell]
            k = E.fresh('consumed')
            st.pc += [k >= 1, k <= z3.Length(S)]
            st.heap[a[0].cell] = z3.Extract(S, k, z3.Length(S) - k)
            st.ghost['inner'] = a[0]
            st.ghost['read_from'] = st.ghost.get('read_from', ()) + (S,)
            p = E.VObj(P + 'LiteralData', E.fresh('nested'))
            st.ghost['last_read'] = p
            return [(st, p)]
        r.hook('pgpy.packet.types.Packet', '__call__', packet)
        loops = ex.register_loops('parse', r.node)

        def local(st, env, name):
            e = env
            while e is not None:
                if name in st.envs.get(e.eid, {}):
                    return st.envs[e.eid][name]
                e = e.parent
            return None

        def inv(ex, st, env):
            cd = local(st, env, 'cdata')
            if not isinstance(cd, E.VBuf):
                return z3.BoolVal(False)
            cur = st.heap[cd.cell]
            n, L = z3.Length(cur), z3.Length(PLAIN)
            lst = st.heap.get(('pkt', 'packets'))
            items = ex.items(lst, st) if isinstance(lst, E.VList) else None
            lr = st.ghost.get('last_read')
            # what is still to be read is a SUFFIX of what the decompressor returned (nothing is dropped at either end, nothing skipped),
            # and the packet read in this iteration is the last one of the list
            return z3.And(n >= 0, n <= L, cur == z3.Extract(PLAIN, L - n, n), z3.BoolVal(lr is None or (items is not None and len(items) > 0 and items[-1] is lr)))

        def havoc(ex, st, env):
            cd = local(st, env, 'cdata')
            if isinstance(cd, E.VBuf):
                st.heap[cd.cell] = E.fresh('inner_buffer', B)
                st.ghost['inner'] = cd
            st.ghost['last_read'] = None

        def variant(ex, st, env):
            cd = local(st, env, 'cdata')
            return z3.Length(st.heap[cd.cell]) if isinstance(cd, E.VBuf) else z3.IntVal(0)
        spec = {'name': 'nested-packets-front-to-back', 'inv': inv, 'havoc': havoc, 'variant': variant}
        for i in range(len(loops)):
            ex.loops[('parse', i)] = spec
        for pi, (s, v) in enumerate(r.call(me, [buf])):
            if isinstance(v, E.Raise):
                r.oblige(s, 'safety(%s)/p%d' % (v.exc.split(':')[0], pi), z3.BoolVal(False), v.where)
                continue
            calg = s.heap.get(('pkt', '_calg'))
            r.oblige(s, 'algorithm-is-the-first-octet/p%d' % pi, ex.as_int(calg) == ALG if isinstance(calg, (E.VInt, E.VBool)) else z3.BoolVal(False))
            dec = s.ghost.get('dec', ())
            ok = len(dec) == 1
            r.oblige(s, 'the-rest-of-the-body-goes-to-the-decompressor-of-that-algorithm-in-one-piece/p%d' % pi,
                     z3.And(z3.BoolVal(ok), z3.And(ex.as_int(dec[0][0]) == ALG, ex.seq(dec[0][1], s) == z3.Extract(OLD, 1, HL - 1)) if ok else z3.BoolVal(False)))
            r.oblige(s, 'consumes-exactly-the-body/p%d' % pi, s.heap[buf.cell] == z3.Extract(OLD, HL, z3.Length(OLD) - HL))
            inner = s.ghost.get('inner')
            r.oblige(s, 'every-octet-of-the-decompressed-data-is-read-as-nested-packets/p%d' % pi,
                     z3.Or(z3.Length(PLAIN) == 0, z3.Length(s.heap[inner.cell]) == 0) if inner is not None else z3.Length(PLAIN) == 0)
        return r.result()
    return Scenario(label, CD + '.parse', gen, props=('C08', 'C20'))


def compressed_bytes():
    """CompressedData.__bytearray__: header, algorithm octet, then the compressor of that algorithm applied once to the concatenation of
    the nested packets in order"""
    label = 'C08/CompressedData.__bytearray__'
    CD = P + 'CompressedData'

    def gen(repo):
        r = scn.Run(repo, CD, '__bytearray__', label)
        ex, st = r.ex, r.st
        HDR = z3.Const('HEADER', B)
        ALG = z3.Int('algorithm')
        st.pc += [ALG >= 0, ALG <= 3]
        COMP = z3.Function('COMPRESS', z3.IntSort(), B, B)
        me = E.VObj(CD, 'pkt')
        r.hook('pgpy.packet.types.Packet', '__bytearray__', scn.method_hook(lambda ex, st, o, a: [(st, ex.new_buf(st, HDR))]))
        r.set('pkt', '_calg', E.VInt(ALG, enum='pgpy.constants.CompressionAlgorithm'))
        NB = [z3.Const('NESTED_%d' % i, B) for i in range(3)]
        nested = [E.VObj(P + 'LiteralData', 'n%d' % i) for i in range(3)]
        r.set('pkt', 'packets', ex.new_list(st, nested))
        r.hook(P + 'LiteralData', '__bytearray__', scn.method_hook(lambda ex, st, o, a: [(st, ex.new_buf(st, NB[int(o.ref[1:])]))]))
        r.hook('pgpy.constants.CompressionAlgorithm', 'compress', scn.method_hook(lambda ex, st, o, a: [(st, E.VBytes(COMP(ex.as_int(o), ex.seq(a[0], st))))]))
        for pi, (s, v) in enumerate(r.call(me, [])):
            if isinstance(v, E.Raise):
                r.oblige(s, 'safety(%s)/p%d' % (v.exc.split(':')[0], pi), z3.BoolVal(False), v.where)
                continue
            r.oblige(s, 'header,algorithm-octet,compressed(nested-packets-in-order)/p%d' % pi,
                     ex.seq(v, s) == z3.Concat(HDR, z3.Unit(ALG), COMP(ALG, z3.Concat(*NB))))
        return r.result()
    return Scenario(label, CD + '.__bytearray__', gen, props=('C08', 'C20'))


_base_scn_cd = scenarios


def scenarios():
    return _base_scn_cd() + [compressed_parse(), compressed_bytes()]


def userid_codec():
    """UserID: parse (UTF-8, or the Latin-1 fallback for octets that are not UTF-8), __bytearray__, and the two together:
    what is written is the CURRENT text of the packet (also after the text of a parsed packet was replaced: no hidden copy of the octets
    that were read), and an unedited packet is written back with the octets it was read from."""
    label = 'C08/UserID.parse+__bytearray__'
    UID = P + 'UserID'

    def gen(repo):
        r = scn.Run(repo, UID, 'parse', label)
        ex, st = r.ex, r.st
        OLD, HL, HDR, NEW = z3.Const('RECEIVED', B), z3.Int('header_length'), z3.Const('HEADER', B), z3.Const('NEW_TEXT_UTF8', B)
        _hdr(r, HL)
        st.pc += [HL >= 0, z3.Length(OLD) >= HL]
        k = z3.Int('k!octet')
        st.pc.append(z3.ForAll([k], z3.Implies(z3.And(k >= 0, k < z3.Length(OLD)), z3.And(OLD[k] >= 0, OLD[k] < 256))))      # octets
        buf = ex.new_buf(st, OLD)
        me = E.VObj(UID, 'pkt')
        r.set('pkt', 'uid', E.VStr(s=''))
        r.set('pkt', '_encoding_fallback', E.VBool(False))
        r.hook('pgpy.packet.types.Packet', '__bytearray__', scn.method_hook(lambda ex, st, o, a: [(st, ex.new_buf(st, HDR))]))
        r.hook('pgpy.packet.types.Header', '__copy__', scn.method_hook(lambda ex, st, o, a: [(st, E.VObj('pgpy.packet.types.Header', 'hdr-copy'))]))
        r.hook(UID, '__call__', lambda ex, st, c, a: [(st, E.VObj(UID, 'copy'))])
        VALID = z3.Function('VALID[utf-8]', B, z3.BoolSort())
        body = z3.Extract(OLD, 0, HL)
        lk = repo.lookup(UID, '__bytearray__')
        ser = lambda s: ex.call_func(E.VFunc(lk[2], None, cls=lk[1], self_val=me, mod=repo.classes[lk[1]].module), [], {}, s, {'mod': repo.classes[lk[1]].module})
        for pi, (s, v) in enumerate(r.call(me, [buf])):
            if isinstance(v, E.Raise):
                r.oblige(s, 'safety(%s)/p%d' % (v.exc.split(':')[0], pi), z3.BoolVal(False), v.where)
                continue
            r.oblige(s, 'consumes-exactly-the-body/p%d' % pi, s.heap[buf.cell] == z3.Extract(OLD, HL, z3.Length(OLD) - HL))
            t = s.heap.get(('pkt', 'uid'))
            okt = isinstance(t, E.VStr) and t.z is not None
            r.oblige(s, 'text-is-the-body-read-as-utf-8,or-as-latin-1-when-it-is-not-utf-8/p%d' % pi,
                     z3.And(z3.BoolVal(okt), z3.If(VALID(body), z3.BoolVal(okt and not t.cp), z3.BoolVal(okt and bool(t.cp))), t.z == body) if okt else z3.BoolVal(False))
            # (1) unedited: written back with the octets it was read from
            s1 = s.clone()
            for qi, (s2, v2) in enumerate(ser(s1)):
                if isinstance(v2, E.Raise):
                    r.oblige(s2, 'unedited:safety(%s)/p%d.%d' % (v2.exc.split(':')[0], pi, qi), z3.BoolVal(False), v2.where)
                    continue
                r.oblige(s2, 'unedited:header-then-the-octets-that-were-read/p%d.%d' % (pi, qi), ex.seq(v2, s2) == z3.Concat(HDR, body))
            # (3) a copy of the parsed packet is written with the octets that were read, too (D39: octets that are not UTF-8)
            s5 = s.clone()
            lkc = repo.lookup(UID, '__copy__')
            for qi, (s6, c) in enumerate(ex.call_func(E.VFunc(lkc[2], None, cls=lkc[1], self_val=me, mod=repo.classes[lkc[1]].module), [], {}, s5, {'mod': repo.classes[lkc[1]].module})):
                if isinstance(c, E.Raise) or not isinstance(c, E.VObj):
                    r.oblige(s6, 'copy:safety/p%d.%d' % (pi, qi), z3.BoolVal(False), getattr(c, 'where', None))
                    continue
                for ri, (s7, v7) in enumerate(ex.call_func(E.VFunc(lk[2], None, cls=lk[1], self_val=c, mod=repo.classes[lk[1]].module), [], {}, s6, {'mod': repo.classes[lk[1]].module})):
                    if isinstance(v7, E.Raise):
                        r.oblige(s7, 'copy:safety(%s)/p%d.%d.%d' % (v7.exc.split(':')[0], pi, qi, ri), z3.BoolVal(False), v7.where)
                        continue
                    r.oblige(s7, 'copy:header-then-the-octets-that-were-read/p%d.%d.%d' % (pi, qi, ri),
                             z3.And(z3.BoolVal(c.ref != 'pkt'), ex.seq(v7, s7) == z3.Concat(HDR, body)))
            # (2) the text replaced after parsing (UTF-8 path): the NEW text is written
            s3 = s.clone()
            s3.pc.append(VALID(body))
            if ex.feasible(s3, z3.BoolVal(True)):
                s3.heap[('pkt', 'uid')] = E.VStr(z=NEW)
                for qi, (s4, v4) in enumerate(ser(s3)):
                    if isinstance(v4, E.Raise):
                        r.oblige(s4, 'edited:safety(%s)/p%d.%d' % (v4.exc.split(':')[0], pi, qi), z3.BoolVal(False), v4.where)
                        continue
                    r.oblige(s4, 'edited:header-then-the-utf-8-octets-of-the-current-text/p%d.%d' % (pi, qi), ex.seq(v4, s4) == z3.Concat(HDR, NEW))
        return r.result()
    return Scenario(label, UID + '.parse', gen, props=('C08', 'C14', 'C07'))


_base_scn_ui = scenarios


def scenarios():
    return _base_scn_ui() + [userid_codec()]


def trust_codec(hl):
    """Trust packets (implementation-defined contents, RFC 4880 5.10): parse consumes exactly the announced body; an unedited packet is
    written back with the octets that were read (D37: any length); once the level is set to something else, the packet is written from
    its level and flags (two octets) - no stale copy of the octets that were read (D40)"""
    label = 'C08/Trust.parse+__bytearray__[body of %d octet%s]' % (hl, '' if hl == 1 else 's')
    T = P + 'Trust'

    def gen(repo):
        r = scn.Run(repo, T, 'parse', label)
        ex, st = r.ex, r.st
        OLD, HDR = z3.Const('RECEIVED', B), z3.Const('HEADER', B)
        _hdr(r, z3.IntVal(hl))
        st.pc += [z3.Length(OLD) >= hl]
        k = z3.Int('k!octet')
        st.pc.append(z3.ForAll([k], z3.Implies(z3.And(k >= 0, k < z3.Length(OLD)), z3.And(OLD[k] >= 0, OLD[k] < 256))))
        buf = ex.new_buf(st, OLD)
        me = E.VObj(T, 'pkt')
        r.hook('pgpy.packet.types.Packet', '__bytearray__', scn.method_hook(lambda ex, st, o, a: [(st, ex.new_buf(st, HDR))]))
        body = z3.Extract(OLD, 0, hl)
        lk = repo.lookup(T, '__bytearray__')
        ser = lambda s: ex.call_func(E.VFunc(lk[2], None, cls=lk[1], self_val=me, mod=repo.classes[lk[1]].module), [], {}, s, {'mod': repo.classes[lk[1]].module})
        nret = 0
        for pi, (s, v) in enumerate(r.call(me, [buf])):
            if isinstance(v, E.Raise):
                r.oblige(s, 'safety(%s)/p%d' % (v.exc.split(':')[0], pi), z3.BoolVal(False), v.where)
                continue
            nret += 1
            r.oblige(s, 'consumes-exactly-the-body/p%d' % pi, s.heap[buf.cell] == z3.Extract(OLD, hl, z3.Length(OLD) - hl))
            for qi, (s2, v2) in enumerate(ser(s.clone())):
                if isinstance(v2, E.Raise):
                    r.oblige(s2, 'unedited:safety(%s)/p%d.%d' % (v2.exc.split(':')[0], pi, qi), z3.BoolVal(False), v2.where)
                    continue
                r.oblige(s2, 'unedited:header-then-the-octets-that-were-read/p%d.%d' % (pi, qi), ex.seq(v2, s2) == z3.Concat(HDR, body))
            # the level set to Never (3) through the API
            s3 = s.clone()
            for qi, (s4, _) in enumerate(ex.setattr(me, 'trustlevel', E.VInt(3), s3, {'mod': 'pgpy.packet.packets'}, None)):
                for ri, (s5, v5) in enumerate(ser(s4)):
                    if isinstance(v5, E.Raise):
                        r.oblige(s5, 'edited:safety(%s)/p%d.%d.%d' % (v5.exc.split(':')[0], pi, qi, ri), z3.BoolVal(False), v5.where)
                        continue
                    out = ex.seq(v5, s5)
                    n = z3.Length(out)
                    r.oblige(s5, 'edited:header-then-two-octets-whose-low-four-bits-are-the-new-level/p%d.%d.%d' % (pi, qi, ri),
                             z3.And(n == z3.Length(HDR) + 2, z3.Extract(out, 0, z3.Length(HDR)) == HDR, out[n - 1] % 16 == 3))
        r.oblige(st, 'cover-a-parse-that-returns', z3.BoolVal(nret > 0))
        return r.result()
    return Scenario(label, T + '.parse', gen, props=('C08', 'C14'))


_base_scn_tr = scenarios


def scenarios():
    return _base_scn_tr() + [trust_codec(n) for n in (1, 2, 4)]


def pkesk_codec():
    """PKESessionKeyV3 (RFC 4880 5.1): parse = eight key id octets (kept as upper-case hex), algorithm octet, then the algorithm-specific
    fields read by that algorithm's ciphertext class from the same buffer; __bytearray__ = header, key id octets, algorithm, fields"""
    label = 'C08/PKESessionKeyV3.parse+__bytearray__'
    PK = P + 'PKESessionKeyV3'
    CT = {1: 'RSACipherText', 2: 'RSACipherText', 16: 'ElGCipherText', 20: 'ElGCipherText', 18: 'ECDHCipherText'}

    def gen(repo):
        obls, funcs, paths = [], [], 0
        HEX, UP, UNHEX = z3.Function('HEXLIFY', B, B), z3.Function('STR_UPPER', B, B), z3.Function('UNHEXLIFY', B, B)
        for alg, ctname in sorted(CT.items()):
            r = scn.Run(repo, PK, 'parse', '%s[parse,algorithm %d]' % (label, alg))
            ex, st = r.ex, r.st
            OLD = z3.Const('RECEIVED', B)
            HL = z3.Int('header_length')
            _hdr(r, HL)
            st.pc += [z3.Length(OLD) >= 9, OLD[8] == alg, HL >= 10]
            buf = ex.new_buf(st, OLD)
            me = E.VObj(PK, 'pkt')
            r.set('pkt', 'ct', E.VNone())
            F = 'pgpy.packet.fields.'
            for c in set(CT.values()):
                r.hook(F + c, '__call__', (lambda c: lambda ex, st, cls, a: [(st, E.VObj(F + c, 'fields'))])(c))

                def ctparse(ex, st, o, a):
                    st.ghost['ct_parse'] = (o, a[0], st.heap[a[0].cell] if isinstance(a[0], E.VBuf) else None)
                    return [(st, E.VNone())]
                r.hook(F + c, 'parse', scn.method_hook(ctparse))
            for pi, (s, v) in enumerate(r.call(me, [buf])):
                paths += 1
                if isinstance(v, E.Raise):
                    r.oblige(s, 'safety(%s)/p%d' % (v.exc.split(':')[0], pi), z3.BoolVal(False), v.where)
                    continue
                enc = s.heap.get(('pkt', '_encrypter'))
                okk = isinstance(enc, E.VStr) and enc.z is not None
                r.oblige(s, 'key-id-is-the-first-eight-octets-in-upper-case-hex/p%d' % pi, z3.And(z3.BoolVal(okk), enc.z == UP(HEX(z3.Extract(OLD, 0, 8))) if okk else z3.BoolVal(False)))
                pa = s.heap.get(('pkt', '_pkalg'))
                r.oblige(s, 'algorithm-is-the-ninth-octet/p%d' % pi, ex.as_int(pa) == alg if isinstance(pa, (E.VInt, E.VBool)) else z3.BoolVal(False))
                cp = s.ghost.get('ct_parse')
                okc = cp is not None and isinstance(cp[0], E.VObj) and cp[0].cls == F + ctname and cp[1] is buf and cp[2] is not None
                r.oblige(s, 'the-fields-of-that-algorithm-are-read-from-the-same-buffer,right-after-the-algorithm-octet/p%d' % pi,
                         z3.And(z3.BoolVal(okc), cp[2] == z3.Extract(OLD, 9, z3.Length(OLD) - 9) if okc else z3.BoolVal(False)))
                ctv = s.heap.get(('pkt', 'ct'))
                r.oblige(s, 'and-kept-in-the-packet/p%d' % pi, z3.BoolVal(okc and ctv is cp[0]))
            res = r.result()
            obls += res['obligations']
            funcs += res['funcs']
        # serialisation
        r = scn.Run(repo, PK, '__bytearray__', label + '[bytes]')
        ex, st = r.ex, r.st
        HDR, KID, FIELDS, ALG = z3.Const('HEADER_AND_VERSION', B), z3.Const('KEY_ID_HEX', B), z3.Const('FIELDS', B), z3.Int('algorithm')
        st.pc += [ALG >= 0, ALG < 256]
        for c in ('pgpy.packet.types.Packet', 'pgpy.packet.types.VersionedPacket'):
            r.hook(c, '__bytearray__', scn.method_hook(lambda ex, st, o, a: [(st, ex.new_buf(st, HDR))]))
        r.set('pkt', '_encrypter', E.VStr(z=KID))
        r.set('pkt', '_pkalg', E.VInt(ALG, enum='pgpy.constants.PubKeyAlgorithm'))
        r.set('pkt', 'ct', E.VObj('pgpy.packet.fields.RSACipherText', 'fields'))
        r.hook('pgpy.packet.fields.RSACipherText', '__bytearray__', scn.method_hook(lambda ex, st, o, a: [(st, ex.new_buf(st, FIELDS))]))
        for pi, (s, v) in enumerate(r.call(E.VObj(PK, 'pkt'), [])):
            paths += 1
            if isinstance(v, E.Raise):
                r.oblige(s, 'safety(%s)/p%d' % (v.exc.split(':')[0], pi), z3.BoolVal(False), v.where)
                continue
            r.oblige(s, 'header,key-id-octets,algorithm,fields/p%d' % pi, ex.seq(v, s) == z3.Concat(HDR, UNHEX(KID), z3.Unit(ALG), FIELDS))
        res = r.result()
        return {'obligations': obls + res['obligations'], 'funcs': funcs + res['funcs'], 'paths': paths}
    return Scenario(label, PK + '.parse', gen, props=('C08', 'C03'))


def skesk_codec():
    """SKESessionKeyV4 (RFC 4880 5.3): parse = the S2K specifier read by the String2Key codec (no IV) from the body with a usage octet put in
    front, and whatever the announced length leaves as the encrypted session key; __bytearray__ = header, the specifier without that usage
    octet, the encrypted session key"""
    label = 'C08/SKESessionKeyV4.parse+__bytearray__'
    SK, S2K = P + 'SKESessionKeyV4', 'pgpy.packet.fields.String2Key'

    def gen(repo):
        r = scn.Run(repo, SK, 'parse', label + '[parse]')
        ex, st = r.ex, r.st
        OLD, HL, N = z3.Const('RECEIVED', B), z3.Int('header_length'), z3.Int('octets_the_specifier_takes')
        _hdr(r, HL)
        # contract of String2Key.parse(buffer, iv=False) (proved in its own scenarios): takes the usage octet and N-1 more; __len__ = N
        st.pc += [N >= 3, HL >= N, z3.Length(OLD) >= HL - 1]
        buf = ex.new_buf(st, OLD)
        me = E.VObj(SK, 'pkt')
        r.set('pkt', 's2k', E.VObj(S2K, 's2k'))

        def s2kparse(ex, st, o, a, kws):
            S = st.heap[a[0].cell]
            st.ghost['s2k_parse'] = (a[0], S, kws.get('iv'))
            bad = st.clone()
            st.pc.append(z3.Length(S) >= N)
            st.heap[a[0].cell] = z3.Extract(S, N, z3.Length(S) - N)
            return [(st, E.VNone())]
        s2kparse.wants_kws = True
        r.hook(S2K, 'parse', scn.method_hook(s2kparse))
        r.hook(S2K, '__len__', scn.method_hook(lambda ex, st, o, a: [(st, E.VInt(N))]))
        for pi, (s, v) in enumerate(r.call(me, [buf])):
            if isinstance(v, E.Raise):
                r.oblige(s, 'safety(%s)/p%d' % (v.exc.split(':')[0], pi), z3.BoolVal(False), v.where)
                continue
            sp = s.ghost.get('s2k_parse')
            ok = sp is not None and sp[0] is buf
            r.oblige(s, 'specifier-read-from-the-body-with-usage-octet-255-in-front,without-iv/p%d' % pi,
                     z3.And(z3.BoolVal(ok and isinstance(sp[2], E.VBool)), z3.And(sp[1] == z3.Concat(z3.Unit(z3.IntVal(255)), OLD), z3.Not(ex.truth(sp[2], s))) if ok and sp[2] is not None else z3.BoolVal(False)))
            ct = s.heap.get(('pkt', 'ct'))
            r.oblige(s, 'encrypted-session-key-is-what-the-announced-length-leaves/p%d' % pi, ex.seq(ct, s) == z3.Extract(OLD, N - 1, HL - N))
            r.oblige(s, 'consumes-what-the-specifier-took-plus-that/p%d' % pi, s.heap[buf.cell] == z3.Extract(OLD, HL - 1, z3.Length(OLD) - (HL - 1)))
        res = r.result()
        r2 = scn.Run(repo, SK, '__bytearray__', label + '[bytes]')
        HDR, SPEC, CT = z3.Const('HEADER_AND_VERSION', B), z3.Const('SPECIFIER_WITH_USAGE_OCTET', B), z3.Const('ENCRYPTED_SESSION_KEY', B)
        r2.st.pc.append(z3.Length(SPEC) >= 1)
        for c in ('pgpy.packet.types.Packet', 'pgpy.packet.types.VersionedPacket'):
            r2.hook(c, '__bytearray__', scn.method_hook(lambda ex, st, o, a: [(st, ex.new_buf(st, HDR))]))
        r2.set('pkt', 's2k', E.VObj(S2K, 's2k'))
        r2.set('pkt', 'ct', r2.ex.new_buf(r2.st, CT))
        r2.hook(S2K, '__bytearray__', scn.method_hook(lambda ex, st, o, a: [(st, ex.new_buf(st, SPEC))]))
        for pi, (s, v) in enumerate(r2.call(E.VObj(SK, 'pkt'), [])):
            if isinstance(v, E.Raise):
                r2.oblige(s, 'safety(%s)/p%d' % (v.exc.split(':')[0], pi), z3.BoolVal(False), v.where)
                continue
            r2.oblige(s, 'header,specifier-without-its-usage-octet,encrypted-session-key/p%d' % pi,
                      r2.ex.seq(v, s) == z3.Concat(HDR, z3.Extract(SPEC, 1, z3.Length(SPEC) - 1), CT))
        res2 = r2.result()
        return {'obligations': res['obligations'] + res2['obligations'], 'funcs': res['funcs'] + res2['funcs'], 'paths': 0}
    return Scenario(label, SK + '.parse', gen, props=('C08', 'C03'))


def opaque_codec():
    """Opaque (a packet of a type or version PGPy has no class for): the body is kept as it is and written back as it is"""
    label = 'C08/Opaque.parse+__bytearray__'
    OP = 'pgpy.packet.types.Opaque'

    def gen(repo):
        obls, funcs = [], []
        for versioned in (False, True):
            r = scn.Run(repo, OP, 'parse', '%s[parse,%s header]' % (label, 'versioned' if versioned else 'plain'))
            ex, st = r.ex, r.st
            OLD, HL = z3.Const('RECEIVED', B), z3.Int('header_length')
            hcls = 'pgpy.packet.types.VersionedHeader' if versioned else 'pgpy.packet.types.Header'
            r.set('pkt', 'header', E.VObj(hcls, 'hdr'))
            r.set('hdr', '_len', E.VInt(HL))
            if versioned:
                r.set('hdr', '_version', E.VInt(z3.Int('version')))
            r.hook('pgpy.packet.types.Packet', 'parse', scn.mconst(E.VNone()))
            n = HL - 1 if versioned else HL
            st.pc += [n >= 0, z3.Length(OLD) >= n]
            buf = ex.new_buf(st, OLD)
            for pi, (s, v) in enumerate(r.call(E.VObj(OP, 'pkt'), [buf])):
                if isinstance(v, E.Raise):
                    r.oblige(s, 'safety(%s)/p%d' % (v.exc.split(':')[0], pi), z3.BoolVal(False), v.where)
                    continue
                pl = s.heap.get(('pkt', '_payload'))
                r.oblige(s, 'payload-is-the-body%s/p%d' % ('-after-the-version-octet-the-header-took' if versioned else '', pi), ex.seq(pl, s) == z3.Extract(OLD, 0, n))
                r.oblige(s, 'consumes-exactly-that/p%d' % pi, s.heap[buf.cell] == z3.Extract(OLD, n, z3.Length(OLD) - n))
            res = r.result()
            obls += res['obligations']
            funcs += res['funcs']
        r2 = scn.Run(repo, OP, '__bytearray__', label + '[bytes]')
        HDR, PAY = z3.Const('HEADER', B), z3.Const('PAYLOAD', B)
        r2.hook('pgpy.packet.types.Packet', '__bytearray__', scn.method_hook(lambda ex, st, o, a: [(st, ex.new_buf(st, HDR))]))
        r2.set('pkt', '_payload', E.VBytes(PAY))
        for pi, (s, v) in enumerate(r2.call(E.VObj(OP, 'pkt'), [])):
            if isinstance(v, E.Raise):
                r2.oblige(s, 'safety(%s)/p%d' % (v.exc.split(':')[0], pi), z3.BoolVal(False), v.where)
                continue
            r2.oblige(s, 'header-then-the-payload/p%d' % pi, r2.ex.seq(v, s) == z3.Concat(HDR, PAY))
        res2 = r2.result()
        return {'obligations': obls + res2['obligations'], 'funcs': funcs + res2['funcs'], 'paths': 0}
    return Scenario(label, OP + '.parse', gen, props=('C08', 'C05'))


_base_scn_pk = scenarios


def scenarios():
    return _base_scn_pk() + [pkesk_codec(), skesk_codec(), opaque_codec()]


def ec_public_codec(clsname):
    """ECDSAPub / EdDSAPub / ECDHPub (RFC 6637 section 9, 4880bis): parse = one length octet, that many OID octets (handed to the DER
    decoder as `06 len octets`; the curve is looked up from what it returns), then the point as an MPI read from right after them, the
    point format the algorithm requires (ECDSA: standard 0x04; EdDSA: native 0x40; ECDH: native on Curve25519, standard otherwise),
    for ECDH then the KDF parameters; __bytearray__ = DER of the curve's OID without its tag octet, the point, (the KDF parameters).
    pyasn1's decoder / encoder and the curve table are externals with the stated framing; ECPoint(buffer) is given by contract (it takes
    k >= 2 octets from the front, in place)."""
    label = 'C08/fields.%s.parse+__bytearray__' % clsname
    F = 'pgpy.packet.fields.'
    cls = F + clsname

    def gen(repo):
        r = scn.Run(repo, cls, 'parse', label + '[parse]')
        ex, st = r.ex, r.st
        OLD = z3.Const('RECEIVED', B)
        n = OLD[0]
        st.pc += [z3.Length(OLD) >= 1, n >= 0, n < 256, z3.Length(OLD) >= 1 + n]
        buf = ex.new_buf(st, OLD)
        me = E.VObj(cls, 'mat')
        if clsname == 'ECDHPub':
            r.set('mat', 'kdf', E.VObj(F + 'ECKDF', 'kdf'))
        FMT = z3.Int('point_format')
        is25519 = z3.Bool('the_curve_is_Curve25519')
        st.pc += [z3.Or(FMT == 0x04, FMT == 0x40, FMT == 0x41, FMT == 0x42)]

        def decode(ex, st, o, a):
            st.ghost['decoded'] = ex.seq(a[0], st)
            return [(st, E.VTuple([E.VExt('asn1-oid', ()), E.VBytes(z3.Empty(B))]))]
        ex.hooks[('ext', 'decoder.decode')] = decode

        def curve(ex, st, c, a):
            st.ghost['curve_of'] = a[0]
            return [(st, E.VExt('curve', ()))]
        r.hook('pgpy.constants.EllipticCurveOID', '__call__', curve)
        C25519 = E.VExt('curve25519', ())
        r.hook('pgpy.constants.EllipticCurveOID', 'Curve25519', lambda ex, st, o, a: [(st, C25519)])
        orig_eq = ex.eq

        def eq_(l, rr, st_):
            if isinstance(l, E.VExt) and isinstance(rr, E.VExt) and {l.name, rr.name} == {'curve', 'curve25519'}:
                return is25519
            return orig_eq(l, rr, st_)
        ex.eq = eq_

        def point(ex, st, c, a):
            S = st.heap[a[0].cell]
            k = E.fresh('point_octets')
            st.pc += [k >= 2, k <= z3.Length(S)]
            st.ghost['point_from'] = (a[0], S, k)
            st.heap[a[0].cell] = z3.Extract(S, k, z3.Length(S) - k)
            return [(st, E.VObj(F + 'ECPoint', 'point'))]
        r.hook(F + 'ECPoint', '__call__', point)
        r.hook(F + 'ECPoint', 'format', scn.const(E.VInt(FMT, enum='pgpy.constants.ECPointFormat')))

        def kdfparse(ex, st, o, a):
            S = st.heap[a[0].cell]
            st.ghost['kdf_from'] = (a[0], S)
            st.pc.append(z3.Length(S) >= 4)
            st.heap[a[0].cell] = z3.Extract(S, 4, z3.Length(S) - 4)
            return [(st, E.VNone())]
        r.hook(F + 'ECKDF', 'parse', scn.method_hook(kdfparse))
        want_fmt = {'ECDSAPub': FMT == 0x04, 'EdDSAPub': FMT == 0x40, 'ECDHPub': z3.If(is25519, FMT == 0x40, FMT == 0x04)}[clsname]
        nret = 0
        for pi, (s, v) in enumerate(r.call(me, [buf])):
            if isinstance(v, E.Raise):
                r.oblige(s, 'refused-only-for-a-point-format-the-algorithm-does-not-take(PGPIncompatibleECPointFormatError)/p%d' % pi,
                         z3.And(z3.BoolVal(v.exc.split(':')[0] == 'PGPIncompatibleECPointFormatError'), z3.Not(want_fmt)), v.where)
                continue
            nret += 1
            r.oblige(s, 'accepted=>the-point-format-is-the-one-the-algorithm-takes/p%d' % pi, want_fmt)
            dec = s.ghost.get('decoded')
            r.oblige(s, 'the-OID-octets-go-to-the-DER-decoder-as-06-len-octets/p%d' % pi,
                     dec == z3.Concat(z3.Unit(z3.IntVal(6)), z3.Unit(n), z3.Extract(OLD, 1, n)) if dec is not None else z3.BoolVal(False))
            co = s.ghost.get('curve_of')
            r.oblige(s, 'the-curve-is-looked-up-from-the-decoded-OID/p%d' % pi,
                     z3.BoolVal(isinstance(co, E.VExt) and co.name == 'asn1-oid' and isinstance(s.heap.get(('mat', 'oid')), E.VExt) and s.heap[('mat', 'oid')].name == 'curve'))
            pf = s.ghost.get('point_from')
            okp = pf is not None and pf[0] is buf
            r.oblige(s, 'the-point-is-read-from-right-after-the-OID-octets/p%d' % pi,
                     z3.And(z3.BoolVal(okp), pf[1] == z3.Extract(OLD, 1 + n, z3.Length(OLD) - 1 - n) if okp else z3.BoolVal(False)))
            if clsname == 'ECDHPub':
                kf = s.ghost.get('kdf_from')
                okk = kf is not None and okp and kf[0] is buf
                r.oblige(s, 'the-KDF-parameters-are-read-from-right-after-the-point/p%d' % pi,
                         z3.And(z3.BoolVal(okk), kf[1] == z3.Extract(OLD, 1 + n + pf[2], z3.Length(OLD) - 1 - n - pf[2]) if okk else z3.BoolVal(False)))
        r.oblige(st, 'cover-an-accepting-path', z3.BoolVal(nret > 0))
        res = r.result()
        # serialisation
        r2 = scn.Run(repo, cls, '__bytearray__', label + '[bytes]')
        ex2, st2 = r2.ex, r2.st
        OIDDER, PT, KDFB = z3.Const('DER_OF_THE_CURVE_OID', B), z3.Const('POINT_MPI', B), z3.Const('KDF_PARAMETERS', B)
        st2.pc.append(z3.Length(OIDDER) >= 1)
        cv = E.VExt('curve', ())
        r2.set('mat', 'oid', cv)
        h = lambda ex, st, o, a: [(st, E.VExt('oid-value', ()))]
        h.is_method = False
        ex2.hooks[('ext:curve', 'value')] = h
        ex2.hooks[('ext', 'encoder.encode')] = lambda ex, st, o, a: [(st, E.VBytes(OIDDER))] if isinstance(a[0], E.VExt) and a[0].name == 'oid-value' else [(st, E.VBytes(z3.Const('OTHER', B)))]
        r2.set('mat', 'p', E.VObj(F + 'ECPoint', 'point'))
        r2.hook(F + 'ECPoint', 'to_mpibytes', scn.method_hook(lambda ex, st, o, a: [(st, E.VBytes(PT))]))
        if clsname == 'ECDHPub':
            r2.set('mat', 'kdf', E.VObj(F + 'ECKDF', 'kdf'))
            r2.hook(F + 'ECKDF', '__bytearray__', scn.method_hook(lambda ex, st, o, a: [(st, ex.new_buf(st, KDFB))]))
        for pi, (s, v) in enumerate(r2.call(E.VObj(cls, 'mat'), [])):
            if isinstance(v, E.Raise):
                r2.oblige(s, 'safety(%s)/p%d' % (v.exc.split(':')[0], pi), z3.BoolVal(False), v.where)
                continue
            want = z3.Concat(z3.Extract(OIDDER, 1, z3.Length(OIDDER) - 1), PT) if clsname != 'ECDHPub' else z3.Concat(z3.Extract(OIDDER, 1, z3.Length(OIDDER) - 1), PT, KDFB)
            r2.oblige(s, 'DER-of-the-OID-without-its-tag-octet,the-point%s/p%d' % (',the-KDF-parameters' if clsname == 'ECDHPub' else '', pi), ex2.seq(v, s) == want)
        res2 = r2.result()
        return {'obligations': res['obligations'] + res2['obligations'], 'funcs': res['funcs'] + res2['funcs'], 'paths': 0}
    return Scenario(label, cls + '.parse', gen, props=('C08', 'C18', 'C14'))


def eckdf_codec():
    """ECKDF (RFC 6637 section 9): 03 01 hash cipher, in both directions"""
    label = 'C08/fields.ECKDF.parse+__bytearray__'
    cls = 'pgpy.packet.fields.ECKDF'

    def gen(repo):
        r = scn.Run(repo, cls, 'parse', label + '[parse]')
        ex, st = r.ex, r.st
        OLD = z3.Const('RECEIVED', B)
        HA = sorted(set(repo.enum_members('pgpy.constants.HashAlgorithm').values()))
        SA = sorted(set(repo.enum_members('pgpy.constants.SymmetricKeyAlgorithm').values()))
        st.pc += [z3.Length(OLD) >= 4, OLD[0] == 3, OLD[1] == 1, z3.Or(*[OLD[2] == x for x in HA]), z3.Or(*[OLD[3] == x for x in SA])]
        buf = ex.new_buf(st, OLD)
        for pi, (s, v) in enumerate(r.call(E.VObj(cls, 'kdf'), [buf])):
            if isinstance(v, E.Raise):
                r.oblige(s, 'safety(%s)/p%d' % (v.exc.split(':')[0], pi), z3.BoolVal(False), v.where)
                continue
            g = lambda f: s.heap.get(('kdf', f))
            r.oblige(s, 'hash-is-the-third,cipher-the-fourth-octet/p%d' % pi, z3.And(ex.as_int(g('_halg')) == OLD[2], ex.as_int(g('_encalg')) == OLD[3]))
            r.oblige(s, 'consumes-exactly-four-octets/p%d' % pi, s.heap[buf.cell] == z3.Extract(OLD, 4, z3.Length(OLD) - 4))
        res = r.result()
        r2 = scn.Run(repo, cls, '__bytearray__', label + '[bytes]')
        H, C = z3.Ints('hash cipher')
        r2.st.pc += [H >= 0, H < 256, C >= 0, C < 256]
        r2.set('kdf', '_halg', E.VInt(H, enum='pgpy.constants.HashAlgorithm'))
        r2.set('kdf', '_encalg', E.VInt(C, enum='pgpy.constants.SymmetricKeyAlgorithm'))
        for pi, (s, v) in enumerate(r2.call(E.VObj(cls, 'kdf'), [])):
            if isinstance(v, E.Raise):
                r2.oblige(s, 'safety(%s)/p%d' % (v.exc.split(':')[0], pi), z3.BoolVal(False), v.where)
                continue
            r2.oblige(s, '03-01-hash-cipher/p%d' % pi, r2.ex.seq(v, s) == cat(U(3), U(1), U(H), U(C)))
        res2 = r2.result()
        return {'obligations': res['obligations'] + res2['obligations'], 'funcs': res['funcs'] + res2['funcs'], 'paths': 0}
    return Scenario(label, cls + '.parse', gen, props=('C08', 'C03'))


_base_scn_ecpub = scenarios


def scenarios():
    return _base_scn_ecpub() + [ec_public_codec(c) for c in ('ECDSAPub', 'EdDSAPub', 'ECDHPub')] + [eckdf_codec()]


def pubkey_parse():
    """PubKeyV4.parse (RFC 4880 5.5.2): four-octet creation time, algorithm octet, then the algorithm's public material read from exactly
    the octets the header length leaves (a copy of them: nothing beyond the packet is visible to the material parser), all of them
    consumed; the material class is the public class of the algorithm (an opaque one for algorithms without a class)."""
    label = 'C08/PubKeyV4.parse'
    PK = P + 'PubKeyV4'
    F = 'pgpy.packet.fields.'
    MAT = {1: 'RSAPub', 2: 'RSAPub', 3: 'RSAPub', 17: 'DSAPub', 16: 'ElGPub', 20: 'ElGPub', 19: 'ECDSAPub', 18: 'ECDHPub', 22: 'EdDSAPub', 21: 'OpaquePubKey'}

    def gen(repo):
        obls, funcs = [], []
        for alg, mname in sorted(MAT.items()):
            r = scn.Run(repo, PK, 'parse', '%s[algorithm %d]' % (label, alg))
            ex, st = r.ex, r.st
            OLD, HL = z3.Const('RECEIVED', B), z3.Int('header_length')
            _hdr(r, HL)
            st.pc += [HL >= 6, z3.Length(OLD) >= HL - 1, OLD[4] == alg]
            for i in range(4):
                st.pc += [OLD[i] >= 0, OLD[i] < 256]
            buf = ex.new_buf(st, OLD)
            me = E.VObj(PK, 'pkt')
            ex.hooks[('ext', 'datetime.fromtimestamp')] = lambda ex, st, o, a: [(st, E.VExt('datetime', (a[0],)))]
            classes = set(MAT.values())
            for c in classes:
                r.hook(F + c, '__call__', (lambda c: lambda ex, st, cls, a: [(st, E.VObj(F + c, 'material'))])(c))

                def mparse(ex, st, o, a):
                    st.ghost['mat_parse'] = (o, a[0], ex.seq(a[0], st))
                    return [(st, E.VNone())]
                r.hook(F + c, 'parse', scn.method_hook(mparse))
            # the packet's own serialisation (contract: C18/PubKeyV4.__bytearray__) and the header's size: after reading, the length in the
            # header is what will be WRITTEN (material that was not in the written form - an integer padded with zero octets - is re-encoded)
            SER, HLEN = z3.Const('SERIALISED_AGAIN', B), z3.Int('octets_of_the_header')
            st.pc += [HLEN >= 2, HLEN <= 7, z3.Length(SER) >= HLEN]
            r.hook(PK, '__bytearray__', scn.method_hook(lambda ex, st, o, a: [(st, ex.new_buf(st, SER))]))
            for hc in ('pgpy.packet.types.Header', 'pgpy.packet.types.VersionedHeader'):
                r.hook(hc, '__len__', scn.mconst(E.VInt(HLEN)))

            def upd(ex, st, o, a):
                st.heap[('hdr', '_len')] = E.VInt(z3.Length(SER) - HLEN)
                st.ghost['hlen_updated'] = True
                return [(st, E.VNone())]
            for pc_ in (PK, 'pgpy.packet.types.Packet', 'pgpy.packet.types.VersionedPacket'):
                r.hook(pc_, 'update_hlen', scn.method_hook(upd))
            for pi, (s, v) in enumerate(r.call(me, [buf])):
                if isinstance(v, E.Raise):
                    r.oblige(s, 'safety(%s)/p%d' % (v.exc.split(':')[0], pi), z3.BoolVal(False), v.where)
                    continue
                r.oblige(s, 'afterwards-the-header-length-is-that-of-what-will-be-written/p%d' % pi, ex.as_int(s.heap[('hdr', '_len')]) == z3.Length(SER) - HLEN)
                cr = s.heap.get(('pkt', '_created'))
                okt = isinstance(cr, E.VExt) and cr.name == 'datetime' and len(cr.args) == 1
                r.oblige(s, 'creation-time-is-the-four-octet-number/p%d' % pi,
                         z3.And(z3.BoolVal(bool(okt)), ex.as_int(cr.args[0]) == OLD[0] * 2 ** 24 + OLD[1] * 2 ** 16 + OLD[2] * 256 + OLD[3] if okt else z3.BoolVal(False)))
                pa = s.heap.get(('pkt', '_pkalg'))
                r.oblige(s, 'algorithm-is-the-fifth-octet/p%d' % pi, ex.as_int(pa) == alg if isinstance(pa, (E.VInt, E.VBool)) else z3.BoolVal(False))
                mp = s.ghost.get('mat_parse')
                okm = mp is not None and isinstance(mp[0], E.VObj) and mp[0].cls == F + mname
                r.oblige(s, 'material-of-the-public-class-of-the-algorithm(%s)/p%d' % (mname, pi), z3.BoolVal(okm and s.heap.get(('pkt', 'keymaterial')) is mp[0]))
                r.oblige(s, 'read-from-exactly-the-octets-the-header-length-leaves(a-copy)/p%d' % pi,
                         z3.And(z3.BoolVal(okm and mp[1] is not buf), mp[2] == z3.Extract(OLD, 5, HL - 6) if okm else z3.BoolVal(False)))
                r.oblige(s, 'consumes-exactly-the-body/p%d' % pi, s.heap[buf.cell] == z3.Extract(OLD, HL - 1, z3.Length(OLD) - (HL - 1)))
            res = r.result()
            obls += res['obligations']
            funcs = res['funcs']
        return {'obligations': obls, 'funcs': funcs, 'paths': 0}
    return Scenario(label, PK + '.parse', gen, props=('C08', 'C18', 'C14'))


_base_scn_pkp = scenarios


def scenarios():
    return _base_scn_pkp() + [pubkey_parse()]
