"""C20: message composition (PGPMessage.__iter__/__bytearray__, one-pass packets)."""
import ast
import z3
from pyvc import scn, engine as E
from pyvc.runner import Scenario
from pyvc.scn import U, cat, be

B = E.BYTES
IS = z3.SeqSort(z3.IntSort())
MSG = 'pgpy.pgp.PGPMessage'
OPS = 'pgpy.packet.packets.OnePassSignatureV3'


def iter_signed_literal(with_mdc=False):
    label = 'C20/PGPMessage.__iter__[signed literal%s]' % (',mdc' if with_mdc else '')

    def gen(repo):
        r = scn.Run(repo, MSG, '__iter__', label)
        ex, st = r.ex, r.st
        S = z3.Const('SIGNATURES', IS)           # the signatures of the message, in storage order (object references)
        n = z3.Length(S)
        OPSITEM = z3.Function('OPS_PACKET', z3.IntSort(), z3.IntSort(), z3.IntSort())   # (signature ref, flag octet) -> packet
        SIGITEM = z3.Function('SIG_PACKET', z3.IntSort(), z3.IntSort())
        OPSREF = z3.Function('OPSREF', z3.IntSort(), z3.IntSort())
        LIT, MDCP = z3.Ints('LITERAL_PACKET MDC_PACKET')
        OPSSEQ = z3.Function('SPEC_ONEPASS_PREFIX', z3.IntSort(), IS)     # first i one-pass packets required by RFC 4880 5.4 / 11.3
        SIGSEQ = z3.Function('SPEC_SIGNATURE_PREFIX', z3.IntSort(), IS)
        msg = E.VObj(MSG, 'msg')
        r.set('msg', '_message', E.VObj('pgpy.packet.packets.LiteralData', 'lit'))
        r.set('msg', '_mdc', E.VObj('pgpy.packet.packets.MDC', 'mdc') if with_mdc else E.VNone())
        r.set('msg', '_signatures', E.VSeqObj(S, 'pgpy.pgp.PGPSignature'))
        r.set('msg', '_sessionkeys', ex.new_list(st, []))
        st.facts += [OPSSEQ(0) == z3.Empty(IS), SIGSEQ(0) == z3.Empty(IS)]

        # callee contract of PGPSignature.make_onepass (proved separately): a fresh one-pass packet for that signature, flag clear
        def make_onepass(ex, st, o, a):
            ref = z3.simplify(OPSREF(o.ref))
            ops = E.VObj(OPS, ref)
            st.heap[('sym:' + str(ref), 'nested')] = E.VBool(False)
            st.heap[('sym:' + str(ref), 'of')] = E.VInt(o.ref)
            return [(st, ops)]
        r.hook('pgpy.pgp.PGPSignature', 'make_onepass', scn.method_hook(make_onepass))

        def enc(ex, st, v):
            if not isinstance(v, E.VObj):
                raise E.ToolLimit('yield of a non-packet')
            if v.cls.endswith('OnePassSignatureV3'):
                key = 'sym:' + str(z3.simplify(v.ref))
                return OPSITEM(st.heap[(key, 'of')].z, z3.If(ex.truth(st.heap[(key, 'nested')], st), 1, 0))
            if v.cls.endswith('LiteralData'):
                return LIT
            if v.cls.endswith('.MDC'):
                return MDCP
            if v.cls.endswith('PGPSignature'):
                return SIGITEM(v.ref)
            raise E.ToolLimit('yield of ' + v.cls)
        ex.yield_encoder = enc
        fors = sorted([x for x in ast.walk(r.node) if isinstance(x, ast.For)], key=lambda x: x.lineno)
        if len(fors) < 2:
            raise E.ToolLimit('PGPMessage.__iter__ no longer has the loops the invariants are written for')
        l_ops, l_sig = fors[-2].lineno, fors[-1].lineno
        ex.invariants[('__iter__', l_ops)] = lambda ex, st, env, i, it, pre: st.ghost.get('yielded', z3.Empty(IS)) == z3.Concat(pre, OPSSEQ(i))
        ex.invariants[('__iter__', l_sig)] = lambda ex, st, env, i, it, pre: st.ghost.get('yielded', z3.Empty(IS)) == z3.Concat(pre, SIGSEQ(i))

        def unfold(ex, st, i, it):
            k = n - 1 - i
            # RFC 4880 5.4: one-pass packets in reverse order of the signatures; flag 1 only on the one directly before the data
            return [OPSSEQ(i + 1) == z3.Concat(OPSSEQ(i), z3.Unit(OPSITEM(S[k], z3.If(k == 0, 1, 0)))),
                    SIGSEQ(i + 1) == z3.Concat(SIGSEQ(i), z3.Unit(SIGITEM(S[i]))),
                    z3.Implies(S[k] == S[n - 1], k == n - 1), z3.Implies(S[k] == S[0], k == 0)]      # distinct objects
        ex.unfold = unfold
        r.hook(MSG, 'type', scn.const(E.VStr(s='literal')))
        outs = r.call(msg, [])
        for pi, (s, v) in enumerate(outs):
            if isinstance(v, E.Raise):
                r.oblige(s, 'safety(%s)/p%d' % (v.exc.split(':')[0], pi), z3.BoolVal(False), v.where)
                continue
            mid = z3.Concat(z3.Unit(LIT), z3.Unit(MDCP)) if with_mdc else z3.Unit(LIT)
            spec = z3.Concat(OPSSEQ(n), mid, SIGSEQ(n))
            r.oblige(s, 'rfc4880-11.3-signed-message/p%d' % pi, s.ghost.get('yielded', z3.Empty(IS)) == spec)
        return r.result()
    return Scenario(label, MSG + '.__iter__', gen, props=('C20',))


def make_onepass():
    label = 'C20/PGPSignature.make_onepass'

    def gen(repo):
        r = scn.Run(repo, 'pgpy.pgp.PGPSignature', 'make_onepass', label)
        ex, st = r.ex, r.st
        t, h, p = z3.Ints('sigtype halg pubalg')
        ST = sorted(set(repo.enum_members('pgpy.constants.SignatureType').values()))
        HA = sorted(set(repo.enum_members('pgpy.constants.HashAlgorithm').values()))
        PA = sorted(set(repo.enum_members('pgpy.constants.PubKeyAlgorithm').values()))
        st.pc += [z3.Or(*[t == x for x in ST]), z3.Or(*[h == x for x in HA]), z3.Or(*[p == x for x in PA])]
        SIGNER = z3.Const('SIGNER_KEYID_HEX', B)
        sig = E.VObj('pgpy.pgp.PGPSignature', 'sig')
        r.hook('pgpy.pgp.PGPSignature', 'type', scn.const(E.VInt(t, enum='pgpy.constants.SignatureType')))
        r.hook('pgpy.pgp.PGPSignature', 'hash_algorithm', scn.const(E.VInt(h, enum='pgpy.constants.HashAlgorithm')))
        r.hook('pgpy.pgp.PGPSignature', 'key_algorithm', scn.const(E.VInt(p, enum='pgpy.constants.PubKeyAlgorithm')))
        r.hook('pgpy.pgp.PGPSignature', 'signer', scn.const(E.VStr(z=SIGNER)))
        r.hook(OPS, 'update_hlen', scn.mconst(E.VNone()))
        # constructor contracts of the packet framework (headers) are outside this obligation
        r.hook('pgpy.packet.types.VersionedPacket', '__init__', scn.mconst(E.VNone()))
        r.hook('pgpy.packet.types.Packet', '__init__', scn.mconst(E.VNone()))
        r.hook('pgpy.packet.fields.RSASignature', '__call__', lambda ex, st, cls, a: [(st, E.VObj('pgpy.packet.fields.RSASignature', E.fresh('sigfield')))])
        r.hook('pgpy.packet.fields.DSASignature', '__call__', lambda ex, st, cls, a: [(st, E.VObj('pgpy.packet.fields.DSASignature', E.fresh('sigfield')))])
        for pi, (s, v) in enumerate(r.call(sig, [])):
            if isinstance(v, E.Raise):
                r.oblige(s, 'safety(%s)/p%d' % (v.exc.split(':')[0], pi), z3.BoolVal(False), v.where)
                continue
            ok = isinstance(v, E.VObj) and v.cls == OPS
            r.oblige(s, 'is-onepass-v3/p%d' % pi, z3.BoolVal(ok))
            if not ok:
                continue
            g = lambda f: s.heap.get((v.ref, f))
            r.oblige(s, 'names-signature-type-hash-pubalg/p%d' % pi,
                     z3.And(ex.as_int(g('_sigtype')) == t, ex.as_int(g('_halg')) == h, ex.as_int(g('_pubalg')) == p))
            sg = g('_signer')
            r.oblige(s, 'names-issuer/p%d' % pi, z3.And(z3.BoolVal(isinstance(sg, E.VStr) and sg.z is not None), sg.z == SIGNER if isinstance(sg, E.VStr) and sg.z is not None else z3.BoolVal(False)))
            r.oblige(s, 'flag-clear-by-default/p%d' % pi, z3.Not(ex.truth(g('nested'), s)))
            # no hidden state: PGPMessage.__iter__ marks the packet it got (`nested = True` on all but the last); a later call must
            # not hand that marked packet out again
            s.heap[(v.ref, 'nested')] = E.VBool(True)
            for qi, (s2, v2) in enumerate(ex.call_func(E.VFunc(r.node, None, cls=r.dcls, self_val=sig, mod=r.mod), [], {}, s, {'mod': r.mod})):
                if isinstance(v2, E.Raise):
                    r.oblige(s2, 'second-call:safety(%s)/p%d.%d' % (v2.exc.split(':')[0], pi, qi), z3.BoolVal(False), v2.where)
                    continue
                r.oblige(s2, 'second-call:a-packet-whose-flag-is-clear-whatever-was-done-to-the-first/p%d.%d' % (pi, qi),
                         z3.And(z3.BoolVal(isinstance(v2, E.VObj) and v2.cls == OPS), z3.Not(ex.truth(s2.heap.get((v2.ref, 'nested')), s2)) if isinstance(v2, E.VObj) else z3.BoolVal(False)))
        return r.result()
    return Scenario(label, 'pgpy.pgp.PGPSignature.make_onepass', gen, props=('C20',))


def onepass_bytes():
    label = 'C20/OnePassSignatureV3.__bytearray__'

    def gen(repo):
        r = scn.Run(repo, OPS, '__bytearray__', label)
        ex, st = r.ex, r.st
        t, h, p = z3.Ints('sigtype halg pubalg')
        st.pc += [t >= 0, t < 256, h >= 0, h < 256, p >= 0, p < 256]
        nested = z3.Bool('flag')
        HDR, SIGNER = z3.Const('HEADER_AND_VERSION', B), z3.Const('SIGNER_KEYID_HEX', B)
        me = E.VObj(OPS, 'ops')
        for f, v in (('_sigtype', E.VInt(t)), ('_halg', E.VInt(h)), ('_pubalg', E.VInt(p)), ('_signer', E.VStr(z=SIGNER)), ('nested', E.VBool(nested))):
            r.set('ops', f, v)
        r.hook('pgpy.packet.types.VersionedPacket', '__bytearray__', scn.method_hook(lambda ex, st, o, a: [(st, ex.new_buf(st, HDR))]))
        for pi, (s, v) in enumerate(r.call(me, [])):
            if isinstance(v, E.Raise):
                r.oblige(s, 'safety(%s)/p%d' % (v.exc.split(':')[0], pi), z3.BoolVal(False), v.where)
                continue
            UNHEX = z3.Function('UNHEXLIFY', B, B)
            spec = cat(HDR, U(t), U(h), U(p), UNHEX(SIGNER), U(z3.If(nested, 1, 0)))
            r.oblige(s, 'rfc4880-5.4-layout/p%d' % pi, ex.seq(v, s) == spec)
        return r.result()
    return Scenario(label, OPS + '.__bytearray__', gen, props=('C20', 'C08'))


def message_bytes(compressed):
    label = 'C20/PGPMessage.__bytearray__[%s]' % ('compressed' if compressed else 'uncompressed')

    def gen(repo):
        r = scn.Run(repo, MSG, '__bytearray__', label)
        ex, st = r.ex, r.st
        calg = z3.Int('compression')
        members = sorted(set(repo.enum_members('pgpy.constants.CompressionAlgorithm').values()))
        st.pc += [z3.Or(*[calg == m for m in members])]
        st.pc += [calg != 0] if compressed else [calg == 0]
        msg = E.VObj(MSG, 'msg')
        r.set('msg', '_compression', E.VInt(calg, enum='pgpy.constants.CompressionAlgorithm'))
        pk = [E.VObj('pgpy.packet.types.Packet', 'pkt%d' % i) for i in range(3)]
        PB = [z3.Const('PACKET%d_OCTETS' % i, B) for i in range(3)]
        r.hook(MSG, '__iter__', scn.method_hook(lambda ex, st, o, a: [(st, ex.new_list(st, pk))]))
        r.hook('pgpy.packet.types.Packet', '__bytearray__', scn.method_hook(lambda ex, st, o, a: [(st, ex.new_buf(st, PB[int(o.ref[3:])]))]))
        CD = 'pgpy.packet.packets.CompressedData'
        r.hook(CD, '__call__', lambda ex, st, cls, a: [(st, E.VObj(CD, 'comp'))])
        r.hook(CD, 'update_hlen', scn.mconst(E.VNone()))
        COMP = z3.Const('COMPRESSED_PACKET_OCTETS', B)

        def comp_bytes(ex, st, o, a):
            st.ghost['comp_state'] = (st.heap.get(('comp', '_calg')), st.heap.get(('comp', 'packets')))
            return [(st, ex.new_buf(st, COMP))]
        r.hook(CD, '__bytearray__', scn.method_hook(comp_bytes))
        for pi, (s, v) in enumerate(r.call(msg, [])):
            if isinstance(v, E.Raise):
                r.oblige(s, 'safety(%s)/p%d' % (v.exc.split(':')[0], pi), z3.BoolVal(False), v.where)
                continue
            if compressed:
                cs = s.ghost.get('comp_state')
                r.oblige(s, 'one-compressed-packet/p%d' % pi, z3.And(z3.BoolVal(cs is not None), ex.seq(v, s) == COMP))
                if cs is not None:
                    c, packets = cs
                    items = ex.items(packets, s) if isinstance(packets, (E.VList, E.VTuple)) else None
                    r.oblige(s, 'wraps-the-whole-sequence-in-order/p%d' % pi,
                             z3.BoolVal(items is not None and len(items) == 3 and all(x is y for x, y in zip(items, pk))))
                    r.oblige(s, 'with-the-message-compression-algorithm/p%d' % pi, ex.as_int(c) == calg if c is not None else z3.BoolVal(False))
            else:
                r.oblige(s, 'concatenation-of-all-packets-in-order/p%d' % pi, ex.seq(v, s) == cat(*PB))
        return r.result()
    return Scenario(label, MSG + '.__bytearray__', gen, props=('C20', 'C03'))


def scenarios():
    return [iter_signed_literal(False), iter_signed_literal(True), make_onepass(), onepass_bytes(), message_bytes(True), message_bytes(False)]


def message_or(what):
    """PGPMessage.__or__: how a message is composed from packets (import) and from signatures / session keys"""
    label = 'C20/PGPMessage.__or__[%s]' % what
    MSGC, SD = 'pgpy.pgp.PGPMessage', 'pgpy.types.SorteDeque'
    PK = 'pgpy.packet.packets.'

    def gen(repo):
        r = scn.Run(repo, MSGC, '__or__', label)
        ex, st = r.ex, r.st
        me = E.VObj(MSGC, 'msg')
        has_body = what.endswith('(second)')
        first = E.VObj(PK + 'LiteralData', 'first-literal')
        r.set('msg', '_message', first if has_body else E.VNone())
        r.set('msg', '_mdc', E.VNone())
        r.set('msg', '_compression', E.VInt(0, enum='pgpy.constants.CompressionAlgorithm'))
        r.set('msg', '_signatures', E.VObj(SD, 'sigs'))
        r.set('msg', '_sessionkeys', ex.new_list(st, []))

        def insort(ex, st, o, a):
            st.ghost['insorted'] = st.ghost.get('insorted', ()) + (a[0],)
            return [(st, E.VNone())]
        r.hook(SD, 'insort', scn.method_hook(insort))
        r.hook('pgpy.pgp.PGPSignature', '__call__', lambda ex, st, c, a: [(st, E.VObj('pgpy.pgp.PGPSignature', 'wrapped'))])

        def sig_or(ex, st, o, a):
            st.heap[(o.ref, '_signature')] = a[0]
            return [(st, o)]
        r.hook('pgpy.pgp.PGPSignature', '__or__', scn.method_hook(sig_or))
        kind = what.split(' (')[0]
        other = {'literal': E.VObj(PK + 'LiteralData', 'lit'), 'encrypted container': E.VObj(PK + 'IntegrityProtectedSKEDataV1', 'seipd'),
                 'signature packet': E.VObj(PK + 'SignatureV4', 'sigpkt'), 'signature': E.VObj('pgpy.pgp.PGPSignature', 'sig'),
                 'one-pass packet': E.VObj(PK + 'OnePassSignatureV3', 'ops'), 'session key packet': E.VObj(PK + 'PKESessionKeyV3', 'pkesk'),
                 'marker': E.VObj(PK + 'Marker', 'marker'), 'user id packet': E.VObj(PK + 'UserID', 'uidpkt')}[kind]
        for pi, (s, v) in enumerate(r.call(me, [other])):
            ins = s.ghost.get('insorted', ())
            body, sks = s.heap.get(('msg', '_message')), ex.items(s.heap.get(('msg', '_sessionkeys')), s)
            if kind == 'user id packet' or (kind in ('literal', 'encrypted container') and has_body):
                r.oblige(s, 'refused(NotImplementedError):%s;nothing-changes/p%d' % ('a second body' if has_body else 'not part of a message', pi),
                         z3.BoolVal(isinstance(v, E.Raise) and v.exc.split(':')[0] == 'NotImplementedError' and len(ins) == 0 and len(sks) == 0
                                    and (body is first if has_body else isinstance(body, E.VNone))))
                continue
            if isinstance(v, E.Raise):
                r.oblige(s, 'safety(%s)/p%d' % (v.exc.split(':')[0], pi), z3.BoolVal(False), v.where)
                continue
            r.oblige(s, 'returns-this-message/p%d' % pi, z3.BoolVal(isinstance(v, E.VObj) and v.ref == 'msg'))
            if kind in ('literal', 'encrypted container'):
                r.oblige(s, 'becomes-the-one-body-of-the-message/p%d' % pi, z3.BoolVal(body is other and len(ins) == 0 and len(sks) == 0))
            elif kind == 'signature packet':
                r.oblige(s, 'wrapped-and-inserted-among-the-signatures-in-order/p%d' % pi,
                         z3.BoolVal(len(ins) == 1 and isinstance(ins[0], E.VObj) and ins[0].ref == 'wrapped' and s.heap.get(('wrapped', '_signature')) is other))
            elif kind == 'signature':
                r.oblige(s, 'inserted-among-the-signatures-in-order/p%d' % pi, z3.BoolVal(len(ins) == 1 and ins[0] is other))
            elif kind in ('one-pass packet', 'marker'):
                r.oblige(s, 'ignored(one-pass-packets-are-regenerated-on-export)/p%d' % pi, z3.BoolVal(len(ins) == 0 and len(sks) == 0 and isinstance(body, E.VNone)))
            else:
                r.oblige(s, 'appended-to-the-session-key-packets/p%d' % pi, z3.BoolVal(len(sks) == 1 and sks[0] is other and len(ins) == 0))
        return r.result()
    return Scenario(label, MSGC + '.__or__', gen, props=('C20', 'C03', 'C04'))


_base_scn_mo = scenarios


def scenarios():
    return _base_scn_mo() + [message_or(w) for w in ('literal', 'literal (second)', 'encrypted container', 'encrypted container (second)', 'signature packet', 'signature', 'one-pass packet',
                                                       'session key packet', 'marker', 'user id packet')]


def message_new(kind):
    """PGPMessage.new (not from a file): literal metadata, format detection, compression; kind: 'bytes' | 'str' | 'sensitive' | 'cleartext'"""
    label = 'C20/PGPMessage.new[%s]' % kind
    MSGC, LIT = 'pgpy.pgp.PGPMessage', 'pgpy.packet.packets.LiteralData'

    def gen(repo):
        r = scn.Run(repo, MSGC, 'new', label)
        ex, st = r.ex, r.st
        r.hook(MSGC, '__call__', lambda ex, st, c, a: [(st, E.VObj(MSGC, 'msg'))])
        r.hook(LIT, '__call__', lambda ex, st, c, a: [(st, E.VObj(LIT, 'lit'))])
        NOW = E.VExt('datetime.now(utc)', ())
        ex.hooks[('ext', 'datetime.now')] = lambda ex, st, o, a: [(st, NOW)]
        ascii_ = z3.Bool('content_is_ascii')
        r.hook('pgpy.types.Armorable', 'is_ascii', scn.method_hook(lambda ex, st, o, a: [(st, E.VBool(ascii_))]))
        CONTENT = z3.Const('CONTENT', B)
        T2B = z3.Function('TEXT_TO_BYTES', B, B)

        def t2b(ex, st, o, a):
            x = a[0]
            st.ghost['t2b_arg'] = x
            return [(st, E.VBytes(T2B(ex.strseq(x) if isinstance(x, E.VStr) else ex.seq(x, st))))]
        r.hook(MSGC, 'text_to_bytes', scn.method_hook(t2b))

        def m_or(ex, st, o, a):
            st.ghost['added'] = st.ghost.get('added', ()) + (a[0],)
            return [(st, o)]
        r.hook(MSGC, '__or__', scn.method_hook(m_or))
        r.hook(LIT, 'update_hlen', scn.mconst(E.VNone()))
        ex.hooks[('ext', 'os.path.basename')] = lambda ex, st, o, a: [(st, a[0])]
        msgval = E.VStr(z=CONTENT) if kind in ('str', 'cleartext') else E.VBytes(CONTENT)
        kws = {}
        if kind == 'sensitive':
            kws['sensitive'] = E.VBool(True)
        if kind == 'cleartext':
            kws['cleartext'] = E.VBool(True)
        ZLIB = E.VInt(2, enum='pgpy.constants.CompressionAlgorithm')
        kws['compression'] = ZLIB
        DEC = z3.Function('DECODE[utf-8]', B, B)
        for pi, (s, v) in enumerate(r.call(E.VClass(MSGC), [msgval], kws)):
            if isinstance(v, E.Raise):
                # bytes that look like text are decoded as UTF-8 before they are stored as text: octets that are not UTF-8 are refused
                r.oblige(s, 'refused-only-as-UnicodeDecodeError-for-text-like-bytes-that-are-not-utf-8/p%d' % pi,
                         z3.And(z3.BoolVal(v.exc.split(':')[0] == 'UnicodeDecodeError' and kind in ('bytes', 'sensitive')), ascii_), v.where)
                continue
            added = s.ghost.get('added', ())
            if kind == 'cleartext':
                r.oblige(s, 'cleartext:the-text-itself-is-the-body,no-literal-packet/p%d' % pi, z3.BoolVal(len(added) == 1 and added[0] is msgval))
                continue
            r.oblige(s, 'one-literal-packet/p%d' % pi, z3.BoolVal(len(added) == 1 and isinstance(added[0], E.VObj) and added[0].ref == 'lit'))
            g = lambda f: s.heap.get(('lit', f))
            fmt = g('format')
            want_fmt = 'u' if kind == 'str' else None
            if kind == 'str':
                r.oblige(s, 'a-str-is-stored-as-format-u/p%d' % pi, z3.BoolVal(isinstance(fmt, E.VStr) and fmt.s == 'u'))
            else:
                r.oblige(s, 'bytes:format-t-if-they-look-like-text,else-b/p%d' % pi,
                         z3.If(ascii_, z3.BoolVal(isinstance(fmt, E.VStr) and fmt.s == 't'), z3.BoolVal(isinstance(fmt, E.VStr) and fmt.s == 'b')))
            arg = s.ghost.get('t2b_arg')
            if kind == 'str':
                r.oblige(s, 'contents-are-the-octets-of-the-text/p%d' % pi, ex.seq(g('_contents'), s) == T2B(CONTENT) if g('_contents') is not None else z3.BoolVal(False))
            else:
                r.oblige(s, 'contents:binary-as-given;text-like-bytes-via-their-utf-8-reading/p%d' % pi,
                         ex.seq(g('_contents'), s) == z3.If(ascii_, T2B(DEC(CONTENT)), T2B(CONTENT)) if g('_contents') is not None else z3.BoolVal(False))
            fn = g('filename') if g('filename') is not None else g('_filename')
            r.oblige(s, 'file-name:%s/p%d' % ('the-for-your-eyes-only-marker' if kind == 'sensitive' else 'empty', pi),
                     z3.BoolVal(isinstance(fn, E.VStr) and fn.s == ('_CONSOLE' if kind == 'sensitive' else '')))
            r.oblige(s, 'time-is-now/p%d' % pi, z3.BoolVal(g('_mtime') is NOW or g('mtime') is NOW))
            r.oblige(s, 'compression-as-requested/p%d' % pi, z3.BoolVal(s.heap.get(('msg', '_compression')) is ZLIB))
        return r.result()
    return Scenario(label, MSGC + '.new', gen, props=('C20', 'C11'))


_base_scn_mn = scenarios


def scenarios():
    return _base_scn_mn() + [message_new(k) for k in ('bytes', 'str', 'sensitive', 'cleartext')]


def cleartext_str(nsigs, read_first=False):
    """PGPMessage.__str__ for a cleartext message (RFC 4880 section 7): header line, one Hash header naming the digests of the signatures
    (none without signatures), an empty line, the dash-escaped text, then the armored signature block. The dash-escaping itself is a regular
    expression (bounded component of C11); here: where its result goes. `read_first`: the message object was filled by parse() from a
    cleartext block whose Hash header named ANOTHER digest than its present signatures use (it was countersigned since): what is written
    follows the signatures it has now (no hidden state)."""
    label = 'C11/PGPMessage.__str__[cleartext, %d signature%s%s]' % (nsigs, '' if nsigs == 1 else 's', ', read from a block first' if read_first else '')
    MSGC = 'pgpy.pgp.PGPMessage'

    def gen(repo):
        r = scn.Run(repo, MSGC, '__str__', label)
        ex, st = r.ex, r.st
        me = E.VObj(MSGC, 'msg')
        if read_first:
            d = E.VDict([(E.VStr(s='magic'), E.VStr(s='SIGNATURE')), (E.VStr(s='headers'), E.VNone()), (E.VStr(s='body'), ex.new_buf(st, z3.Empty(B))),
                         (E.VStr(s='cleartext'), E.VStr(z=z3.Const('CLEARTEXT_AS_ARMORED', B))), (E.VStr(s='crc'), E.VNone()),
                         (E.VStr(s='hashes'), ex.new_list(st, [E.VStr(z=z3.Const('HASH_NAMED_IN_THE_HEADER_THAT_WAS_READ', B))]))])
            r.hook('pgpy.types.Armorable', 'ascii_unarmor', scn.method_hook(lambda ex, st, o, a: [(st, d)]))
            r.hook(MSGC, '__or__', scn.method_hook(lambda ex, st, o, a: [(st, o)]))
            lkp = repo.lookup(MSGC, 'parse')
            outs = ex.call_func(E.VFunc(lkp[2], None, cls=lkp[1], self_val=me, mod=repo.classes[lkp[1]].module), [E.VBytes(z3.Const('INPUT', B))], {}, st, {'mod': repo.classes[lkp[1]].module})
            outs = [(s0, v0) for s0, v0 in outs if not isinstance(v0, E.Raise)]
            if len(outs) != 1:
                raise E.ToolLimit('parse of an empty cleartext block did not return on exactly one path')
            r.st = st = outs[0][0]
        r.hook(MSGC, 'type', scn.const(E.VStr(s='cleartext')))
        TEXT, ARMOR, HNAME = z3.Const('TEXT', B), z3.Const('ARMORED_SIGNATURES', B), z3.Const('HASH_NAME', B)
        r.set('msg', '_message', E.VBytes(z3.Const('TEXT_OCTETS', B)))
        r.hook(MSGC, 'bytes_to_text', scn.method_hook(lambda ex, st, o, a: [(st, E.VStr(z=TEXT))]))
        r.hook('pgpy.types.Armorable', '__str__', scn.method_hook(lambda ex, st, o, a: [(st, E.VStr(z=ARMOR))]))
        sigs = [E.VObj('pgpy.pgp.PGPSignature', 's%d' % i) for i in range(nsigs)]
        r.hook(MSGC, 'signatures', scn.const(ex.new_list(st, sigs)))
        r.hook('pgpy.pgp.PGPSignature', 'hash_algorithm', scn.const(E.VObj('abstract:HashAlg', 'h')))
        r.hook('abstract:HashAlg', 'name', scn.const(E.VStr(z=HNAME)))
        ESC = z3.Function('RE_SUBN_STR[^- -> - - | re.MULTILINE]', B, B)
        lit = lambda t: ex.strseq(E.VStr(s=t))
        for pi, (s, v) in enumerate(r.call(me, [])):
            if isinstance(v, E.Raise):
                r.oblige(s, 'safety(%s)/p%d' % (v.exc.split(':')[0], pi), z3.BoolVal(False), v.where)
                continue
            ok = isinstance(v, E.VStr) and v.z is not None
            r.oblige(s, 'is-text/p%d' % pi, z3.BoolVal(ok))
            if not ok:
                continue
            hhdr = z3.Concat(lit('Hash: '), HNAME, lit('\n')) if nsigs else z3.Empty(B)
            want = z3.Concat(lit('-----BEGIN PGP SIGNED MESSAGE-----\n'), hhdr, lit('\n'), ESC(TEXT), lit('\n'), ARMOR)
            r.oblige(s, 'rfc4880-7:header-line,hash-header,empty-line,dash-escaped-text,signature-block/p%d' % pi, v.z == want)
        return r.result()
    return Scenario(label, MSGC + '.__str__', gen, props=('C11', 'C02'))


_base_scn_ct = scenarios


def scenarios():
    return _base_scn_ct() + [cleartext_str(0), cleartext_str(1), cleartext_str(1, read_first=True)]


def message_parse(kind):
    """PGPMessage.parse: kind check, cleartext branch (un-escaped text, then every signature packet wrapped), packet branch (every packet in
    order). The packet reader is given by contract: it consumes at least one octet from the front of the buffer, in place."""
    label = 'C20/PGPMessage.parse[%s]' % kind
    MSGC = 'pgpy.pgp.PGPMessage'

    def gen(repo):
        r = scn.Run(repo, MSGC, 'parse', label)
        ex, st = r.ex, r.st
        me = E.VObj(MSGC, 'msg')
        MAGIC, BODY, CLEAR = z3.Const('BLOCK_LABEL', B), z3.Const('BODY', B), z3.Const('CLEARTEXT_AS_ARMORED', B)
        buf = ex.new_buf(st, BODY)
        lit = lambda t: ex.strseq(E.VStr(s=t))
        if kind == 'cleartext':
            magic = E.VStr(s='SIGNATURE')
        elif kind == 'binary':
            magic = E.VNone()
        elif kind == 'armored message':
            magic = E.VStr(s='MESSAGE')
        else:
            magic = E.VStr(z=MAGIC)
            st.pc += [MAGIC != lit('MESSAGE'), MAGIC != lit('SIGNATURE')]
        d = E.VDict([(E.VStr(s='magic'), magic), (E.VStr(s='headers'), E.VNone()), (E.VStr(s='body'), buf),
                     (E.VStr(s='cleartext'), E.VStr(z=CLEAR) if kind == 'cleartext' else E.VNone()), (E.VStr(s='crc'), E.VNone()),
                     (E.VStr(s='hashes'), ex.new_list(st, [E.VStr(z=z3.Const('HASH_NAMED_IN_THE_HEADER', B))]) if kind == 'cleartext' else E.VNone())])
        r.hook('pgpy.types.Armorable', 'ascii_unarmor', scn.method_hook(lambda ex, st, o, a: [(st, d)]))
        UNESC = z3.Function('RE_SUBN_STR[^-  ->  | re.MULTILINE]', B, B)
        SIGP = 'pgpy.packet.packets.SignatureV4'

        def packet(ex, st, c, a):
            # contract of the packet reader: takes k >= 1 octets from the front of the buffer it is given
            S = st.heap[a[0].cell]
            k = E.fresh('consumed')
            st.pc += [k >= 1, k <= z3.Length(S)]
            st.heap[a[0].cell] = z3.Extract(S, k, z3.Length(S) - k)
            p = E.VObj(SIGP if kind == 'cleartext' else 'pgpy.packet.packets.LiteralData', E.fresh('packet'))
            st.ghost['read'] = 'some' if st.ghost.get('read') == 'some' else st.ghost.get('read', 0) + 1
            st.ghost['last_read'] = p
            return [(st, p)]
        r.hook('pgpy.packet.types.Packet', '__call__', packet)
        r.hook('pgpy.pgp.PGPSignature', '__call__', lambda ex, st, c, a: [(st, E.VObj('pgpy.pgp.PGPSignature', E.fresh('wrapped')))])

        def sig_or(ex, st, o, a):
            st.heap[('wrap-of', str(o.ref))] = a[0]
            return [(st, o)]
        r.hook('pgpy.pgp.PGPSignature', '__or__', scn.method_hook(sig_or))

        def m_or(ex, st, o, a):
            if st.ghost.get('fed') != 'some':
                st.ghost['fed'] = st.ghost.get('fed', 0) + 1
                if st.ghost['fed'] == 1:
                    st.ghost['first_fed'] = a[0]
            st.ghost['last_fed'] = a[0]
            if st.ghost.get('last_read') is not None:
                st.ghost['last_fed_in_loop'] = a[0]
            return [(st, o)]
        r.hook(MSGC, '__or__', scn.method_hook(m_or))
        loops = ex.register_loops('parse', r.node)
        pre_fed = 1 if kind == 'cleartext' else 0

        def fed_what_was_read(st):
            lr, lf = st.ghost.get('last_read'), st.ghost.get('last_fed_in_loop')
            if lr is None and lf is None:
                return True
            if kind == 'cleartext':
                return isinstance(lf, E.VObj) and st.heap.get(('wrap-of', str(lf.ref))) is lr
            return lf is lr

        def inv(ex, st, env):
            cur = st.heap[buf.cell]
            n, L = z3.Length(cur), z3.Length(BODY)
            # the buffer is a suffix of the body, and the packet read in this iteration is the thing fed to the message in it
            return z3.And(n >= 0, n <= L, cur == z3.Extract(BODY, L - n, n), z3.BoolVal(fed_what_was_read(st)))

        def havoc(ex, st, env):
            st.heap[buf.cell] = E.fresh('buffer', B)
            st.ghost['last_read'] = None
            st.ghost['last_fed_in_loop'] = None
            st.ghost['fed'] = 'some'          # the count is not tracked through the loop; each iteration's own feeding is
            st.ghost['read'] = 'some'
        spec = {'name': 'one-packet-per-iteration', 'inv': inv, 'havoc': havoc, 'variant': lambda ex, st, env: z3.Length(st.heap[buf.cell])}
        for i in range(len(loops)):
            ex.loops[('parse', i)] = spec
        # per-iteration obligation: what was read is what is fed (checked inside the hooks through ghost counters of ONE iteration)
        for pi, (s, v) in enumerate(r.call(me, [E.VBytes(z3.Const('INPUT', B))])):
            if kind == 'other kind':
                r.oblige(s, 'a-block-of-another-kind-is-refused(ValueError)-before-anything-is-read/p%d' % pi,
                         z3.BoolVal(isinstance(v, E.Raise) and v.exc.split(':')[0] == 'ValueError' and not s.ghost.get('read') and not s.ghost.get('fed')))
                continue
            if isinstance(v, E.Raise):
                r.oblige(s, 'safety(%s)/p%d' % (v.exc.split(':')[0], pi), z3.BoolVal(False), v.where)
                continue
            r.oblige(s, 'the-whole-body-is-consumed/p%d' % pi, z3.Length(s.heap[buf.cell]) == 0)
            if kind == 'cleartext':
                ff = s.ghost.get('first_fed')
                r.oblige(s, 'first-the-un-escaped-cleartext-becomes-the-body/p%d' % pi,
                         z3.And(z3.BoolVal(isinstance(ff, E.VStr) and ff.z is not None), ff.z == UNESC(CLEAR) if isinstance(ff, E.VStr) and ff.z is not None else z3.BoolVal(False)))
        return r.result()
    return Scenario(label, MSGC + '.parse', gen, props=('C20', 'C11', 'C10'))


_base_scn_mp = scenarios


def scenarios():
    return _base_scn_mp() + [message_parse(k) for k in ('binary', 'armored message', 'cleartext', 'other kind')]
