"""C02 (and C11, C16, C18): the signing glue: PGPKey.sign type selection and issuer, PGPSignature.new, the tail of PGPKey._sign."""
import z3
from pyvc import scn, engine as E
from pyvc.runner import Scenario

B = E.BYTES
KEY = 'pgpy.pgp.PGPKey'
SIG = 'pgpy.pgp.PGPSignature'


def sign_entry(subject_kind):
    label = 'C02/PGPKey.sign[%s]' % subject_kind

    def gen(repo):
        ST = repo.enum_members('pgpy.constants.SignatureType')
        r = scn.Run(repo, KEY, 'sign', label)
        ex, st = r.ex, r.st
        me = E.VObj(KEY, 'component')
        KEYID = z3.Const('KEYID_OF_THE_COMPONENT_THAT_SIGNS', B)
        ALG = z3.Int('key_algorithm')
        r.hook(KEY, 'fingerprint', scn.const(E.VStr(z=z3.Const('FPR', B), cls='pgpy.types.Fingerprint')))
        r.hook('pgpy.types.Fingerprint', 'keyid', scn.const(E.VStr(z=KEYID)))
        r.hook(KEY, 'key_algorithm', scn.const(E.VInt(ALG, enum='pgpy.constants.PubKeyAlgorithm')))
        newsig = E.VObj(SIG, 'newsig')

        def new(ex, st, cls, a, kws=None):
            st.ghost['new_args'] = (a, kws)
            return [(st, newsig)]
        new.wants_kws = True
        # PGPSignature.new is a classmethod: hook it on the class
        def new_hook(ex, st, o, a):
            st.ghost['new_args'] = a
            return [(st, newsig)]
        r.hook(SIG, 'new', scn.method_hook(new_hook))

        def _sign(ex, st, o, a):
            st.ghost['_sign_args'] = (o, a)
            return [(st, a[1])]
        r.hook(KEY, '_sign', scn.method_hook(_sign))
        DOC = z3.Const('DOC', B)
        if subject_kind == 'bytes':
            subj = E.VBytes(DOC)
            want = 'BinaryDocument'
        elif subject_kind == 'none':
            subj = E.VNone()
            want = 'Timestamp'
        else:
            subj = E.VObj('pgpy.pgp.PGPMessage', 'msg')
            r.hook('pgpy.pgp.PGPMessage', 'type', scn.const(E.VStr(s='cleartext' if subject_kind == 'cleartext message' else 'literal')))
            r.hook('pgpy.pgp.PGPMessage', 'message', scn.const(E.VBytes(DOC)))
            want = 'CanonicalDocument' if subject_kind == 'cleartext message' else 'BinaryDocument'
        for pi, (s, v) in enumerate(r.call(me, [subj])):
            if isinstance(v, E.Raise):
                r.oblige(s, 'safety(%s)/p%d' % (v.exc.split(':')[0], pi), z3.BoolVal(False), v.where)
                continue
            na = s.ghost.get('new_args')
            sa = s.ghost.get('_sign_args')
            r.oblige(s, 'creates-one-signature-and-signs-it/p%d' % pi, z3.BoolVal(na is not None and sa is not None and v is newsig))
            if na is None or sa is None:
                continue
            r.oblige(s, 'signature-type-%s/p%d' % (want, pi), ex.as_int(na[0]) == ST[want])
            r.oblige(s, 'public-key-algorithm-of-the-signing-component/p%d' % pi, ex.as_int(na[1]) == ALG)
            r.oblige(s, 'issuer-is-the-key-id-of-the-signing-component/p%d' % pi,
                     z3.And(z3.BoolVal(isinstance(na[3], E.VStr) and na[3].z is not None), na[3].z == KEYID if isinstance(na[3], E.VStr) and na[3].z is not None else z3.BoolVal(False)))
            o, a = sa
            r.oblige(s, 'signed-by-the-same-component/p%d' % pi, z3.BoolVal(o is me and a[1] is newsig))
            if subject_kind in ('bytes', 'none'):
                r.oblige(s, 'subject-passed-unchanged/p%d' % pi, z3.BoolVal(a[0] is subj))
            else:
                r.oblige(s, 'message-content-is-what-is-signed/p%d' % pi, z3.And(z3.BoolVal(isinstance(a[0], (E.VBytes, E.VBuf))), ex.seq(a[0], s) == DOC if isinstance(a[0], (E.VBytes, E.VBuf)) else z3.BoolVal(False)))
        return r.result()
    return Scenario(label, KEY + '.sign', gen, props=('C02', 'C11', 'C16', 'C18'))


def sign_tail():
    """PGPKey._sign with default options: issuer fingerprint, what is hashed/signed, left 16 bits, signature installed"""
    label = 'C02/PGPKey._sign[default options]'

    def gen(repo):
        r = scn.Run(repo, KEY, '_sign', label)
        ex, st = r.ex, r.st
        me = E.VObj(KEY, 'component')
        FPR = E.VStr(z=z3.Const('FINGERPRINT_OF_THE_COMPONENT_THAT_SIGNS', B), cls='pgpy.types.Fingerprint')
        r.hook(KEY, 'fingerprint', scn.const(FPR))
        uid = E.VObj('pgpy.pgp.PGPUID', 'uid')
        r.hook(KEY, 'userids', scn.const(r.ex.new_list(st, [uid])))
        SHA256 = E.VInt(8, enum='pgpy.constants.HashAlgorithm')
        r.hook('pgpy.pgp.PGPUID', 'selfsig', scn.const(E.VObj(SIG, 'selfsig')))
        r.hook(SIG, 'hashprefs', scn.const(r.ex.new_list(st, [SHA256])))
        sig = E.VObj(SIG, 'sig')
        r.hook(SIG, 'hash_algorithm', lambda ex, st, o, a: [(st, SHA256)])
        r.hook(SIG, 'type', scn.const(E.VInt(0, enum='pgpy.constants.SignatureType')))
        r.set('sig', '_signature', E.VObj('pgpy.packet.packets.SignatureV4', 'spkt'))
        r.set('spkt', 'subpackets', E.VObj('pgpy.packet.fields.SubPackets', 'subp'))
        r.set('spkt', '_signature', E.VObj('pgpy.packet.fields.EdDSASignature', 'sigfield'))
        r.set('component', '_key', E.VObj('pgpy.packet.packets.PrivKeyV4', 'keypkt'))
        events = []

        def addnew(ex, st, o, a, *kw):
            st.ghost['events'] = st.ghost.get('events', ()) + (('addnew', a),)
            return [(st, E.VNone())]
        # addnew takes keyword arguments: capture them through a kws-aware hook
        def addnew_kw(ex, st, o, a, kws):
            st.ghost['events'] = st.ghost.get('events', ()) + (('addnew', (a, kws)),)
            return [(st, E.VNone())]
        addnew_kw.wants_kws = True
        r.hook('pgpy.packet.fields.SubPackets', 'addnew', scn.method_hook(addnew_kw))
        HD = z3.Const('HASHDATA_OF_THE_SUBJECT', B)
        subject = E.VBytes(z3.Const('SUBJECT', B))

        def hashdata(ex, st, o, a):
            st.ghost['events'] = st.ghost.get('events', ()) + (('hashdata', a),)
            return [(st, E.VBytes(HD))]
        r.hook(SIG, 'hashdata', scn.method_hook(hashdata))
        SIGOUT = E.VExt('signer-output', ())

        def keysign(ex, st, o, a):
            st.ghost['events'] = st.ghost.get('events', ()) + (('sign', a),)
            return [(st, SIGOUT)]
        r.hook('pgpy.packet.packets.PrivKeyV4', 'sign', scn.method_hook(keysign))

        def from_signer(ex, st, o, a):
            st.ghost['events'] = st.ghost.get('events', ()) + (('from_signer', a),)
            return [(st, E.VNone())]
        r.hook('pgpy.packet.fields.EdDSASignature', 'from_signer', scn.method_hook(from_signer))

        def upd(ex, st, o, a):
            st.ghost['events'] = st.ghost.get('events', ()) + (('update_hlen', a),)
            return [(st, E.VNone())]
        r.hook('pgpy.packet.packets.SignatureV4', 'update_hlen', scn.method_hook(upd))
        r.hook(SIG, '_signature', None) if False else None
        for pi, (s, v) in enumerate(r.call(me, [subject, sig])):
            if isinstance(v, E.Raise):
                r.oblige(s, 'safety(%s)/p%d' % (v.exc.split(':')[0], pi), z3.BoolVal(False), v.where)
                continue
            ev = list(s.ghost.get('events', ()))
            kinds = [e[0] for e in ev]
            r.oblige(s, 'order:subpackets-then-hash-then-sign-then-install/p%d' % pi,
                     z3.BoolVal(kinds.count('hashdata') == 1 and kinds.count('sign') == 1 and kinds.count('from_signer') == 1
                                and all(kinds.index(k) < kinds.index('hashdata') for k in kinds if k == 'addnew')
                                and kinds.index('hashdata') < kinds.index('sign') < kinds.index('from_signer') < len(kinds) - 1 - kinds[::-1].index('update_hlen')
                                if 'update_hlen' in kinds and 'hashdata' in kinds and 'sign' in kinds and 'from_signer' in kinds else False))
            if not ('hashdata' in kinds and 'sign' in kinds and 'from_signer' in kinds):
                continue
            hd = ev[kinds.index('hashdata')][1]
            sg = ev[kinds.index('sign')][1]
            fs = ev[kinds.index('from_signer')][1]
            r.oblige(s, 'hashes-the-given-subject/p%d' % pi, z3.BoolVal(hd[0] is subject))
            r.oblige(s, 'signs-exactly-the-hash-data/p%d' % pi, ex.seq(sg[0], s) == HD)
            r.oblige(s, 'installs-the-signer-output/p%d' % pi, z3.BoolVal(fs[0] is SIGOUT))
            h2 = s.heap.get(('spkt', 'hash2'))
            hashed = s.ghost.get('hashed', [])
            okh = len(hashed) == 1 and hashed[0][0] == 'SHA256'.lower() or (len(hashed) == 1 and str(hashed[0][0]).lower() == 'sha256')
            r.oblige(s, 'left-16-bits:one-digest-with-the-signature-hash-algorithm/p%d' % pi, z3.BoolVal(bool(okh)))
            if okh and h2 is not None:
                r.oblige(s, 'left-16-bits-of-the-digest-of-the-hash-data/p%d' % pi,
                         z3.And(hashed[0][1] == HD, ex.seq(h2, s) == z3.Extract(hashed[0][2], 0, 2)))
            r.oblige(s, 'returns-the-signature/p%d' % pi, z3.BoolVal(v is sig))
            adds = [e[1] for e in ev if e[0] == 'addnew']
            fp = [(a, k) for a, k in adds if isinstance(a[0], E.VStr) and a[0].s == 'IssuerFingerprint']
            r.oblige(s, 'issuer-fingerprint-subpacket-hashed-with-the-fingerprint-of-the-signing-component/p%d' % pi,
                     z3.BoolVal(len(fp) == 1 and isinstance(fp[0][1].get('hashed'), E.VBool) and z3.is_true(fp[0][1]['hashed'].z)
                                and fp[0][1].get('_issuer_fpr') is FPR))
        return r.result()
    return Scenario(label, KEY + '._sign', gen, props=('C02', 'C18'))


def scenarios():
    return [sign_entry(k) for k in ('bytes', 'none', 'cleartext message', 'literal message')] + [sign_tail()]


def sign_options():
    """PGPKey._sign with every option that applies at any level: each maps to its subpacket, in the hashed area"""
    label = 'C02/PGPKey._sign[options]'

    def gen(repo):
        r = scn.Run(repo, KEY, '_sign', label)
        ex, st = r.ex, r.st
        me = E.VObj(KEY, 'component')
        FPR = E.VStr(z=z3.Const('FPR', B), cls='pgpy.types.Fingerprint')
        r.hook(KEY, 'fingerprint', scn.const(FPR))
        uid = E.VObj('pgpy.pgp.PGPUID', 'uid')
        r.hook(KEY, 'get_uid', scn.mconst(uid))
        SHA256 = E.VInt(8, enum='pgpy.constants.HashAlgorithm')
        r.hook('pgpy.pgp.PGPUID', 'selfsig', scn.const(E.VObj(SIG, 'selfsig')))
        r.hook(SIG, 'hashprefs', scn.const(ex.new_list(st, [SHA256])))
        sig = E.VObj(SIG, 'sig')
        r.hook(SIG, 'hash_algorithm', lambda ex, st, o, a: [(st, SHA256)])
        r.hook(SIG, 'type', scn.const(E.VInt(0, enum='pgpy.constants.SignatureType')))
        r.set('sig', '_signature', E.VObj('pgpy.packet.packets.SignatureV4', 'spkt'))
        r.set('spkt', 'subpackets', E.VObj('pgpy.packet.fields.SubPackets', 'subp'))
        r.set('spkt', '_signature', E.VObj('pgpy.packet.fields.EdDSASignature', 'sigfield'))
        r.set('component', '_key', E.VObj('pgpy.packet.packets.PrivKeyV4', 'keypkt'))

        def addnew_kw(ex, st, o, a, kws):
            st.ghost['adds'] = st.ghost.get('adds', ()) + ((a, kws, st.ghost.get('hashed_already', False)),)
            return [(st, E.VNone())]
        addnew_kw.wants_kws = True
        r.hook('pgpy.packet.fields.SubPackets', 'addnew', scn.method_hook(addnew_kw))

        def hashdata(ex, st, o, a):
            st.ghost['hashed_already'] = True
            return [(st, E.VBytes(z3.Const('HD', B)))]
        r.hook(SIG, 'hashdata', scn.method_hook(hashdata))
        r.hook('pgpy.packet.packets.PrivKeyV4', 'sign', scn.mconst(E.VExt('signer-output', ())))
        r.hook('pgpy.packet.fields.EdDSASignature', 'from_signer', scn.mconst(E.VNone()))
        r.hook('pgpy.packet.packets.SignatureV4', 'update_hlen', scn.mconst(E.VNone()))
        r.hook('pgpy.pgp.PGPUID', '__format__', scn.mconst(E.VStr(z=z3.Const('UID_TEXT', B))))
        EXP = E.VExt('timedelta', ())
        NAME, VAL, URI = E.VStr(z=z3.Const('NOTATION_NAME', B)), E.VStr(z=z3.Const('NOTATION_VALUE', B)), E.VStr(z=z3.Const('POLICY_URI', B))
        kws = {'expires': EXP, 'notation': E.VDict([(NAME, VAL)]), 'revocable': E.VBool(False), 'policy_uri': URI, 'user': E.VStr(z=z3.Const('USER', B))}
        for pi, (s, v) in enumerate(r.call(me, [E.VBytes(z3.Const('SUBJECT', B)), sig], kws)):
            if isinstance(v, E.Raise):
                r.oblige(s, 'safety(%s)/p%d' % (v.exc, pi), z3.BoolVal(False), v.where)
                continue
            adds = s.ghost.get('adds', ())
            byname = {}
            for a, k, late in adds:
                if isinstance(a[0], E.VStr) and isinstance(a[0].s, str):
                    byname.setdefault(a[0].s, []).append((k, late))

            def one(name, pred):
                xs = byname.get(name, [])
                return len(xs) == 1 and not xs[0][1] and isinstance(xs[0][0].get('hashed'), E.VBool) and z3.is_true(xs[0][0]['hashed'].z) and pred(xs[0][0])
            r.oblige(s, 'expires->SignatureExpirationTime(hashed)/p%d' % pi, z3.BoolVal(one('SignatureExpirationTime', lambda k: k.get('expires') is EXP)))
            r.oblige(s, 'revocable=False->Revocable(hashed,false)/p%d' % pi,
                     z3.BoolVal(one('Revocable', lambda k: isinstance(k.get('bflag'), E.VBool) and z3.is_false(z3.simplify(k['bflag'].z)))))
            r.oblige(s, 'notation->NotationData(hashed,human-readable,name,value)/p%d' % pi,
                     z3.BoolVal(one('NotationData', lambda k: k.get('name') is NAME and k.get('value') is VAL and isinstance(k.get('flags'), E.VInt) and k['flags'].conc() == 0x80)))
            r.oblige(s, 'policy_uri->Policy(hashed)/p%d' % pi, z3.BoolVal(one('Policy', lambda k: k.get('uri') is URI)))
            r.oblige(s, 'user->SignersUserID(hashed)/p%d' % pi, z3.BoolVal(one('SignersUserID', lambda k: isinstance(k.get('userid'), E.VStr))))
            r.oblige(s, 'every-subpacket-added-before-hashing/p%d' % pi, z3.BoolVal(all(not late for _, _, late in adds)))
        return r.result()
    return Scenario(label, KEY + '._sign', gen, props=('C02',))


_base = scenarios


def scenarios():
    return _base() + [sign_options()]


def certify(kind):
    """kind: 'self-uid' (own user id, all self-certification options), 'other-uid' (third party: trust, regex), 'key' (direct-key)"""
    label = 'C02/PGPKey.certify[%s]' % kind

    def gen(repo):
        ST = repo.enum_members('pgpy.constants.SignatureType')
        r = scn.Run(repo, KEY, 'certify', label)
        ex, st = r.ex, r.st
        me = E.VObj(KEY, 'component')
        other = E.VObj(KEY, 'otherkey')
        MYFP, OTHERFP = z3.Const('MY_FPR', B), z3.Const('OTHER_FPR', B)
        st.pc.append(MYFP != OTHERFP)
        KEYID = z3.Const('MY_KEYID', B)
        r.hook(KEY, 'fingerprint', lambda ex, st, o, a: [(st, E.VStr(z=MYFP if o.ref == 'component' else OTHERFP, cls='pgpy.types.Fingerprint'))])
        r.hook('pgpy.types.Fingerprint', 'keyid', scn.const(E.VStr(z=KEYID)))
        r.hook('pgpy.types.Fingerprint', '__eq__', scn.method_hook(lambda ex, st, o, a: [(st, E.VBool(o.z == a[0].z))]))
        ALG = z3.Int('key_algorithm')
        r.hook(KEY, 'key_algorithm', scn.const(E.VInt(ALG, enum='pgpy.constants.PubKeyAlgorithm')))
        newsig = E.VObj(SIG, 'newsig')
        r.set('newsig', '_signature', E.VObj('pgpy.packet.packets.SignatureV4', 'spkt'))
        r.set('spkt', 'subpackets', E.VObj('pgpy.packet.fields.SubPackets', 'subp'))
        LEVEL = z3.Int('level')
        certs = [ST[n] for n in ('Generic_Cert', 'Persona_Cert', 'Casual_Cert', 'Positive_Cert')]
        st.pc.append(z3.Or(*[LEVEL == c for c in certs]))

        def new_hook(ex, st, o, a):
            st.ghost['new_args'] = a
            st.heap[('spkt', '_sigtype')] = E.VInt(ex.as_int(a[0]), enum='pgpy.constants.SignatureType')
            st.heap[('spkt', '_halg')] = a[2]
            return [(st, newsig)]
        r.hook(SIG, 'new', scn.method_hook(new_hook))
        r.hook(SIG, 'hash_algorithm', lambda ex, st, o, a: [(st, st.heap.get(('spkt', '_halg'), E.VNone()))])

        def addnew_kw(ex, st, o, a, kws):
            st.ghost['adds'] = st.ghost.get('adds', ()) + ((a, kws),)
            return [(st, E.VNone())]
        addnew_kw.wants_kws = True
        r.hook('pgpy.packet.fields.SubPackets', 'addnew', scn.method_hook(addnew_kw))

        def _sign(ex, st, o, a, kws):
            st.ghost['_sign'] = (o, a, kws)
            return [(st, a[1])]
        _sign.wants_kws = True
        r.hook(KEY, '_sign', scn.method_hook(_sign))
        uid = E.VObj('pgpy.pgp.PGPUID', 'uid')
        r.hook('pgpy.types.ParentRef', '_parent', lambda ex, st, o, a: [(st, me if kind == 'self-uid' else other)])
        OPT = {n: E.VExt('opt:' + n, ()) for n in ('usage', 'exportable', 'key_expiration', 'ciphers', 'compression', 'keyserver_flags', 'keyserver', 'primary', 'regex')}
        OPT['hashes'] = ex.new_list(st, [E.VInt(10, enum='pgpy.constants.HashAlgorithm')])
        OPT['trust'] = E.VTuple([E.VInt(1), E.VInt(60)])
        subject = other if kind == 'key' else uid
        kws = dict(OPT)
        kws['level'] = E.VInt(LEVEL, enum='pgpy.constants.SignatureType')
        kws['notation'] = E.VExt('passes-through', ())
        want = {'self-uid': ['KeyFlags', 'ExportableCertification', 'KeyExpirationTime', 'PreferredSymmetricAlgorithms', 'PreferredHashAlgorithms',
                             'PreferredCompressionAlgorithms', 'KeyServerPreferences', 'PreferredKeyServer', 'PrimaryUserID', 'Features'],
                'other-uid': ['KeyFlags', 'ExportableCertification', 'TrustSignature', 'RegularExpression'],
                'key': ['KeyFlags', 'ExportableCertification', 'TrustSignature', 'RegularExpression']}[kind]
        argname = {'KeyFlags': ('flags', 'usage'), 'ExportableCertification': ('bflag', 'exportable'), 'KeyExpirationTime': ('expires', 'key_expiration'),
                   'PreferredSymmetricAlgorithms': ('flags', 'ciphers'), 'PreferredHashAlgorithms': ('flags', 'hashes'),
                   'PreferredCompressionAlgorithms': ('flags', 'compression'), 'KeyServerPreferences': ('flags', 'keyserver_flags'),
                   'PreferredKeyServer': ('uri', 'keyserver'), 'PrimaryUserID': ('primary', 'primary'), 'RegularExpression': ('regex', 'regex')}
        for pi, (s, v) in enumerate(r.call(me, [subject], kws)):
            if isinstance(v, E.Raise):
                r.oblige(s, 'safety(%s)/p%d' % (v.exc, pi), z3.BoolVal(False), v.where)
                continue
            na, sg = s.ghost.get('new_args'), s.ghost.get('_sign')
            r.oblige(s, 'creates-and-signs-one-signature/p%d' % pi, z3.BoolVal(na is not None and sg is not None and v is newsig))
            if na is None or sg is None:
                continue
            if kind == 'key':
                r.oblige(s, 'certification-of-a-key-is-a-direct-key-signature/p%d' % pi, ex.as_int(na[0]) == ST['DirectlyOnKey'])
            else:
                r.oblige(s, 'certification-level-is-the-signature-type/p%d' % pi, ex.as_int(na[0]) == LEVEL)
            r.oblige(s, 'algorithm-and-issuer-of-the-certifying-component/p%d' % pi,
                     z3.And(ex.as_int(na[1]) == ALG, z3.BoolVal(isinstance(na[3], E.VStr) and na[3].z is not None), na[3].z == KEYID if isinstance(na[3], E.VStr) and na[3].z is not None else z3.BoolVal(False)))
            adds = s.ghost.get('adds', ())
            names = [a[0].s for a, k in adds]
            r.oblige(s, 'exactly-the-subpackets-of-this-kind-of-certification(%s)/p%d' % (','.join(names), pi), z3.BoolVal(sorted(names) == sorted(want)))
            for a, k in adds:
                nm = a[0].s
                hashed = isinstance(k.get('hashed'), E.VBool) and z3.is_true(k['hashed'].z)
                good = hashed
                if nm in argname:
                    good = good and k.get(argname[nm][0]) is OPT[argname[nm][1]]
                if nm == 'TrustSignature':
                    good = good and isinstance(k.get('level'), E.VInt) and k['level'].conc() == 1 and isinstance(k.get('amount'), E.VInt) and k['amount'].conc() == 60
                r.oblige(s, 'option->%s(hashed,value-unchanged)/p%d' % (nm, pi), z3.BoolVal(bool(good)))
            o, a, k2 = sg
            r.oblige(s, 'signed-by-the-same-component-over-the-given-subject/p%d' % pi, z3.BoolVal(o is me and a[0] is subject and a[1] is newsig))
            r.oblige(s, 'remaining-options-reach-_sign/p%d' % pi, z3.BoolVal('notation' in k2 and not any(x in k2 for x in ('usage', 'exportable', 'hash', 'created'))))
        return r.result()
    return Scenario(label, KEY + '.certify', gen, props=('C02', 'C16'))


_base2 = scenarios


def scenarios():
    return _base2() + [certify('self-uid'), certify('other-uid'), certify('key')]


def revoke(kind):
    label = 'C02/PGPKey.revoke[%s]' % kind

    def gen(repo):
        ST = repo.enum_members('pgpy.constants.SignatureType')
        r = scn.Run(repo, KEY, 'revoke', label)
        ex, st = r.ex, r.st
        me = E.VObj(KEY, 'component')
        KEYID = z3.Const('MY_KEYID', B)
        r.hook(KEY, 'fingerprint', scn.const(E.VStr(z=z3.Const('FPR', B), cls='pgpy.types.Fingerprint')))
        r.hook('pgpy.types.Fingerprint', 'keyid', scn.const(E.VStr(z=KEYID)))
        ALG = z3.Int('key_algorithm')
        r.hook(KEY, 'key_algorithm', scn.const(E.VInt(ALG, enum='pgpy.constants.PubKeyAlgorithm')))
        newsig = E.VObj(SIG, 'newsig')
        r.set('newsig', '_signature', E.VObj('pgpy.packet.packets.SignatureV4', 'spkt'))
        r.set('spkt', 'subpackets', E.VObj('pgpy.packet.fields.SubPackets', 'subp'))

        def new_hook(ex, st, o, a):
            st.ghost['new_args'] = a
            return [(st, newsig)]
        r.hook(SIG, 'new', scn.method_hook(new_hook))

        def addnew_kw(ex, st, o, a, kws):
            st.ghost['adds'] = st.ghost.get('adds', ()) + ((a, kws),)
            return [(st, E.VNone())]
        addnew_kw.wants_kws = True
        r.hook('pgpy.packet.fields.SubPackets', 'addnew', scn.method_hook(addnew_kw))

        def _sign(ex, st, o, a, kws):
            st.ghost['_sign'] = (o, a, kws)
            return [(st, a[1])]
        _sign.wants_kws = True
        r.hook(KEY, '_sign', scn.method_hook(_sign))
        target = {'uid': E.VObj('pgpy.pgp.PGPUID', 'uid'), 'key': E.VObj(KEY, 'tkey'), 'subkey': E.VObj(KEY, 'tkey')}[kind]
        r.hook(KEY, 'is_primary', lambda ex, st, o, a: [(st, E.VBool(kind == 'key'))])
        REASON, COMMENT = E.VExt('reason', ()), E.VStr(z=z3.Const('COMMENT', B))
        want = {'uid': 'CertRevocation', 'key': 'KeyRevocation', 'subkey': 'SubkeyRevocation'}[kind]
        for pi, (s, v) in enumerate(r.call(me, [target], {'reason': REASON, 'comment': COMMENT})):
            if isinstance(v, E.Raise):
                r.oblige(s, 'safety(%s)/p%d' % (v.exc, pi), z3.BoolVal(False), v.where)
                continue
            na, sg, adds = s.ghost.get('new_args'), s.ghost.get('_sign'), s.ghost.get('adds', ())
            r.oblige(s, 'creates-and-signs-one-signature/p%d' % pi, z3.BoolVal(na is not None and sg is not None and v is newsig))
            if na is None or sg is None:
                continue
            r.oblige(s, 'signature-type-%s/p%d' % (want, pi), ex.as_int(na[0]) == ST[want])
            r.oblige(s, 'issuer-and-algorithm-of-the-revoking-component/p%d' % pi, z3.And(ex.as_int(na[1]) == ALG, na[3].z == KEYID if isinstance(na[3], E.VStr) and na[3].z is not None else z3.BoolVal(False)))
            ok = len(adds) == 1 and adds[0][0][0].s == 'ReasonForRevocation' and z3.is_true(adds[0][1]['hashed'].z) and adds[0][1].get('code') is REASON and adds[0][1].get('string') is COMMENT
            r.oblige(s, 'reason-for-revocation(hashed,code,comment)/p%d' % pi, z3.BoolVal(bool(ok)))
            r.oblige(s, 'signed-over-the-revoked-component/p%d' % pi, z3.BoolVal(sg[0] is me and sg[1][0] is target and sg[1][1] is newsig))
        return r.result()
    return Scenario(label, KEY + '.revoke', gen, props=('C02', 'C15'))


def bind(kind):
    """kind: 'subkey-binding[signing subkey]' (cross-signature embedded), 'subkey-binding[encryption subkey]', 'primary-key-binding'"""
    label = 'C02/PGPKey.bind[%s]' % kind

    def gen(repo):
        ST = repo.enum_members('pgpy.constants.SignatureType')
        KF = repo.enum_members('pgpy.constants.KeyFlags')
        r = scn.Run(repo, KEY, 'bind', label)
        ex, st = r.ex, r.st
        me, other = E.VObj(KEY, 'me'), E.VObj(KEY, 'other')
        KEYID = z3.Const('MY_KEYID', B)
        r.hook(KEY, 'fingerprint', scn.const(E.VStr(z=z3.Const('FPR', B), cls='pgpy.types.Fingerprint')))
        r.hook('pgpy.types.Fingerprint', 'keyid', scn.const(E.VStr(z=KEYID)))
        r.hook(KEY, 'key_algorithm', lambda ex, st, o, a: [(st, E.VExt('alg-of-' + o.ref, ()))])
        i_am_primary = kind != 'primary-key-binding'
        refusing = kind.endswith('[signing-capable subkey that refuses to cross-sign]')
        r.hook(KEY, 'is_primary', lambda ex, st, o, a: [(st, E.VBool(i_am_primary if o.ref == 'me' else not i_am_primary))])
        r.hook(KEY, 'is_public', scn.const(E.VBool(False)))
        can_sign = kind == 'subkey-binding[signing subkey]' or kind.endswith('[signing-capable subkey that refuses to cross-sign]')
        ex.hooks[('ext:alg-of-other', 'can_sign')] = lambda ex, st, o, a: [(st, E.VBool(can_sign))]
        ex.hooks[('ext:alg-of-other', 'can_sign')].is_method = False
        newsig = E.VObj(SIG, 'newsig')
        r.set('newsig', '_signature', E.VObj('pgpy.packet.packets.SignatureV4', 'spkt'))
        r.set('spkt', 'subpackets', E.VObj('pgpy.packet.fields.SubPackets', 'subp'))

        def new_hook(ex, st, o, a):
            st.ghost['new_args'] = a
            return [(st, newsig)]
        r.hook(SIG, 'new', scn.method_hook(new_hook))

        def addnew_kw(ex, st, o, a, kws):
            st.ghost['adds'] = st.ghost.get('adds', ()) + ((a, kws),)
            return [(st, E.VNone())]
        addnew_kw.wants_kws = True
        r.hook('pgpy.packet.fields.SubPackets', 'addnew', scn.method_hook(addnew_kw))
        cross = E.VObj(SIG, 'cross')
        CROSSPKT = E.VObj('pgpy.packet.packets.SignatureV4', 'crosspkt')
        r.set('cross', '_signature', CROSSPKT)

        def other_bind(ex, st, o, a):
            st.ghost['cross_by'] = (o, a)
            if refusing:
                return [(st, E.Raise('PGPError', 0))]          # contract of a locked / public key asked to sign: it refuses with PGPError
            return [(st, cross)]
        r.hook(KEY, 'bind', scn.method_hook(other_bind))

        def _sign(ex, st, o, a, kws):
            st.ghost['_sign'] = (o, a, kws)
            return [(st, a[1])]
        _sign.wants_kws = True
        r.hook(KEY, '_sign', scn.method_hook(_sign))
        usage = E.VSet([E.VInt(KF['Sign'] if (can_sign and not refusing) else KF['EncryptCommunications'] if not refusing else KF['Authentication'], enum='pgpy.constants.KeyFlags')])
        kws = {'usage': usage} if i_am_primary else {}
        for pi, (s, v) in enumerate(r.call(me, [other], kws)):
            if refusing:
                # a subkey of a signing-capable algorithm that cannot make its cross-signature (locked): no binding without one, whatever
                # usage is asked for - the refusal is passed on
                r.oblige(s, 'the-refusal-of-the-subkey-is-passed-on(PGPError),no-binding-is-made/p%d' % pi,
                         z3.BoolVal(isinstance(v, E.Raise) and v.exc.split(':')[0] == 'PGPError' and s.ghost.get('_sign') is None), getattr(v, 'where', None))
                continue
            if isinstance(v, E.Raise):
                r.oblige(s, 'safety(%s)/p%d' % (v.exc, pi), z3.BoolVal(False), v.where)
                continue
            na, sg, adds = s.ghost.get('new_args'), s.ghost.get('_sign'), s.ghost.get('adds', ())
            r.oblige(s, 'creates-and-signs-one-signature/p%d' % pi, z3.BoolVal(na is not None and sg is not None and v is newsig))
            if na is None or sg is None:
                continue
            want = 'Subkey_Binding' if i_am_primary else 'PrimaryKey_Binding'
            r.oblige(s, 'signature-type-%s/p%d' % (want, pi), ex.as_int(na[0]) == ST[want])
            r.oblige(s, 'issuer-is-the-binding-key/p%d' % pi, na[3].z == KEYID if isinstance(na[3], E.VStr) and na[3].z is not None else z3.BoolVal(False))
            names = [a[0].s for a, k in adds]
            if i_am_primary:
                kf = [k for a, k in adds if a[0].s == 'KeyFlags']
                r.oblige(s, 'usage->KeyFlags(hashed)/p%d' % pi, z3.BoolVal(len(kf) == 1 and z3.is_true(kf[0]['hashed'].z) and kf[0].get('flags') is usage))
                emb = [k for a, k in adds if a[0].s == 'EmbeddedSignature']
                if can_sign:
                    cb = s.ghost.get('cross_by')
                    r.oblige(s, 'signing-subkey:cross-signature-made-by-the-subkey-over-the-primary/p%d' % pi, z3.BoolVal(cb is not None and cb[0] is other and cb[1][0] is me))
                    r.oblige(s, 'cross-signature-embedded(unhashed)/p%d' % pi, z3.BoolVal(len(emb) == 1 and z3.is_false(z3.simplify(emb[0]['hashed'].z)) and emb[0].get('_sig') is CROSSPKT))
                else:
                    r.oblige(s, 'no-cross-signature-for-a-subkey-that-cannot-sign/p%d' % pi, z3.BoolVal(len(emb) == 0 and s.ghost.get('cross_by') is None))
            else:
                r.oblige(s, 'primary-key-binding-carries-no-options/p%d' % pi, z3.BoolVal(names == []))
            r.oblige(s, 'signed-over-the-bound-key/p%d' % pi, z3.BoolVal(sg[0] is me and sg[1][0] is other and sg[1][1] is newsig))
        return r.result()
    return Scenario(label, KEY + '.bind', gen, props=('C02', 'C15'))


_base3 = scenarios


def scenarios():
    return _base3() + [revoke(k) for k in ('uid', 'key', 'subkey')] + [bind(k) for k in ('subkey-binding[signing subkey]', 'subkey-binding[encryption subkey]', 'primary-key-binding', 'subkey-binding[signing-capable subkey that refuses to cross-sign]')]


def signature_new(with_time):
    """PGPSignature.new: the empty v4 signature every signing operation starts from"""
    label = 'C02/PGPSignature.new[%s]' % ('creation time given' if with_time else 'creation time now')
    SP = 'pgpy.packet.fields.SubPackets'
    PKT = 'pgpy.packet.packets.SignatureV4'

    def gen(repo):
        r = scn.Run(repo, SIG, 'new', label)
        ex, st = r.ex, r.st
        r.hook(SIG, '__call__', lambda ex, st, c, a: [(st, E.VObj(SIG, 'sig'))])
        r.hook(PKT, '__call__', lambda ex, st, c, a: [(st, E.VObj(PKT, 'pkt'))])
        r.set('pkt', 'header', E.VObj('pgpy.packet.types.VersionedHeader', 'hdr'))
        r.set('pkt', 'subpackets', E.VObj(SP, 'subp'))

        def addnew_kw(ex, st, o, a, kws):
            st.ghost['added'] = st.ghost.get('added', ()) + ((a, kws),)
            return [(st, E.VNone())]
        addnew_kw.wants_kws = True
        r.hook(SP, 'addnew', scn.method_hook(addnew_kw))
        NOW = E.VExt('datetime.now(utc)', ())
        ex.hooks[('ext', 'datetime.now')] = lambda ex, st, o, a: [(st, NOW)]
        T, P, H = z3.IntVal(0x13), z3.IntVal(22), z3.IntVal(8)          # a member of each enumeration (the setters convert to the enum)
        SIGNER = E.VStr(z=z3.Const('SIGNER_KEY_ID', B))
        GIVEN = E.VExt('given-time', ())
        args = [E.VInt(T, enum='pgpy.constants.SignatureType'), E.VInt(P, enum='pgpy.constants.PubKeyAlgorithm'), E.VInt(H, enum='pgpy.constants.HashAlgorithm'), SIGNER]
        for pi, (s, v) in enumerate(r.call(E.VClass(SIG), args + ([GIVEN] if with_time else []))):
            if isinstance(v, E.Raise):
                r.oblige(s, 'safety(%s)/p%d' % (v.exc.split(':')[0], pi), z3.BoolVal(False), v.where)
                continue
            r.oblige(s, 'a-new-signature-holding-a-new-v4-packet/p%d' % pi,
                     z3.BoolVal(isinstance(v, E.VObj) and v.ref == 'sig' and isinstance(s.heap.get(('sig', '_signature')), E.VObj) and s.heap[('sig', '_signature')].ref == 'pkt'))
            g = lambda f: s.heap.get(('pkt', f))
            r.oblige(s, 'tag-2-version-4/p%d' % pi, z3.And(ex.as_int(s.heap.get(('hdr', '_tag'))) == 2, ex.as_int(s.heap.get(('hdr', '_version'))) == 4)
                     if isinstance(s.heap.get(('hdr', '_tag')), E.VInt) and isinstance(s.heap.get(('hdr', '_version')), E.VInt) else z3.BoolVal(False))
            r.oblige(s, 'type-and-algorithms-as-given/p%d' % pi,
                     z3.And(ex.as_int(g('_sigtype')) == T, ex.as_int(g('_pubalg')) == P, ex.as_int(g('_halg')) == H)
                     if all(isinstance(g(f), E.VInt) for f in ('_sigtype', '_pubalg', '_halg')) else z3.BoolVal(False))
            added = s.ghost.get('added', ())
            names = [a[0].s for a, kws in added]
            r.oblige(s, 'exactly:creation-time(hashed)-and-issuer-key-id/p%d' % pi, z3.BoolVal(names == ['CreationTime', 'Issuer']))
            if names == ['CreationTime', 'Issuer']:
                ct, iss = added[0][1], added[1][1]
                want = GIVEN if with_time else NOW
                r.oblige(s, 'creation-time-is-hashed-and-is-%s/p%d' % ('the-given-instant' if with_time else 'the-current-instant-in-utc', pi),
                         z3.BoolVal(isinstance(ct.get('hashed'), E.VBool) and z3.is_true(ct['hashed'].z) and ct.get('created') is want))
                r.oblige(s, 'issuer-is-the-given-key-id/p%d' % pi, z3.BoolVal(iss.get('_issuer') is SIGNER))
        return r.result()
    return Scenario(label, SIG + '.new', gen, props=('C02', 'C16', 'C18'))


_base_scn_new = scenarios


def scenarios():
    return _base_scn_new() + [signature_new(True), signature_new(False)]


def revoker(sensitive):
    """PGPKey.revoker (RFC 4880 5.2.3.15): a direct-key signature of this key over itself whose *hashed* area names the other key as
    revocation key (its algorithm, its fingerprint, class 0x80, or 0xC0 when marked sensitive), made non-revocable"""
    label = 'C02/PGPKey.revoker[%s]' % ('sensitive' if sensitive else 'normal')

    def gen(repo):
        ST = repo.enum_members('pgpy.constants.SignatureType')
        r = scn.Run(repo, KEY, 'revoker', label)
        ex, st = r.ex, r.st
        me, other = E.VObj(KEY, 'component'), E.VObj(KEY, 'revoker')
        KEYID = z3.Const('MY_KEYID', B)
        FPR = {'component': E.VStr(z=z3.Const('MY_FPR', B), cls='pgpy.types.Fingerprint'), 'revoker': E.VStr(z=z3.Const('REVOKER_FPR', B), cls='pgpy.types.Fingerprint')}
        r.hook(KEY, 'fingerprint', lambda ex, st, o, a: [(st, FPR[o.ref])])
        r.hook('pgpy.types.Fingerprint', 'keyid', lambda ex, st, o, a: [(st, E.VStr(z=KEYID))] if o is FPR['component'] else [(st, E.VStr(z=z3.Const('OTHER_KEYID', B)))])
        ALG = {'component': z3.Int('my_algorithm'), 'revoker': z3.Int('revoker_algorithm')}
        r.hook(KEY, 'key_algorithm', lambda ex, st, o, a: [(st, E.VInt(ALG[o.ref], enum='pgpy.constants.PubKeyAlgorithm'))])
        newsig = E.VObj(SIG, 'newsig')
        r.set('newsig', '_signature', E.VObj('pgpy.packet.packets.SignatureV4', 'spkt'))
        r.set('spkt', 'subpackets', E.VObj('pgpy.packet.fields.SubPackets', 'subp'))

        def new_hook(ex, st, o, a, kws):
            st.ghost['new_args'] = (a, kws)
            return [(st, newsig)]
        new_hook.wants_kws = True
        r.hook(SIG, 'new', scn.method_hook(new_hook))

        def addnew_kw(ex, st, o, a, kws):
            st.ghost['adds'] = st.ghost.get('adds', ()) + ((a, kws),)
            return [(st, E.VNone())]
        addnew_kw.wants_kws = True
        r.hook('pgpy.packet.fields.SubPackets', 'addnew', scn.method_hook(addnew_kw))

        def _sign(ex, st, o, a, kws):
            st.ghost['_sign'] = (o, a, kws)
            return [(st, a[1])]
        _sign.wants_kws = True
        r.hook(KEY, '_sign', scn.method_hook(_sign))
        kws = {'sensitive': E.VBool(True)} if sensitive else {}
        for pi, (s, v) in enumerate(r.call(me, [other], kws)):
            if isinstance(v, E.Raise):
                r.oblige(s, 'safety(%s)/p%d' % (v.exc, pi), z3.BoolVal(False), v.where)
                continue
            na, sg, adds = s.ghost.get('new_args'), s.ghost.get('_sign'), s.ghost.get('adds', ())
            r.oblige(s, 'creates-and-signs-one-signature/p%d' % pi, z3.BoolVal(na is not None and sg is not None and v is newsig))
            if na is None or sg is None:
                continue
            a = na[0]
            r.oblige(s, 'a-direct-key-signature-by-this-key/p%d' % pi,
                     z3.And(ex.as_int(a[0]) == ST['DirectlyOnKey'], ex.as_int(a[1]) == ALG['component'], a[3].z == KEYID if isinstance(a[3], E.VStr) and a[3].z is not None else z3.BoolVal(False)))
            ok = len(adds) == 1 and isinstance(adds[0][0][0], E.VStr) and adds[0][0][0].s == 'RevocationKey' and 'hashed' in adds[0][1] and z3.is_true(z3.simplify(ex.truth(adds[0][1]['hashed'], s)))
            r.oblige(s, 'one-revocation-key-subpacket,hashed/p%d' % pi, z3.BoolVal(bool(ok)))
            if ok:
                kw = adds[0][1]
                r.oblige(s, 'names-the-other-key:its-algorithm-and-its-fingerprint/p%d' % pi,
                         z3.And(ex.as_int(kw['algorithm']) == ALG['revoker'] if isinstance(kw.get('algorithm'), (E.VInt, E.VBool)) else z3.BoolVal(False), z3.BoolVal(kw.get('fingerprint') is FPR['revoker'])))
                kc = kw.get('keyclass')
                r.oblige(s, 'class-octet-0x80(normal)%s/p%d' % ('-plus-0x40(sensitive)' if sensitive else '', pi),
                         ex.as_int(kc) == (0xC0 if sensitive else 0x80) if isinstance(kc, (E.VInt, E.VBool)) else z3.BoolVal(False))
            r.oblige(s, 'signed-by-this-key-over-itself,marked-non-revocable/p%d' % pi,
                     z3.And(z3.BoolVal(sg[0] is me and sg[1][0] is me and sg[1][1] is newsig and 'revocable' in sg[2]),
                            z3.Not(ex.truth(sg[2]['revocable'], s)) if 'revocable' in sg[2] else z3.BoolVal(False)))
        return r.result()
    return Scenario(label, KEY + '.revoker', gen, props=('C02', 'C15'))


_base_scn_rk = scenarios


def scenarios():
    return _base_scn_rk() + [revoker(False), revoker(True)]
