"""C17 contracts: verdict coherence."""
from pyvc.dsl import Contract, Int, Bool, Const, Choice, Bytes, Obj, Flag, ListOf

SI = 'pgpy.constants.SecurityIssues'
SV = 'pgpy.types.SignatureVerification'


def _mk_sigsubj(f):
    from pgpy.types import SignatureVerification
    return SignatureVerification._sigsubj(f['issues'], None, None, None)


def sigsubj():
    return Obj('pgpy.types.sigsubj', {'issues': Flag(SI, 2047)}, build=_mk_sigsubj)


def _mk_sv(f):
    from pgpy.types import SignatureVerification
    sv = SignatureVerification()
    sv._subjects = list(f['_subjects'])
    return sv


def sv(n):
    return Obj(SV, {'_subjects': ListOf(sigsubj(), n)}, build=_mk_sv)


CONTRACTS = [Contract(
    'C17/SecurityIssues.causes_signature_verify_to_fail', SI + '.causes_signature_verify_to_fail',
    params={'self': Flag(SI, 2047)},
    ensures=[('disqualifying-always-disqualifies', 'result == verdict.is_failing(self)')],
    props=('C17', 'C01'))]

for n in (0, 1, 2, 3):
    CONTRACTS += [
        Contract('C17/SignatureVerification.__bool__[n=%d]' % n, SV + '.__bool__', params={'self': sv(n)},
                 ensures=[('truthy-iff-none-bad', 'result == all(not verdict.is_bad(s.issues) for s in self._subjects)')],
                 props=('C17', 'C01')),
        Contract('C17/SignatureVerification.good_signatures[n=%d]' % n, SV + '.good_signatures', params={'self': sv(n)},
                 ensures=[('good-iff-not-bad', 'all((s in result) == (not verdict.is_bad(s.issues)) for s in self._subjects)'),
                          ('only-examined', 'all(r in self._subjects for r in result)'),
                          ('once', 'len(result) == sum(0 if verdict.is_bad(s.issues) else 1 for s in self._subjects)')],
                 native_call=lambda nat: list(nat['self'].good_signatures), props=('C17',)),
        Contract('C17/SignatureVerification.bad_signatures[n=%d]' % n, SV + '.bad_signatures', params={'self': sv(n)},
                 ensures=[('bad-iff-failing', 'all((s in result) == verdict.is_bad(s.issues) for s in self._subjects)'),
                          ('wrong-signature-is-bad', 'all(implies(verdict.bit(s.issues, 0), s in result) for s in self._subjects)'),
                          ('only-examined', 'all(r in self._subjects for r in result)'),
                          ('once', 'len(result) == sum(1 if verdict.is_bad(s.issues) else 0 for s in self._subjects)')],
                 native_call=lambda nat: list(nat['self'].bad_signatures), props=('C17',)),
        Contract('C17/SignatureVerification.__len__[n=%d]' % n, SV + '.__len__', params={'self': sv(n)},
                 ensures=[('len', 'result == len(self._subjects)')], props=('C17',)),
    ]


# ---------------------------------------------------------------------------------------------------
# the verdict block of PGPKey.verify (detached signature given): scenario with callee contracts as hooks
import z3
from pyvc import scn, engine as E
from pyvc.runner import Scenario

FAILMASK = [0, 1, 2, 4, 10]


def _failing(x):
    return z3.Or(*[(x / (2 ** i)) % 2 == 1 for i in FAILMASK])


def verify_block(subject_kind):
    def gen(repo):
        r = scn.Run(repo, 'pgpy.pgp.PGPKey', 'verify', 'C17/PGPKey.verify[detached,%s]' % subject_kind)
        K0, S, K1, K2, SUBJFP = z3.Ints('keyid_self signer keyid_sub1 keyid_sub2 subject_fp')
        sound, prim = z3.Ints('issues_soundness issues_primitives')
        ok = z3.Bool('crypto_ok')
        dele = z3.Bool('delegate_result_truthy')
        st = r.st
        st.pc += [sound >= 0, sound < 2048, prim >= 0, prim < 2048, K0 != K1, K0 != K2, K1 != K2]
        key = E.VObj('pgpy.pgp.PGPKey', 'key')
        sub1, sub2 = E.VObj('pgpy.pgp.PGPKey', 'sub1'), E.VObj('pgpy.pgp.PGPKey', 'sub2')
        sig = E.VObj('pgpy.pgp.PGPSignature', 'sig')
        subj = E.VObj('pgpy.pgp.PGPUID' if subject_kind == 'uid' else 'pgpy.pgp.PGPKey', 'subj') if subject_kind != 'bytes' \
            else E.VBytes(z3.Const('DOC', E.BYTES))
        FP = 'pgpy.types.Fingerprint'
        SI = 'pgpy.constants.SecurityIssues'
        r.hook('pgpy.pgp.PGPKey', 'fingerprint', lambda ex, st, o, a: [(st, E.VInt({'key': K0, 'sub1': K1, 'sub2': K2, 'subj': SUBJFP}[o.ref], enum=FP))])
        r.hook(FP, 'keyid', lambda ex, st, o, a: [(st, E.VInt(o.z))])
        r.hook('pgpy.pgp.PGPKey', 'subkeys', scn.const(E.VDict([(E.VInt(K1), sub1), (E.VInt(K2), sub2)])))
        r.hook('pgpy.pgp.PGPSignature', 'signer', scn.const(E.VInt(S)))
        st.ghost['crypto_called'] = z3.BoolVal(False)
        st.ghost['delegated_to'] = z3.IntVal(0)

        # contract of PubKeyV4.verify: True / False from the algorithm's verifier, or the NotImplemented sentinel when the key material has
        # no signature scheme (ECDH, ElGamal, opaque material) - a sentinel that is truthy and must never be taken for a verdict
        no_scheme = z3.Bool('the_key_material_has_no_signature_scheme')

        ok2 = z3.Bool('crypto_ok_at_the_second_verification')

        def keyverify(ex, st, o, a):
            st.ghost['crypto_called'] = z3.BoolVal(True)
            st.ghost['crypto_args'] = a
            st.ghost['crypto_calls'] = st.ghost.get('crypto_calls', 0) + 1
            if st.ghost.get('epoch'):
                return [(st, E.VBool(ok2))]
            s2 = st.clone()
            st.pc.append(z3.Not(no_scheme))
            s2.pc.append(no_scheme)
            s2.ghost['sentinel'] = True
            return [(st, E.VBool(ok)), (s2, E.VBuiltin('NotImplemented'))]
        r.hook('pgpy.packet.packets.PubKeyV4', 'verify', scn.method_hook(keyverify))
        r.set('key', '_key', E.VObj('pgpy.packet.packets.PubKeyV4', 'keypkt'))
        r.set('sig', '_signature', E.VObj('pgpy.packet.packets.SignatureV4', 'sigpkt'))
        r.set('sigpkt', 'signature', E.VObj('pgpy.packet.fields.RSASignature', 'sigfield'))
        HD = z3.Const('HASHDATA', E.BYTES)

        # contract of PGPSignature.hashdata (C01/hashdata scenarios): the octets to hash - or an error when the subject is not of the kind the
        # signature type signs (a document signature over a user id, a certification over a key: AttributeError / TypeError), or when a
        # standalone / timestamp signature is given a subject (PGPError)
        unfit = z3.Int('how_the_subject_fails_to_fit_the_signature_type')
        UNFIT = {1: 'TypeError', 2: 'AttributeError', 3: 'PGPError'}

        def hashdata(ex, st, o, a):
            st.ghost['hashdata_subject'] = a[0]
            if st.ghost.get('epoch'):
                return [(st, E.VBytes(HD))]
            outs = []
            for code, exc in UNFIT.items():
                s2 = st.clone()
                s2.pc.append(unfit == code)
                s2.ghost['no_hash_input'] = exc
                outs.append((s2, E.Raise(exc, 0)))
            st.pc.append(z3.And(*[unfit != c for c in UNFIT]))
            return [(st, E.VBytes(HD))] + outs
        r.hook('pgpy.pgp.PGPSignature', 'hashdata', scn.method_hook(hashdata))
        r.hook('pgpy.pgp.PGPSignature', '__sig__', scn.const(E.VStr(s=('opaque', 'sigints'))))
        r.hook('pgpy.pgp.PGPSignature', 'hash_algorithm', scn.const(E.VInt(8, enum='pgpy.constants.HashAlgorithm')))
        r.hook('pgpy.pgp.PGPSignature', 'key_algorithm', scn.const(E.VInt(22, enum='pgpy.constants.PubKeyAlgorithm')))
        for meth in ('__bytearray__', '__bytes__'):
            r.hook('pgpy.pgp.PGPSignature', meth, scn.method_hook(lambda ex, st, o, a: [(st, E.VBytes(z3.Const('PACKET_OCTETS_OF_THE_SIGNATURE', E.BYTES)))]))
        r.hook('pgpy.pgp.PGPKey', 'check_soundness', scn.mconst(E.VInt(sound, enum=SI)))
        r.hook('pgpy.pgp.PGPKey', 'check_primitives', scn.mconst(E.VInt(prim, enum=SI)))
        added = []

        def add_sigsubj(ex, st, o, a):
            lst = list(st.ghost.get('entries', ()))
            lst.append(a)
            st.ghost['entries'] = tuple(lst)
            return [(st, E.VNone())]
        r.hook('pgpy.types.SignatureVerification', 'add_sigsubj', scn.method_hook(add_sigsubj))

        def sub_verify(ex, st, o, a):
            st.ghost['delegated_to'] = {'sub1': K1, 'sub2': K2, 'key': K0}[o.ref]
            st.ghost['delegated_args'] = a
            return [(st, E.VObj('pgpy.types.SignatureVerification', 'subresult'))]
        r.hook('pgpy.pgp.PGPKey', 'verify', scn.method_hook(sub_verify))

        def sv_and(ex, st, o, a):
            st.ghost['merged'] = a[0]
            return [(st, o)]
        r.hook('pgpy.types.SignatureVerification', '__and__', scn.method_hook(sv_and))
        outs = r.call(key, [subj, sig])
        for s, v in outs:
            kind = scn.exit_kind(v)
            mine = z3.Or(S == K0, S == K1, S == K2)
            if isinstance(v, E.Raise) and v.exc.split(':')[0] == 'NotImplementedError':
                r.oblige(s, 'NotImplementedError-only-when-the-key-has-no-signature-scheme/p', z3.And(z3.BoolVal(bool(s.ghost.get('sentinel'))), no_scheme), v.where)
                continue
            nohash = s.ghost.get('no_hash_input')
            if isinstance(v, E.Raise) and nohash:
                # no hash input could be formed for this signature and subject: the error is passed on as it is ("falsy or an error")
                r.oblige(s, 'no-hash-input:the-error-of-hashdata-is-passed-on[%s]/p' % nohash, z3.BoolVal(v.exc.split(':')[0] == nohash), v.where)
                continue
            if isinstance(v, E.Raise):
                # the only other allowed error here: the signature names neither this key nor one of its subkeys
                r.oblige(s, 'raises-only-for-foreign-issuer[%s]/p' % kind, z3.And(z3.BoolVal(v.exc.split(':')[0] == 'PGPError'), z3.Not(mine)), v.where)
                continue
            # a result that does not list the signature is truthy: never returned for a signature whose hash input could not be formed
            r.oblige(s, 'no-hash-input:no-result-is-returned(a-result-without-the-signature-would-be-truthy)/p', z3.BoolVal(not nohash))
            r.oblige(s, 'the-no-scheme-sentinel-is-never-taken-for-a-verdict/p', z3.BoolVal(not s.ghost.get('sentinel')))
            entries = s.ghost.get('entries', ())
            deleg = s.ghost['delegated_to']
            is_sub = z3.And(S != K0, z3.Or(S == K1, S == K2))
            r.oblige(s, 'examined-only-own-issuer/p', mine)
            if len(entries) == 0:
                # must be the delegation path: to exactly the subkey the signature names, same subject and signature
                r.oblige(s, 'delegates-to-named-subkey/p', z3.And(is_sub, deleg == S))
                da = s.ghost.get('delegated_args')
                r.oblige(s, 'delegation-passes-subject-and-signature/p',
                         z3.BoolVal(da is not None and len(da) == 2 and da[0] is subj and isinstance(da[1], E.VObj) and da[1].ref == 'sig'))
                r.oblige(s, 'delegated-result-merged/p', z3.BoolVal(isinstance(s.ghost.get('merged'), E.VObj) and s.ghost['merged'].ref == 'subresult'))
                continue
            r.oblige(s, 'exactly-one-entry/p', z3.BoolVal(len(entries) == 1))
            a = entries[0]
            r.oblige(s, 'not-delegated-when-own/p', z3.And(deleg == 0, S == K0))
            r.oblige(s, 'entry-names-signature-key-subject/p',
                     z3.BoolVal(isinstance(a[0], E.VObj) and a[0].ref == 'sig' and isinstance(a[1], E.VObj) and a[1].ref == 'key' and a[2] is subj))
            issues = ex_int(a[3])
            called = s.ghost['crypto_called']
            # the aggregate of the two checks, bit by bit (11 issue bits): stating `issues == prim | sound` through the bits keeps
            # every obligation inside linear arithmetic with one div/mod per term
            bit = lambda x, i: (x / (2 ** i)) % 2 == 1
            tbit = lambda i: z3.Or(bit(prim, i), bit(sound, i))
            failing_total = z3.Or(*[tbit(i) for i in FAILMASK])
            for i in range(11):
                r.oblige(s, 'disqualifying-issue-is-kept:bit-%d-of-the-entry-is-the-or-of-both-checks/p' % i, z3.Implies(failing_total, bit(issues, i) == tbit(i)))
            r.oblige(s, 'disqualifying-issue-is-kept:nothing-beyond-the-11-issue-bits,crypto-not-consulted/p',
                     z3.Implies(failing_total, z3.And(issues >= 0, issues < 2 ** 11, z3.Not(called))))
            r.oblige(s, 'otherwise-crypto-decides/p',
                     z3.Implies(z3.Not(failing_total), z3.And(called, issues == z3.If(ok, 0, 1))))
            r.oblige(s, 'never-truthy-without-crypto/p', z3.Implies(z3.Not(_failing(issues)), z3.And(called, ok)))
            if s.ghost.get('crypto_args') is not None:
                ca = s.ghost['crypto_args']
                r.oblige(s, 'crypto-checks-hashdata-of-this-subject/p',
                         z3.BoolVal(isinstance(ca[0], E.VBytes) and ca[0].z.eq(HD) and s.ghost.get('hashdata_subject') is subj))
            if s.ghost.get('crypto_calls', 0) == 1 and not s.ghost.get('second_done') and subject_kind == 'uid':
                # no hidden state: the same key, signature and subject OBJECTS verified again (the signature object may have been re-read,
                # the subject changed in place): the crypto check is consulted again and decides again
                s3 = s.clone()
                s3.ghost['epoch'] = 1
                s3.ghost['entries'] = ()
                nsec = 0
                for s4, v4 in r.ex.call_func(E.VFunc(r.node, None, cls=r.dcls, self_val=key, mod=r.mod), [subj, sig], {}, s3, {'mod': r.mod}):
                    if isinstance(v4, E.Raise):
                        r.oblige(s4, 'second-verification:safety(%s)/p' % v4.exc.split(':')[0], z3.BoolVal(False), v4.where)
                        continue
                    e4 = s4.ghost.get('entries', ())
                    okk = len(e4) == 1 and s4.ghost.get('crypto_calls', 0) == 2
                    r.oblige(s4, 'second-verification-of-the-same-objects:the-crypto-check-is-consulted-again-and-decides/p',
                             z3.And(z3.BoolVal(okk), ex_int(e4[0][3]) == z3.If(ok2, 0, 1) if okk else z3.BoolVal(False)))
        # number the obligations per path so that names are stable and unique
        named = []
        for i, (n, h, g, l) in enumerate(r.obls):
            named.append((n + '%d' % i, h, g, l))
        r.obls = named
        return r.result()
    return gen


def ex_int(v):
    if isinstance(v, E.VInt):
        return v.z
    if isinstance(v, E.VBool):
        return z3.If(v.z, 1, 0)
    raise E.ToolLimit('issues entry is not an int')


def bits_or(a, b):
    return scn_sum([z3.If(z3.Or((a / 2 ** i) % 2 == 1, (b / 2 ** i) % 2 == 1), 2 ** i, 0) for i in range(11)])


def scn_sum(ts):
    return z3.Sum(ts)


SCENARIOS = [Scenario('C17/PGPKey.verify[detached,%s]' % k, 'pgpy.pgp.PGPKey.verify', verify_block(k), props=('C17', 'C01', 'C16'))
             for k in ('uid', 'bytes')]


# ---------------------------------------------------------------------------------------------------
# where the disqualifying bits come from: PGPKey.check_management / check_soundness / check_primitives
def key_conditions():
    label = 'C17/PGPKey.check_management+check_soundness'

    def gen(repo):
        obls, funcs, paths = [], [], 0
        KEY = 'pgpy.pgp.PGPKey'
        for self_verifying in (False, True):
            r = scn.Run(repo, KEY, 'check_management', label + '[management,self_verifying=%s]' % self_verifying)
            ex, st = r.ex, r.st
            # the conditions of the key at the first call [0] and at a later call on the SAME key object [1] (time has passed, a
            # self-signature with another expiry was attached to a user id, a revocation arrived): no hidden state
            svs = [z3.Int('self_verified_issues'), z3.Int('self_verified_issues_at_the_second_call')]
            exps = [z3.Bool('key_is_expired'), z3.Bool('key_is_expired_at_the_second_call')]
            nrevs = [z3.Bool('has_revocation_signature'), z3.Bool('has_revocation_signature_at_the_second_call')]
            for x in svs:
                st.pc += [x >= 0, x < 2048]
            me = E.VObj(KEY, 'key')
            now = lambda st: st.ghost.get('epoch', 0)
            r.hook(KEY, 'self_verified', lambda ex, st, o, a: [(st, E.VInt(svs[now(st)], enum=SI))])
            r.hook(KEY, 'is_expired', lambda ex, st, o, a: [(st, E.VBool(exps[now(st)]))])
            r.hook(KEY, 'expires_at', scn.const(E.VExt('datetime', ())))

            def revs(ex, st, o, a):
                nrev = nrevs[now(st)]
                s2 = st.clone()
                st.pc.append(nrev)
                s2.pc.append(z3.Not(nrev))
                return [(st, ex.new_list(st, [E.VObj('pgpy.pgp.PGPSignature', 'rev')])), (s2, ex.new_list(s2, []))]
            r.hook(KEY, 'revocation_signatures', revs)
            bit = lambda x, i: (x / (2 ** i)) % 2 == 1

            def post(s, v, tag, sv, expired):
                res = ex_int(v)
                r.oblige(s, '%sexpired-key-always-reports-Expired-whatever-else-is-true/%s' % tag, z3.Implies(expired, bit(res, 1)))
                r.oblige(s, '%skeeps-every-issue-of-the-self-signature-check/%s' % tag, z3.And(*[z3.Implies(bit(sv, i), bit(res, i)) for i in range(11)]))
                r.oblige(s, '%sadds-only-Expired-and-Revoked/%s' % tag,
                         z3.And(*[z3.Implies(bit(res, i), bit(sv, i)) for i in range(11) if i not in (1, 3)]))
                r.oblige(s, '%sExpired-only-if-expired-or-already-reported/%s' % tag, z3.Implies(bit(res, 1), z3.Or(expired, bit(sv, 1))))
            for pi, (s, v) in enumerate(r.call(me, [E.VBool(self_verifying)])):
                paths += 1
                if isinstance(v, E.Raise):
                    r.oblige(s, 'safety(%s)/p%d' % (v.exc, pi), z3.BoolVal(False), v.where)
                    continue
                post(s, v, ('', 'p%d' % pi), svs[0], exps[0])
                r.oblige(s, 'Revoked-iff-a-revocation-signature-or-already-reported/p%d' % pi, bit(ex_int(v), 3) == z3.Or(nrevs[0], bit(svs[0], 3)))
                s.ghost['epoch'] = 1
                for qi, (s2, v2) in enumerate(ex.call_func(E.VFunc(r.node, None, cls=r.dcls, self_val=me, mod=r.mod), [E.VBool(self_verifying)], {}, s, {'mod': r.mod})):
                    paths += 1
                    if isinstance(v2, E.Raise):
                        r.oblige(s2, 'second-call:safety(%s)/p%d.%d' % (v2.exc, pi, qi), z3.BoolVal(False), v2.where)
                        continue
                    post(s2, v2, ('second-call-on-the-same-key:', 'p%d.%d' % (pi, qi)), svs[1], exps[1])
                    r.oblige(s2, 'second-call-on-the-same-key:Revoked-iff-a-revocation-signature-or-already-reported/p%d.%d' % (pi, qi),
                             bit(ex_int(v2), 3) == z3.Or(nrevs[1], bit(svs[1], 3)))
            res_ = r.result()
            obls += res_['obligations']
            funcs += res_['funcs']
        # check_soundness = management | primitives (no disqualifying bit is lost by combining)
        r = scn.Run(repo, KEY, 'check_soundness', label + '[soundness]')
        ex, st = r.ex, r.st
        m, p = z3.Ints('management_issues primitive_issues')
        st.pc += [m >= 0, m < 2048, p >= 0, p < 2048]
        r.hook(KEY, 'check_management', scn.mconst(E.VInt(m, enum=SI)))
        r.hook(KEY, 'check_primitives', scn.mconst(E.VInt(p, enum=SI)))
        for pi, (s, v) in enumerate(r.call(E.VObj(KEY, 'key'), [E.VBool(z3.Bool('self_verifying'))])):
            paths += 1
            if isinstance(v, E.Raise):
                r.oblige(s, 'safety(%s)/p%d' % (v.exc, pi), z3.BoolVal(False), v.where)
                continue
            r.oblige(s, 'union-of-management-and-primitive-issues/p%d' % pi, ex_int(v) == bits_or(m, p))
        res_ = r.result()
        return {'obligations': obls + res_['obligations'], 'funcs': funcs + res_['funcs'], 'paths': paths}
    return Scenario(label, 'pgpy.pgp.PGPKey.check_management', gen, props=('C17',))


def validate_params():
    """PubKeyAlgorithm.validate_params returns only advisory bits (never a disqualifying one)"""
    label = 'C17/PubKeyAlgorithm.validate_params'

    def gen(repo):
        obls, funcs, paths = [], [], 0
        PA = repo.enum_members('pgpy.constants.PubKeyAlgorithm')
        CUR = repo.enum_members('pgpy.constants.EllipticCurveOID') if 'pgpy.constants.EllipticCurveOID' in repo.classes else {}
        for name, val in sorted(PA.items(), key=lambda kv: kv[1]):
            r = scn.Run(repo, 'pgpy.constants.PubKeyAlgorithm', 'validate_params', label + '[%s]' % name)
            ex, st = r.ex, r.st
            size = z3.Int('key_size')
            st.pc += [size >= 0, size <= 65536]
            try:
                outs = r.call(E.VInt(val, enum='pgpy.constants.PubKeyAlgorithm'), [E.VInt(size)])
            except E.ToolLimit:
                raise
            for pi, (s, v) in enumerate(outs):
                paths += 1
                if isinstance(v, E.Raise):
                    r.oblige(s, 'safety(%s)/p%d' % (v.exc, pi), z3.BoolVal(False), v.where)
                    continue
                r.oblige(s, 'only-advisory-bits/p%d' % pi, z3.Not(_failing(ex_int(v))))
            res_ = r.result()
            obls += res_['obligations']
            funcs = res_['funcs']
        return {'obligations': obls, 'funcs': funcs, 'paths': paths}
    return Scenario(label, 'pgpy.constants.PubKeyAlgorithm.validate_params', gen, props=('C17',))


SCENARIOS += [key_conditions(), validate_params()]


def verify_collect(subject_kind):
    """PGPKey.verify without an explicit signature: which (signature, subject) pairs are examined"""
    label = 'C01/PGPKey.verify[collect,%s]' % subject_kind

    def gen(repo):
        r = scn.Run(repo, 'pgpy.pgp.PGPKey', 'verify', label)
        ex, st = r.ex, r.st
        KEYC, SIGC, MSG, UIDC = 'pgpy.pgp.PGPKey', 'pgpy.pgp.PGPSignature', 'pgpy.pgp.PGPMessage', 'pgpy.pgp.PGPUID'
        K0, K1 = z3.Ints('keyid_self keyid_sub1')
        st.pc += [K0 != K1]
        key, sub1 = E.VObj(KEYC, 'key'), E.VObj(KEYC, 'sub1')
        FP = 'pgpy.types.Fingerprint'
        r.hook(KEYC, 'fingerprint', lambda ex, st, o, a: [(st, E.VInt({'key': K0, 'sub1': K1}.get(o.ref, z3.Int('fp_' + o.ref)), enum=FP))])
        r.hook(FP, 'keyid', lambda ex, st, o, a: [(st, E.VInt(o.z))])
        r.hook(KEYC, 'subkeys', lambda ex, st, o, a: [(st, E.VDict([(E.VInt(K1), sub1)]) if o.ref == 'key' else E.VDict([]))])
        sigs = [E.VObj(SIGC, 's%d' % i) for i in range(2)]
        signer = {x.ref: z3.Int('signer_' + x.ref) for x in sigs}
        r.hook(SIGC, 'signer', lambda ex, st, o, a: [(st, E.VInt(signer[o.ref]))])
        r.hook(KEYC, 'check_soundness', scn.mconst(E.VInt(0, enum=SI)))
        r.hook(KEYC, 'check_primitives', scn.mconst(E.VInt(0, enum=SI)))
        r.set('key', '_key', E.VObj('pgpy.packet.packets.PubKeyV4', 'keypkt'))
        # contract of hashdata: the octets to hash, or an error when the subject is not of the kind this signature's type signs
        def hashdata(ex, st, o, a):
            if subject_kind == 'key':          # four signatures: the error exit is exercised with the message and user id subjects
                return [(st, E.VBytes(z3.Const('HD', E.BYTES)))]
            s2 = st.clone()
            fits = z3.Bool('subject_fits_the_type_of_%s' % o.ref)
            st.pc.append(fits)
            s2.pc.append(z3.Not(fits))
            s2.ghost['no_hash_input'] = o.ref
            return [(st, E.VBytes(z3.Const('HD', E.BYTES))), (s2, E.Raise('TypeError', 0))]
        r.hook(SIGC, 'hashdata', scn.method_hook(hashdata))
        r.hook(SIGC, '__sig__', scn.const(E.VStr(s=('opaque', 'sigints'))))
        r.hook(SIGC, 'hash_algorithm', scn.const(E.VInt(8, enum='pgpy.constants.HashAlgorithm')))
        r.hook('pgpy.packet.packets.PubKeyV4', 'verify', scn.mconst(E.VBool(z3.Bool('crypto_ok'))))
        # the octets of the signature packets are arbitrary: two of the collected signatures may well be the same packet (a certification
        # copied onto another identity, a key merged from two sources) - each pair is examined all the same, for its own subject
        for meth in ('__bytearray__', '__bytes__'):
            r.hook(SIGC, meth, scn.method_hook(lambda ex, st, o, a: [(st, E.VBytes(z3.Const('PACKET_OCTETS_OF_%s' % o.ref, E.BYTES)))]))

        def add(ex, st, o, a):
            st.ghost['examined'] = st.ghost.get('examined', ()) + (('own', a[0], a[2]),)
            return [(st, E.VNone())]
        r.hook('pgpy.types.SignatureVerification', 'add_sigsubj', scn.method_hook(add))

        def subverify(ex, st, o, a):
            st.ghost['examined'] = st.ghost.get('examined', ()) + (('sub', a[1], a[0]),)
            return [(st, E.VObj('pgpy.types.SignatureVerification', 'subres'))]
        r.hook(KEYC, 'verify', scn.method_hook(subverify))
        r.hook('pgpy.types.SignatureVerification', '__and__', scn.method_hook(lambda ex, st, o, a: [(st, o)]))
        if subject_kind == 'message':
            subject = E.VObj(MSG, 'msg')
            content = E.VBytes(z3.Const('CONTENT', E.BYTES))
            r.hook(MSG, 'signatures', scn.const(ex.new_list(st, sigs)))
            r.hook(MSG, 'message', scn.const(content))
            expect_subj = {x.ref: content for x in sigs}
        elif subject_kind == 'uid':
            subject = E.VObj(UIDC, 'uid')
            r.hook(UIDC, '__sig__', scn.const(ex.new_list(st, sigs)))
            expect_subj = {x.ref: subject for x in sigs}
        else:
            # a key subject: its own signatures, then each user id's, each user attribute's, each subkey's
            subject = E.VObj(KEYC, 'other')
            ouid, oua, osub = E.VObj(UIDC, 'ouid'), E.VObj(UIDC, 'oua'), E.VObj(KEYC, 'osub')
            sigs = [E.VObj(SIGC, 's%d' % i) for i in range(4)]
            signer.update({x.ref: z3.Int('signer_' + x.ref) for x in sigs})
            owner = {'other': [sigs[0]], 'ouid': [sigs[1]], 'oua': [sigs[2]], 'osub': [sigs[3]]}
            r.hook(KEYC, '__sig__', lambda ex, st, o, a: [(st, ex.new_list(st, owner.get(o.ref, [])))])
            r.hook(UIDC, '__sig__', lambda ex, st, o, a: [(st, ex.new_list(st, owner.get(o.ref, [])))])
            r.hook(KEYC, 'userids', scn.const(ex.new_list(st, [ouid])))
            r.hook(KEYC, 'userattributes', scn.const(ex.new_list(st, [oua])))
            r.hook(KEYC, 'subkeys', lambda ex, st, o, a: [(st, E.VDict([(E.VInt(K1), sub1)]) if o.ref == 'key'
                                                           else E.VDict([(E.VInt(z3.Int('keyid_osub')), osub)]) if o.ref == 'other' else E.VDict([]))])
            expect_subj = {'s0': subject, 's1': ouid, 's2': oua, 's3': osub}
        for pi, (s, v) in enumerate(r.call(key, [subject])):
            mine = {x.ref: z3.Or(signer[x.ref] == K0, signer[x.ref] == K1) for x in sigs}
            ex_ = s.ghost.get('examined', ())
            nohash = s.ghost.get('no_hash_input')
            if nohash:
                # one of the collected signatures has no hash input for this subject: an error - never a result that leaves the signature
                # out (it would be truthy as far as that signature is concerned)
                r.oblige(s, 'no-hash-input(%s):the-error-of-hashdata-is-passed-on/p%d' % (nohash, pi),
                         z3.BoolVal(isinstance(v, E.Raise) and v.exc.split(':')[0] == 'TypeError'), getattr(v, 'where', None))
                continue
            if isinstance(v, E.Raise):
                r.oblige(s, 'raises-PGPError-only-when-no-signature-names-this-key-or-a-subkey/p%d' % pi,
                         z3.And(z3.BoolVal(v.exc.split(':')[0] == 'PGPError' and len(ex_) == 0), z3.Not(z3.Or(*mine.values()))), v.where)
                continue
            refs = [e[1].ref for e in ex_]
            r.oblige(s, 'a-result-is-returned-only-after-examining-a-signature(an-empty-result-would-be-truthy)/p%d' % pi, z3.BoolVal(len(ex_) > 0))
            r.oblige(s, 'each-signature-examined-at-most-once-in-order/p%d' % pi, z3.BoolVal(refs == sorted(set(refs))))
            for x in sigs:
                r.oblige(s, 'examined-iff-issued-by-this-key-or-a-subkey(%s)/p%d' % (x.ref, pi), z3.BoolVal(x.ref in refs) == mine[x.ref])
            for kind, sg, sb in ex_:
                r.oblige(s, 'subject-of-%s-is-the-given-subject/p%d' % (sg.ref, pi), z3.BoolVal(sb is expect_subj[sg.ref]))
                r.oblige(s, 'subkey-signature-delegated,own-signature-checked-here(%s)/p%d' % (sg.ref, pi),
                         (signer[sg.ref] == K1) if kind == 'sub' else (signer[sg.ref] == K0))
        return r.result()
    return Scenario(label, 'pgpy.pgp.PGPKey.verify', gen, props=('C01', 'C16', 'C17'))


SCENARIOS += [verify_collect('message'), verify_collect('uid'), verify_collect('key')]


def sv_and(n, m):
    """SignatureVerification.__and__ (how a subkey's result is merged in): every entry of both sides is kept, once, in order"""
    label = 'C17/SignatureVerification.__and__[%d+%d entries]' % (n, m)

    def gen(repo):
        r = scn.Run(repo, SV, '__and__', label)
        ex, st = r.ex, r.st
        mine = [E.VObj('pgpy.types.sigsubj', 'mine%d' % i) for i in range(n)]
        theirs = [E.VObj('pgpy.types.sigsubj', 'theirs%d' % i) for i in range(m)]
        r.set('self', '_subjects', ex.new_list(st, mine))
        r.set('other', '_subjects', ex.new_list(st, theirs))
        me, other = E.VObj(SV, 'self'), E.VObj(SV, 'other')
        for pi, (s, v) in enumerate(r.call(me, [other])):
            if isinstance(v, E.Raise):
                r.oblige(s, 'safety(%s)/p%d' % (v.exc.split(':')[0], pi), z3.BoolVal(False), v.where)
                continue
            lst = s.heap.get(('self', '_subjects'))
            got = [x.ref for x in ex.items(lst, s)] if isinstance(lst, E.VList) else None
            r.oblige(s, 'returns-the-merged-result/p%d' % pi, z3.BoolVal(isinstance(v, E.VObj) and v.ref == 'self'))
            r.oblige(s, 'every-entry-of-both-sides-once-in-order(so-a-bad-entry-of-either-side-stays-bad)/p%d' % pi,
                     z3.BoolVal(got == [x.ref for x in mine + theirs]))
            olst = s.heap.get(('other', '_subjects'))
            r.oblige(s, 'the-other-result-is-left-as-it-was/p%d' % pi, z3.BoolVal(isinstance(olst, E.VList) and [x.ref for x in ex.items(olst, s)] == [x.ref for x in theirs]))
        # anything that is not a verification result is refused
        r2 = scn.Run(repo, SV, '__and__', label + '[foreign operand]')
        r2.set('self', '_subjects', r2.ex.new_list(r2.st, []))
        for pi, (s, v) in enumerate(r2.call(E.VObj(SV, 'self'), [E.VBool(True)])):
            r2.oblige(s, 'refused-with-TypeError/p%d' % pi, z3.BoolVal(isinstance(v, E.Raise) and v.exc.split(':')[0] == 'TypeError'))
        res, res2 = r.result(), r2.result()
        return {'obligations': res['obligations'] + res2['obligations'], 'funcs': res['funcs'], 'paths': res['paths'] + res2['paths']}
    return Scenario(label, SV + '.__and__', gen, props=('C17', 'C01'))


SCENARIOS += [sv_and(0, 0), sv_and(1, 2), sv_and(2, 1)]


# ---------------------------------------------------------------------------------------------------------------------
# when a key / a signature counts as expired. Time model (assumed contract of datetime, stated): aware datetimes are instants on one
# integer line, a timedelta is an integer distance, `+` and the comparisons are the integer ones.
def expiry():
    label = 'C17/expiry[PGPKey.expires_at,is_expired;PGPSignature.expires_at,is_expired]'
    KEYC, SIGC, UIDC = 'pgpy.pgp.PGPKey', 'pgpy.pgp.PGPSignature', 'pgpy.pgp.PGPUID'

    def gen(repo):
        obls, funcs, paths = [], [], 0
        # --- PGPKey.expires_at: creation time + the key expiration of the last identity (in identity order) whose self-signature states one
        r = scn.Run(repo, KEYC, 'expires_at', label + '[key expires_at]')
        ex, st = r.ex, r.st
        CREATED = z3.Int('key_created')
        N = 3
        has = [z3.Bool('identity_%d_has_a_self_signature' % i) for i in range(N)]
        states = [z3.Bool('self_signature_%d_states_a_key_expiration' % i) for i in range(N)]
        EXP = [z3.Int('key_expiration_%d' % i) for i in range(N)]
        uids = [E.VObj(UIDC, 'uid%d' % i) for i in range(N)]
        r.hook(KEYC, 'userids', lambda ex, st, o, a: [(st, ex.new_list(st, uids))])
        r.hook(KEYC, 'created', scn.const(E.VInt(CREATED)))

        def selfsig(ex, st, o, a):
            i = int(o.ref[3:])
            if ('selfsig', i) in st.ghost:           # the same answer every time it is asked within one call
                return [(st, E.VObj(SIGC, 'sig%d' % i) if st.ghost[('selfsig', i)] else E.VNone())]
            s2 = st.clone()
            st.pc.append(has[i])
            st.ghost[('selfsig', i)] = True
            s2.pc.append(z3.Not(has[i]))
            s2.ghost[('selfsig', i)] = False
            return [(st, E.VObj(SIGC, 'sig%d' % i)), (s2, E.VNone())]
        r.hook(UIDC, 'selfsig', selfsig)

        def kexp(ex, st, o, a):
            i = int(o.ref[3:])
            if ('kexp', i) in st.ghost:
                return [(st, E.VInt(EXP[i]) if st.ghost[('kexp', i)] else E.VNone())]
            s2 = st.clone()
            st.pc.append(states[i])
            st.ghost[('kexp', i)] = True
            s2.pc.append(z3.Not(states[i]))
            s2.ghost[('kexp', i)] = False
            return [(st, E.VInt(EXP[i])), (s2, E.VNone())]
        r.hook(SIGC, 'key_expiration', kexp)
        # whether such a self-signature has itself expired (its own signature expiration time) is of no concern here: free per signature
        r.hook(SIGC, 'is_expired', lambda ex, st, o, a: [(st, E.VBool(z3.Bool('self_signature_%s_has_itself_expired' % o.ref[3:])))])
        r.hook(SIGC, 'expires_at', lambda ex, st, o, a: [(st, E.VInt(z3.Int('self_signature_%s_expires_at' % o.ref[3:])))])
        for pi, (s, v) in enumerate(r.call(E.VObj(KEYC, 'key'), [])):
            paths += 1
            if isinstance(v, E.Raise):
                r.oblige(s, 'safety(%s)/p%d' % (v.exc.split(':')[0], pi), z3.BoolVal(False), v.where)
                continue
            eff = [z3.And(has[i], states[i]) for i in range(N)]
            want_none = z3.Not(z3.Or(*eff))
            if isinstance(v, E.VNone):
                r.oblige(s, 'none-only-if-no-identity-has-a-self-signature-stating-a-key-expiration/p%d' % pi, want_none)
                continue
            val = ex.as_int(v) if isinstance(v, (E.VInt, E.VBool)) else None
            r.oblige(s, 'an-instant/p%d' % pi, z3.BoolVal(val is not None))
            if val is None:
                continue
            last = z3.IntVal(-1)
            for i in range(N):
                last = z3.If(eff[i], z3.IntVal(i), last)
            want = CREATED + z3.If(last == 2, EXP[2], z3.If(last == 1, EXP[1], EXP[0]))
            r.oblige(s, 'creation-time-plus-the-key-expiration-of-the-last-identity-whose-self-signature-states-one/p%d' % pi, z3.And(z3.Not(want_none), val == want))
        res = r.result()
        obls += res['obligations']
        funcs += res['funcs']
        # --- PGPKey.is_expired: expired from the instant of expiry on (<=)
        r = scn.Run(repo, KEYC, 'is_expired', label + '[key is_expired]')
        ex, st = r.ex, r.st
        AT, NOW, never = z3.Int('expires_at'), z3.Int('now'), z3.Bool('no_expiry')

        def exat(ex, st, o, a):
            s2 = st.clone()
            st.pc.append(z3.Not(never))
            s2.pc.append(never)
            return [(st, E.VInt(AT)), (s2, E.VNone())]
        r.hook(KEYC, 'expires_at', exat)
        ex.hooks[('ext', 'datetime.now')] = lambda ex, st, o, a: [(st, E.VInt(NOW))]
        for pi, (s, v) in enumerate(r.call(E.VObj(KEYC, 'key'), [])):
            paths += 1
            if isinstance(v, E.Raise):
                r.oblige(s, 'safety(%s)/p%d' % (v.exc.split(':')[0], pi), z3.BoolVal(False), v.where)
                continue
            r.oblige(s, 'expired-iff-an-expiry-is-stated-and-its-instant-is-not-in-the-future/p%d' % pi, ex.truth(v, s) == z3.And(z3.Not(never), AT <= NOW))
        res = r.result()
        obls += res['obligations']
        funcs += res['funcs']
        # --- PGPSignature.is_expired: strictly after the instant, and a zero lifetime means "does not expire" (RFC 4880 5.2.3.10)
        r = scn.Run(repo, SIGC, 'is_expired', label + '[signature is_expired]')
        ex, st = r.ex, r.st
        SC = z3.Int('signature_created')
        r.hook(SIGC, 'expires_at', exat)
        r.hook(SIGC, 'created', scn.const(E.VInt(SC)))
        ex.hooks[('ext', 'datetime.now')] = lambda ex, st, o, a: [(st, E.VInt(NOW))]
        for pi, (s, v) in enumerate(r.call(E.VObj(SIGC, 'sig'), [])):
            paths += 1
            if isinstance(v, E.Raise):
                r.oblige(s, 'safety(%s)/p%d' % (v.exc.split(':')[0], pi), z3.BoolVal(False), v.where)
                continue
            r.oblige(s, 'expired-iff-an-expiry-other-than-the-creation-instant-is-stated-and-lies-in-the-past/p%d' % pi,
                     ex.truth(v, s) == z3.And(z3.Not(never), AT != SC, AT < NOW))
        res = r.result()
        obls += res['obligations']
        funcs += res['funcs']
        # --- PGPSignature.expires_at: creation time + the stated lifetime (first expiration subpacket), None without one
        r = scn.Run(repo, SIGC, 'expires_at', label + '[signature expires_at]')
        ex, st = r.ex, r.st
        LIFE = z3.Int('lifetime')
        hasexp = z3.Bool('has_a_signature_expiration_subpacket')
        r.set('sig', '_signature', E.VObj('pgpy.packet.packets.SignatureV4', 'spkt'))
        r.set('spkt', 'subpackets', E.VObj('pgpy.packet.fields.SubPackets', 'subp'))
        r.hook(SIGC, 'created', scn.const(E.VInt(SC)))
        SPX = 'pgpy.packet.subpackets.signature.SignatureExpirationTime'
        r.hook('pgpy.packet.fields.SubPackets', '__contains__', scn.method_hook(
            lambda ex, st, o, a: [(st, E.VBool(z3.And(hasexp, z3.BoolVal(isinstance(a[0], E.VStr) and a[0].s == 'SignatureExpirationTime'))))]))
        r.hook('pgpy.packet.fields.SubPackets', '__getitem__', scn.method_hook(
            lambda ex, st, o, a: [(st, ex.new_list(st, [E.VObj(SPX, 'exp-first'), E.VObj(SPX, 'exp-second')]))] if isinstance(a[0], E.VStr) and a[0].s == 'SignatureExpirationTime'
            else [(st, E.Raise('KeyError', 0))]))
        r.hook(SPX, 'expires', lambda ex, st, o, a: [(st, E.VInt(LIFE if o.ref == 'exp-first' else LIFE + 1))])
        for pi, (s, v) in enumerate(r.call(E.VObj(SIGC, 'sig'), [])):
            paths += 1
            if isinstance(v, E.Raise):
                r.oblige(s, 'safety(%s)/p%d' % (v.exc.split(':')[0], pi), z3.BoolVal(False), v.where)
                continue
            if isinstance(v, E.VNone):
                r.oblige(s, 'none-only-without-an-expiration-subpacket/p%d' % pi, z3.Not(hasexp))
            else:
                r.oblige(s, 'creation-time-plus-the-lifetime-of-the-first-expiration-subpacket/p%d' % pi,
                         z3.And(hasexp, ex.as_int(v) == SC + LIFE) if isinstance(v, (E.VInt, E.VBool)) else z3.BoolVal(False))
        res = r.result()
        obls += res['obligations']
        funcs += res['funcs']
        return {'obligations': obls, 'funcs': funcs, 'paths': paths}
    return Scenario(label, KEYC + '.is_expired', gen, props=('C17', 'C15'))

SCENARIOS += [expiry()]



def self_verified_condition():
    """PGPKey.self_verified is where check_management takes the 'no valid self-signature' condition from (the property lists it among the
    disqualifying ones). Stated from the property, over what the function can see of the key (identities and their self-signatures, the
    key's own direct signatures, and PGPKey.verify as a callee with a stated contract): a key none of whose identities carries a
    self-signature - in particular a key without identities - reports NoSelfSignature or Invalid; the answer never contains an issue of
    another kind. On the pinned tree the function is a stub that answers OK without looking (finding D41)."""
    label = 'C17/PGPKey.self_verified'
    KEYC, SIGC, UIDC = 'pgpy.pgp.PGPKey', 'pgpy.pgp.PGPSignature', 'pgpy.pgp.PGPUID'

    def gen(repo):
        obls, funcs, paths = [], [], 0
        mem = repo.enum_members(SI)
        NOSELF, INVALID = mem['NoSelfSignature'], mem['Invalid']
        for shape in ('key without identities', 'identities without a self-signature', 'identity whose self-signature does not verify'):
            r = scn.Run(repo, KEYC, 'self_verified', '%s[%s]' % (label, shape))
            ex, st = r.ex, r.st
            me = E.VObj(KEYC, 'key')
            r.hook(KEYC, 'is_primary', scn.const(E.VBool(True)))
            u0, u1 = E.VObj(UIDC, 'uid0'), E.VObj(UIDC, 'uid1')
            ids = [] if shape == 'key without identities' else [u0, u1]
            r.hook(KEYC, 'userids', lambda ex, st, o, a: [(st, ex.new_list(st, ids))])
            r.hook(KEYC, 'userattributes', lambda ex, st, o, a: [(st, ex.new_list(st, []))])
            r.set('key', '_uids', ex.new_list(st, ids))
            r.set('key', '_signatures', ex.new_list(st, []))
            r.hook(KEYC, 'self_signatures', lambda ex, st, o, a: [(st, ex.new_list(st, []))])
            s0 = E.VObj(SIGC, 'selfsig0')
            r.hook(UIDC, 'selfsig', lambda ex, st, o, a: [(st, s0 if (shape.endswith('does not verify') and o.ref == 'uid0') else E.VNone())])
            r.hook(UIDC, 'self_signatures', lambda ex, st, o, a: [(st, ex.new_list(st, [s0] if (shape.endswith('does not verify') and o.ref == 'uid0') else []))])
            r.hook(KEYC, 'verify', scn.method_hook(lambda ex, st, o, a: [(st, E.VObj('abstract:Verdict', 'verdict'))]))
            r.hook('abstract:Verdict', '__bool__', scn.method_hook(lambda ex, st, o, a: [(st, E.VBool(False))]))
            for pi, (s, v) in enumerate(r.call(me, [])):
                paths += 1
                if isinstance(v, E.Raise):
                    r.oblige(s, 'safety(%s)/p%d' % (v.exc.split(':')[0], pi), z3.BoolVal(False), v.where)
                    continue
                res = ex_int(v)
                r.oblige(s, 'no-valid-self-signature=>NoSelfSignature-or-Invalid-is-reported/p%d' % pi, z3.Or(bits_or(res, z3.IntVal(NOSELF)) == res, bits_or(res, z3.IntVal(INVALID)) == res))
                r.oblige(s, 'reports-nothing-but-NoSelfSignature-and-Invalid/p%d' % pi, bits_or(res, z3.IntVal(NOSELF | INVALID)) == (NOSELF | INVALID))
            res_ = r.result()
            obls += res_['obligations']
            funcs += res_['funcs']
        return {'obligations': obls, 'funcs': funcs, 'paths': paths}
    return Scenario(label, KEYC + '.self_verified', gen, props=('C17',))


SCENARIOS += [self_verified_condition()]


def literal_contents(fmt):
    """LiteralData.contents: what a signed literal message offers to verify() as its signed data. The hash input of a document signature is
    the octets of this value (hashdata: a str is encoded, octets are taken as they are), so the value must determine the packet's octets: for
    format 'u' a str whose UTF-8 octets are exactly the packet's, or an error; for 't' one code point per octet; otherwise the octets
    themselves. A lossy conversion (replacement characters, dropped octets) would let octets nobody signed verify."""
    label = 'C01/LiteralData.contents[format %r]' % fmt
    LIT = 'pgpy.packet.packets.LiteralData'

    def gen(repo):
        r = scn.Run(repo, LIT, 'contents', label)
        ex, st = r.ex, r.st
        DATA = z3.Const('LITERAL_OCTETS', E.BYTES)
        me = E.VObj(LIT, 'pkt')
        r.set('pkt', 'format', E.VStr(s=fmt))
        buf = ex.new_buf(st, DATA)
        r.set('pkt', '_contents', buf)
        nval = 0
        for pi, (s, v) in enumerate(r.call(me, [])):
            if isinstance(v, E.Raise):
                r.oblige(s, 'refusal-only-for-text-that-is-not-utf-8,as-an-error/p%d' % pi,
                         z3.BoolVal(fmt == 'u' and v.exc.split(':')[0] in ('UnicodeDecodeError', 'ValueError')), v.where)
                continue
            nval += 1
            r.oblige(s, 'packet-octets-untouched/p%d' % pi, s.heap[buf.cell] == DATA)
            if fmt in ('u', 't'):
                r.oblige(s, 'text/p%d' % pi, z3.BoolVal(isinstance(v, E.VStr)))
                if not isinstance(v, E.VStr):
                    continue
                if fmt == 't':
                    r.oblige(s, 'one-code-point-per-octet/p%d' % pi, z3.And(z3.BoolVal(bool(getattr(v, 'cp', False))), v.z == DATA))
                else:
                    # a str that is not a code-point sequence is represented by its UTF-8 octets (DESIGN A8)
                    r.oblige(s, 'the-utf-8-octets-of-the-text-are-exactly-the-packet-octets/p%d' % pi,
                             z3.And(z3.BoolVal(not getattr(v, 'cp', False) and v.z is not None), v.z == DATA) if v.z is not None else z3.BoolVal(False))
            else:
                r.oblige(s, 'the-octets-themselves/p%d' % pi, ex.seq(v, s) == DATA)
        r.oblige(st, 'cover-a-value', z3.BoolVal(nval > 0))
        return r.result()
    return Scenario(label, LIT + '.contents', gen, props=('C01', 'C20', 'C17'))


def message_signed_data(kind):
    """PGPMessage.message: the subject verify() takes from a message object: the literal packet's contents, the cleartext as text whose
    UTF-8 octets are the stored ones, the encrypted container itself"""
    label = 'C01/PGPMessage.message[%s]' % kind
    MSGC, LIT = 'pgpy.pgp.PGPMessage', 'pgpy.packet.packets.LiteralData'

    def gen(repo):
        r = scn.Run(repo, MSGC, 'message', label)
        ex, st = r.ex, r.st
        me = E.VObj(MSGC, 'msg')
        r.hook(MSGC, 'type', scn.const(E.VStr(s=kind)))
        TEXT = z3.Const('CLEARTEXT_UTF8', E.BYTES)
        contents = E.VBytes(z3.Const('LITERAL_CONTENTS', E.BYTES))
        if kind == 'literal':
            body = E.VObj(LIT, 'lit')
            r.hook(LIT, 'contents', scn.const(contents))
        elif kind == 'encrypted':
            body = E.VObj('pgpy.packet.packets.IntegrityProtectedSKEDataV1', 'seipd')
        elif kind == 'cleartext (octets)':
            r.hook(MSGC, 'type', scn.const(E.VStr(s='cleartext')))
            body = ex.new_buf(st, TEXT)
        else:
            body = E.VStr(z=TEXT)
        r.set('msg', '_message', body)
        for pi, (s, v) in enumerate(r.call(me, [])):
            if isinstance(v, E.Raise):
                r.oblige(s, 'refusal-only-for-stored-octets-that-are-not-utf-8,as-an-error/p%d' % pi,
                         z3.BoolVal(kind == 'cleartext (octets)' and v.exc.split(':')[0] in ('UnicodeDecodeError', 'ValueError')), v.where)
                continue
            if kind == 'literal':
                r.oblige(s, 'the-contents-of-the-literal-packet/p%d' % pi, z3.BoolVal(v is contents))
            elif kind == 'encrypted':
                r.oblige(s, 'the-container-itself/p%d' % pi, z3.BoolVal(v is body))
            else:
                r.oblige(s, 'the-text-whose-utf-8-octets-are-the-stored-ones/p%d' % pi,
                         z3.And(z3.BoolVal(isinstance(v, E.VStr) and v.z is not None and not getattr(v, 'cp', False)), v.z == TEXT)
                         if isinstance(v, E.VStr) and v.z is not None else z3.BoolVal(False))
        return r.result()
    return Scenario(label, MSGC + '.message', gen, props=('C01', 'C20', 'C11', 'C17'))


SCENARIOS += [literal_contents(f) for f in ('u', 't', 'b', 'm')] + [message_signed_data(k) for k in ('literal', 'encrypted', 'cleartext', 'cleartext (octets)')]
