"""C07: the public counterpart carries no secret material (PrivKeyV4.pubkey)."""
import z3
from pyvc import scn, engine as E
from pyvc.runner import Scenario

PUBF = {1: ('RSA', ('n', 'e'), ('d', 'p', 'q', 'u')), 17: ('DSA', ('p', 'q', 'g', 'y'), ('x',)), 16: ('ElG', ('p', 'g', 'y'), ('x',)),
        19: ('ECDSA', ('p',), ('s',)), 22: ('EdDSA', ('p',), ('s',)), 18: ('ECDH', ('p',), ('s',))}


def privkey_pubkey(alg, sub):
    name, pubs, privs = PUBF[alg]
    label = 'C07/PrivKeyV4.pubkey[%s%s]' % (name, ',subkey' if sub else '')
    cls = 'pgpy.packet.packets.PrivSubKeyV4' if sub else 'pgpy.packet.packets.PrivKeyV4'

    def gen(repo):
        r = scn.Run(repo, cls, 'pubkey', label)
        ex, st = r.ex, r.st
        me = E.VObj(cls, 'secret')
        km = E.VObj('pgpy.packet.fields.%sPriv' % name, 'skm')
        r.set('secret', 'keymaterial', km)
        r.set('secret', '_pkalg', E.VInt(alg, enum='pgpy.constants.PubKeyAlgorithm'))
        created = E.VExt('datetime', ())
        r.set('secret', '_created', created)
        vals = {}
        for f in pubs:
            vals[f] = z3.Int('PUBLIC_' + f)
            r.set('skm', f, E.VInt(vals[f], enum='pgpy.packet.types.MPI'))
        for f in privs:
            r.set('skm', f, E.VInt(z3.Int('SECRET_' + f), enum='pgpy.packet.types.MPI'))
        OID, KDF = E.VExt('curve-oid', ()), E.VObj('pgpy.packet.fields.ECKDF', 'kdf')
        r.set('skm', 'oid', OID)
        r.set('skm', 'kdf', KDF)
        r.set('skm', 's2k', E.VObj('pgpy.packet.fields.String2Key', 's2k'))
        r.set('skm', 'encbytes', ex.new_buf(st, z3.Const('ENCBYTES', E.BYTES)))
        r.set('skm', 'chksum', ex.new_buf(st, z3.Const('CHKSUM', E.BYTES)))
        KDFCOPY = E.VObj('pgpy.packet.fields.ECKDF', 'kdfcopy')
        # the KDF parameters stored in the secret key (any values), their copy, and what the curve table would give by default (other symbols)
        KH, KC, DH, DC = z3.Ints('kdf_hash_of_this_key kdf_cipher_of_this_key default_kdf_hash_of_the_curve default_kek_cipher_of_the_curve')
        HAV = sorted(set(repo.enum_members('pgpy.constants.HashAlgorithm').values()))
        SAV = sorted(set(repo.enum_members('pgpy.constants.SymmetricKeyAlgorithm').values()))
        st.pc += [z3.Or(*[x == v for v in HAV]) for x in (KH, DH)] + [z3.Or(*[x == v for v in SAV]) for x in (KC, DC)]      # ids of the enumerations
        for ref in ('kdf', 'kdfcopy'):
            r.set(ref, '_halg', E.VInt(KH, enum='pgpy.constants.HashAlgorithm'))
            r.set(ref, '_encalg', E.VInt(KC, enum='pgpy.constants.SymmetricKeyAlgorithm'))
        r.hook('pgpy.packet.fields.ECKDF', '__copy__', scn.mconst(KDFCOPY))
        for attr, val, enum in (('kdf_halg', DH, 'pgpy.constants.HashAlgorithm'), ('kek_alg', DC, 'pgpy.constants.SymmetricKeyAlgorithm')):
            h = (lambda val, enum: lambda ex, st, o, a: [(st, E.VInt(val, enum=enum))])(val, enum)
            h.is_method = False
            ex.hooks[('ext:curve-oid', attr)] = h
        r.hook('pgpy.packet.fields.ECKDF', '__call__', lambda ex, st, c, a: [(st, E.VObj('pgpy.packet.fields.ECKDF', E.fresh('kdf')))])
        # packet framework: the public packet gets the header its own constructor makes (new format, tag 6 / 14: C09); the header of the
        # SECRET packet - any format, tag 5 / 7 - is not carried over, neither the object nor a copy of it
        HDRC = 'pgpy.packet.types.Header'
        r.set('secret', 'header', E.VObj(HDRC, 'header-of-the-secret-packet'))
        r.hook(HDRC, '__copy__', scn.method_hook(lambda ex, st, o, a: [(st, E.VObj(HDRC, 'copy-of-' + str(o.ref)))]))
        for hattr in ('_tag', '_lenfmt', '_len', '_llen'):
            for hobj in ('copy-of-header-of-the-secret-packet', 'header-of-the-secret-packet'):
                r.set(hobj, hattr, E.VInt(z3.Int('secret_header_' + hattr.strip('_'))))
        r.hook('pgpy.packet.types.VersionedPacket', '__init__', scn.mconst(E.VNone()))
        r.hook('pgpy.packet.types.Packet', '__init__', scn.mconst(E.VNone()))
        r.hook('pgpy.packet.types.Packet', 'update_hlen', scn.mconst(E.VNone()))
        r.hook('pgpy.packet.types.VersionedPacket', 'update_hlen', scn.mconst(E.VNone()))
        r.ex.hooks[('ext', 'datetime.now')] = lambda ex, st, o, a: [(st, E.VExt('datetime.now()', ()))]
        for pi, (s, v) in enumerate(r.call(me, [])):
            if isinstance(v, E.Raise):
                r.oblige(s, 'safety(%s)/p%d' % (v.exc.split(':')[0], pi), z3.BoolVal(False), v.where)
                continue
            want_cls = 'pgpy.packet.packets.PubSubKeyV4' if sub else 'pgpy.packet.packets.PubKeyV4'
            ok = isinstance(v, E.VObj) and v.cls == want_cls
            r.oblige(s, 'is-a-public-%skey-packet/p%d' % ('sub' if sub else '', pi), z3.BoolVal(ok))
            if not ok:
                continue
            hv = s.heap.get((v.ref, 'header'))
            r.oblige(s, 'header-is-the-public-packet\'s-own(not-the-secret-packet\'s,nor-a-copy-of-it)/p%d' % pi,
                     z3.BoolVal(not (isinstance(hv, E.VObj) and 'header-of-the-secret-packet' in str(hv.ref))))
            pkm = s.heap.get((v.ref, 'keymaterial'))
            okm = isinstance(pkm, E.VObj) and pkm.cls == 'pgpy.packet.fields.%sPub' % name
            r.oblige(s, 'material-is-the-public-class-of-the-algorithm/p%d' % pi, z3.BoolVal(bool(okm)))
            r.oblige(s, 'same-creation-time-and-algorithm/p%d' % pi,
                     z3.And(z3.BoolVal(s.heap.get((v.ref, '_created')) is created), ex.as_int(s.heap.get((v.ref, '_pkalg'))) == alg))
            if not okm:
                continue
            for f in pubs:
                fv = s.heap.get((pkm.ref, f))
                r.oblige(s, 'public-field-copied(%s)/p%d' % (f, pi), z3.And(z3.BoolVal(isinstance(fv, E.VInt)), ex.as_int(fv) == vals[f] if isinstance(fv, E.VInt) else z3.BoolVal(False)))
            fields = sorted(k[1] for k in s.heap if isinstance(k, tuple) and k[0] == pkm.ref)
            allowed = set(pubs) | {'oid', 'kdf'}
            r.oblige(s, 'no-other-field-than-the-public-ones(%s)/p%d' % (','.join(fields), pi), z3.BoolVal(set(fields) <= allowed))
            # non-interference: no value stored in the public material mentions a secret symbol
            import re as _re
            leak = False
            for f in fields:
                fv = s.heap.get((pkm.ref, f))
                if isinstance(fv, E.VInt) and 'SECRET_' in str(fv.z):
                    leak = True
                if isinstance(fv, (E.VBuf, E.VBytes)) and any(t in str(ex.seq(fv, s)) for t in ('ENCBYTES', 'CHKSUM', 'SECRET_')):
                    leak = True
            r.oblige(s, 'no-secret-symbol-flows-into-the-public-material/p%d' % pi, z3.BoolVal(not leak))
            if alg in (19, 22, 18):
                r.oblige(s, 'curve-kept/p%d' % pi, z3.BoolVal(s.heap.get((pkm.ref, 'oid')) is OID))
            if alg == 18:
                tk = s.heap.get((pkm.ref, 'kdf'))
                ref = ('sym:' + str(z3.simplify(tk.ref))) if isinstance(tk, E.VObj) and z3.is_expr(tk.ref) else getattr(tk, 'ref', None)
                th, tc = s.heap.get((ref, '_halg')), s.heap.get((ref, '_encalg'))
                okk = isinstance(tk, E.VObj) and ref != 'kdf' and isinstance(th, E.VInt) and isinstance(tc, E.VInt)
                r.oblige(s, 'kdf-parameters-are-those-of-this-key(its-own-object,same-hash-and-cipher)/p%d' % pi,
                         z3.And(z3.BoolVal(bool(okk)), z3.And(th.z == KH, tc.z == KC) if okk else z3.BoolVal(False)))
        return r.result()
    return Scenario(label, cls + '.pubkey', gen, props=('C07', 'C18'))


def privkey_pubkey_opaque(sub):
    """an algorithm PGPy loads but does not implement (X9.42 DH, id 21): the secret key packet keeps ALL its material as one octet string (public
    and secret integers together), so nothing of that string may reach the public packet derived from it"""
    label = 'C07/PrivKeyV4.pubkey[unimplemented algorithm%s]' % (',subkey' if sub else '')
    cls = 'pgpy.packet.packets.PrivSubKeyV4' if sub else 'pgpy.packet.packets.PrivKeyV4'

    def gen(repo):
        r = scn.Run(repo, cls, 'pubkey', label)
        ex, st = r.ex, r.st
        me = E.VObj(cls, 'secret')
        km = E.VObj('pgpy.packet.fields.OpaquePrivKey', 'skm')
        r.set('secret', 'keymaterial', km)
        r.set('secret', '_pkalg', E.VInt(21, enum='pgpy.constants.PubKeyAlgorithm'))
        created = E.VExt('datetime', ())
        r.set('secret', '_created', created)
        RAW = z3.Const('SECRET_RAW_MATERIAL_OCTETS', E.BYTES)
        r.set('skm', 'data', ex.new_buf(st, RAW))
        r.set('skm', 's2k', E.VObj('pgpy.packet.fields.String2Key', 's2k'))
        r.set('skm', 'encbytes', ex.new_buf(st, z3.Const('SECRET_ENCBYTES', E.BYTES)))
        r.set('skm', 'chksum', ex.new_buf(st, z3.Const('SECRET_CHKSUM', E.BYTES)))
        # packet framework: the public packet gets the header its own constructor makes (new format, tag 6 / 14: C09); the header of the
        # SECRET packet - any format, tag 5 / 7 - is not carried over, neither the object nor a copy of it
        HDRC = 'pgpy.packet.types.Header'
        r.set('secret', 'header', E.VObj(HDRC, 'header-of-the-secret-packet'))
        r.hook(HDRC, '__copy__', scn.method_hook(lambda ex, st, o, a: [(st, E.VObj(HDRC, 'copy-of-' + str(o.ref)))]))
        for hattr in ('_tag', '_lenfmt', '_len', '_llen'):
            for hobj in ('copy-of-header-of-the-secret-packet', 'header-of-the-secret-packet'):
                r.set(hobj, hattr, E.VInt(z3.Int('secret_header_' + hattr.strip('_'))))
        r.hook('pgpy.packet.types.VersionedPacket', '__init__', scn.mconst(E.VNone()))
        r.hook('pgpy.packet.types.Packet', '__init__', scn.mconst(E.VNone()))
        r.hook('pgpy.packet.types.Packet', 'update_hlen', scn.mconst(E.VNone()))
        r.hook('pgpy.packet.types.VersionedPacket', 'update_hlen', scn.mconst(E.VNone()))
        for pi, (s, v) in enumerate(r.call(me, [])):
            if isinstance(v, E.Raise):
                r.oblige(s, 'safety(%s)/p%d' % (v.exc.split(':')[0], pi), z3.BoolVal(False), v.where)
                continue
            want_cls = 'pgpy.packet.packets.PubSubKeyV4' if sub else 'pgpy.packet.packets.PubKeyV4'
            ok = isinstance(v, E.VObj) and v.cls == want_cls
            r.oblige(s, 'is-a-public-%skey-packet/p%d' % ('sub' if sub else '', pi), z3.BoolVal(ok))
            if not ok:
                continue
            hv = s.heap.get((v.ref, 'header'))
            r.oblige(s, 'header-is-the-public-packet\'s-own(not-the-secret-packet\'s,nor-a-copy-of-it)/p%d' % pi,
                     z3.BoolVal(not (isinstance(hv, E.VObj) and 'header-of-the-secret-packet' in str(hv.ref))))
            pkm = s.heap.get((v.ref, 'keymaterial'))
            okm = isinstance(pkm, E.VObj) and pkm.cls == 'pgpy.packet.fields.OpaquePubKey'
            r.oblige(s, 'material-is-the-opaque-public-class/p%d' % pi, z3.BoolVal(bool(okm)))
            if not okm:
                continue
            ref = ('sym:' + str(z3.simplify(pkm.ref))) if z3.is_expr(pkm.ref) else pkm.ref
            leak = []
            for k, fv in s.heap.items():
                if isinstance(k, tuple) and len(k) == 2 and k[0] == ref:
                    txt = str(ex.seq(fv, s)) if isinstance(fv, (E.VBuf, E.VBytes)) else str(getattr(fv, 'z', ''))
                    if 'SECRET_' in txt:
                        leak.append(k[1])
            r.oblige(s, 'no-octet-of-the-secret-packet-material-flows-into-the-public-material[%s]/p%d' % (','.join(leak), pi), z3.BoolVal(not leak))
        return r.result()
    return Scenario(label, cls + '.pubkey', gen, props=('C07', 'C18'))


def scenarios():
    out = [privkey_pubkey_opaque(False), privkey_pubkey_opaque(True)]
    for alg in PUBF:
        out.append(privkey_pubkey(alg, False))
    out.append(privkey_pubkey(1, True))
    out.append(privkey_pubkey(18, True))
    return out


def key_pubkey():
    """PGPKey.pubkey on a private key: what the derived public key is assembled from"""
    label = 'C07/PGPKey.pubkey[private key: shell, public packet, subkeys, identities, key signatures]'
    KEY, UID, SIG = 'pgpy.pgp.PGPKey', 'pgpy.pgp.PGPUID', 'pgpy.pgp.PGPSignature'

    def gen(repo):
        r = scn.Run(repo, KEY, 'pubkey', label)
        ex, st = r.ex, r.st
        me = E.VObj(KEY, 'secretkey')
        r.hook(KEY, 'is_public', lambda ex, st, o, a: [(st, E.VBool(o.ref != 'secretkey' and o.ref != 'secretsub'))])
        r.set('secretkey', '_sibling', E.VNone())
        SECPKT, PUBPKT = E.VObj('pgpy.packet.packets.PrivKeyV4', 'secret-packet'), E.VObj('pgpy.packet.packets.PubKeyV4', 'public-packet')
        r.set('secretkey', '_key', SECPKT)
        r.hook('pgpy.packet.packets.PrivKeyV4', 'pubkey', scn.mconst(PUBPKT))          # contract proved above (PrivKeyV4.pubkey)
        r.set('secretkey', 'ascii_headers', E.VDict([(E.VStr(s='Comment'), E.VStr(s='of the private key'))]))
        sub, subpub = E.VObj(KEY, 'secretsub'), E.VObj(KEY, 'public-sub')
        r.hook(KEY, 'subkeys', lambda ex, st, o, a: [(st, E.VDict([(E.VStr(s='SUBID'), sub)]) if o.ref == 'secretkey' else E.VDict([]))])
        r.hook(KEY, 'pubkey', lambda ex, st, o, a: [(st, subpub if o.ref == 'secretsub' else o)])
        uid, ua = E.VObj(UID, 'user-id'), E.VObj(UID, 'user-attribute')
        r.set('secretkey', '_uids', ex.new_list(st, [uid, ua]))
        ksig, usig = E.VObj(SIG, 'key-signature'), E.VObj(SIG, 'uid-signature')
        r.set('secretkey', '_signatures', ex.new_list(st, [ksig, usig]))
        r.hook(SIG, 'parent', lambda ex, st, o, a: [(st, E.VNone() if o.ref == 'key-signature' else uid)])
        r.hook('pgpy.types.ParentRef', 'parent', lambda ex, st, o, a: [(st, E.VNone())])
        copies = {}

        def cp(ex, st, o, a):
            c = E.VObj(o.cls, 'copy-of-' + str(o.ref))           # contract of __copy__: a new object of the same class (contents: C14)
            copies[c.ref] = o
            return [(st, c)]
        r.hook(UID, '__copy__', scn.method_hook(cp))
        r.hook(SIG, '__copy__', scn.method_hook(cp))
        r.hook(KEY, '__call__', lambda ex, st, c, a: [(st, E.VObj(KEY, 'pub'))])

        def ior(ex, st, o, a):
            st.ghost['attached'] = st.ghost.get('attached', ()) + ((o.ref, a[0]),)
            return [(st, o)]
        r.hook(KEY, '__or__', scn.method_hook(ior))
        r.hook(KEY, '__ior__', scn.method_hook(ior))
        for pi, (s, v) in enumerate(r.call(me, [])):
            if isinstance(v, E.Raise):
                r.oblige(s, 'safety(%s)/p%d' % (v.exc.split(':')[0], pi), z3.BoolVal(False), v.where)
                continue
            r.oblige(s, 'returns-the-new-public-key/p%d' % pi, z3.BoolVal(isinstance(v, E.VObj) and v.ref == 'pub'))
            r.oblige(s, 'its-packet-is-the-public-half-of-this-key-packet/p%d' % pi, z3.BoolVal(s.heap.get(('pub', '_key')) is PUBPKT))
            att = [x for tgt, x in s.ghost.get('attached', ()) if tgt == 'pub']
            refs = [str(x.ref) for x in att if isinstance(x, E.VObj)]
            r.oblige(s, 'attached:public-half-of-every-subkey,then-a-copy-of-EVERY-identity(user-ids-and-attributes),then-copies-of-the-key-signatures/p%d' % pi,
                     z3.BoolVal(refs == ['public-sub', 'copy-of-user-id', 'copy-of-user-attribute', 'copy-of-key-signature']))
            r.oblige(s, 'no-secret-object-is-attached/p%d' % pi, z3.BoolVal(not any(x is sub or x is SECPKT or x is me for x in att)))
            hd_s, hd_p = s.heap.get(('secretkey', 'ascii_headers')), s.heap.get(('pub', 'ascii_headers'))
            r.oblige(s, 'the-armor-headers-of-the-new-key-are-a-COPY(an-object-of-its-own,same-entries)/p%d' % pi,
                     z3.BoolVal(isinstance(hd_p, E.VDict) and isinstance(hd_s, E.VDict) and hd_p is not hd_s and hd_p.cell != hd_s.cell
                                and [(k.s, v.s) for k, v in hd_p.of(s)] == [(k.s, v.s) for k, v in hd_s.of(s)]))
            sib, back = s.heap.get(('secretkey', '_sibling')), s.heap.get(('pub', '_sibling'))
            r.oblige(s, 'the-halves-reference-each-other/p%d' % pi,
                     z3.BoolVal(isinstance(sib, E.VExt) and sib.name == 'weakref.ref' and sib.args[0] is v and isinstance(back, E.VExt) and back.args[0] is me))
        return r.result()
    return Scenario(label, KEY + '.pubkey', gen, props=('C07', 'C14', 'C18'))


_base_scn_p = scenarios


def scenarios():
    return _base_scn_p() + [key_pubkey()]
