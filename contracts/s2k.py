"""C12: String2Key.derive_key against RFC 4880 3.7.1 (scenario per specifier x digest size x key size)."""
import hashlib, random
import z3
from pyvc import scn, engine as E, lower
from pyvc.runner import Scenario
from pyvc.scn import U, cat

SPEC = {'Simple': 0, 'Salted': 1, 'Iterated': 3}
HASHES = {'MD5': 1, 'SHA1': 2, 'RIPEMD160': 3, 'SHA256': 8, 'SHA384': 9, 'SHA512': 10, 'SHA224': 11}
CIPH = {'CAST5': (3, 128), 'TripleDES': (2, 192), 'AES256': (9, 256)}


def derive(specname, hname, cname, pass_kind):
    label = 'C12/String2Key.derive_key[%s,%s,%s,%s]' % (specname, hname, cname, pass_kind)

    def gen(repo):
        r = scn.Run(repo, 'pgpy.packet.fields.String2Key', 'derive_key', label)
        ex, st = r.ex, r.st
        o = E.VObj('pgpy.packet.fields.String2Key', 's2k')
        c = z3.Int('c')
        salt = z3.Const('salt', E.BYTES)
        pw = z3.Const('pw', E.BYTES)        # the passphrase octets (UTF-8 encoding when a str is given)
        st.pc += [c >= 0, c <= 255, z3.Length(salt) == 8]
        r.set('s2k', '_specifier', E.VInt(SPEC[specname], enum='pgpy.constants.String2KeyType'))
        r.set('s2k', '_halg', E.VInt(HASHES[hname], enum='pgpy.constants.HashAlgorithm'))
        r.set('s2k', '_encalg', E.VInt(CIPH[cname][0], enum='pgpy.constants.SymmetricKeyAlgorithm'))
        r.set('s2k', '_count', E.VInt(c))
        r.set('s2k', 'salt', ex.new_buf(st, salt))
        arg = E.VBytes(pw) if pass_kind == 'bytes' else E.VStr(z=pw)
        outs = r.call(o, [arg])
        hs = hashlib.new(hname).digest_size
        kb = CIPH[cname][1] // 8
        nctx = -(-kb // hs)
        for pi, (s, v) in enumerate(outs):
            if isinstance(v, E.Raise):
                r.oblige(s, 'safety(%s)/p%d' % (v.exc.split(':')[0], pi), z3.BoolVal(False), v.where)
                continue
            hashed = s.ghost.get('hashed', [])
            r.oblige(s, 'contexts/p%d' % pi, z3.BoolVal(len(hashed) == nctx))
            X = z3.Concat(salt, pw) if specname != 'Simple' else pw
            L = z3.Length(X)
            cnt = z3.IntVal(0)
            for k in range(16):
                cnt = z3.If(c / 16 == k, (16 + (c % 16)) * 2 ** (k + 6), cnt)
            N = z3.If(cnt > L, cnt, L) if specname == 'Iterated' else L
            digests = []
            for i, (alg, inp, dig) in enumerate(hashed):
                zeros = z3.Empty(E.BYTES) if i == 0 else cat(*[U(0)] * i)
                data = z3.Extract(inp, i, z3.Length(inp) - i)
                r.oblige(s, 'ctx%d-hash-is-%s/p%d' % (i, hname, pi), z3.BoolVal(alg.lower() == hname.lower()))
                r.oblige(s, 'ctx%d-preload-%d-zero-octets/p%d' % (i, i, pi), z3.Extract(inp, 0, i) == zeros)
                r.oblige(s, 'ctx%d-stream-length/p%d' % (i, pi), z3.Length(data) == N)
                j = z3.Int('j')
                inst = []
                for (R, XX, k) in s.ghost.get('repeats', []):
                    inst.append(z3.Implies(z3.And(0 <= j, j < z3.Length(R)), R[j] == XX[j % z3.Length(XX)]))
                hy, gl, dropped = lower.lower_obligation(list(s.facts) + list(s.pc) + inst + [0 <= j, j < N], data[j] == X[j % L])
                r.obls.append(('%s/ctx%d-stream-octet-j-is-material[j mod L]/p%d' % (label, i, pi), hy, gl, None))
                digests.append(dig)
            if hashed:
                full = digests[0] if len(digests) == 1 else z3.Concat(*digests)
                r.oblige(s, 'key-is-truncated-digest-concatenation/p%d' % pi, ex.seq(v, s) == z3.Extract(full, 0, kb))
        return r.result()

    def native(rng, n):
        import pgpy
        from pgpy.packet.fields import String2Key
        from pgpy.constants import String2KeyType, HashAlgorithm, SymmetricKeyAlgorithm
        from specs import s2k as spec
        viol = []
        cases = 0
        lens = [0, 1, 2, 7, 8, 9, 55, 56, 63, 64, 65, 100, 1000, 3000, 70000]
        for t in range(max(20, n // 10)):
            k = String2Key()
            k.specifier = String2KeyType(SPEC[specname])
            k.halg = HashAlgorithm(HASHES[hname])
            k.encalg = SymmetricKeyAlgorithm(CIPH[cname][0])
            saltv = bytes(rng.randrange(256) for _ in range(8))
            k.salt = bytearray(saltv)
            cc = rng.choice([0, 1, 15, 16, 96, 255, rng.randrange(256)])
            k.count = cc
            L = lens[t % len(lens)] if t < 2 * len(lens) else rng.randrange(0, 200)
            if cc > 150 and t % 3:
                cc = k.count = rng.randrange(0, 100)
            if pass_kind == 'bytes':
                pwv = bytes(rng.randrange(256) for _ in range(L))
                arg = pwv
            else:
                # code points incl. ones that are not in any Unicode normal form (combining accent after a base letter, ANGSTROM SIGN,
                # conjoining jamo, a compatibility ligature): the octets hashed are the UTF-8 encoding of the string as given
                arg = ''.join(rng.choice(['a', 'Z', ' ', 'é', '中', '\U0001F600', 'e\u0301', '\u212b', '\u1100\u1161', '\ufb01', '\u00a0'])
                              for _ in range(min(L, 300)))
                pwv = arg.encode('utf-8')
            cases += 1
            try:
                got = bytes(k.derive_key(arg))
            except Exception as e:
                viol.append({'args': {'salt': saltv.hex(), 'count': cc, 'passphrase': pwv.hex()}, 'violation': 'exception %r' % (e,)})
                break
            want = spec.derive(SPEC[specname], hname, CIPH[cname][1], saltv, cc, pwv)
            if got != want:
                viol.append({'args': {'salt': saltv.hex(), 'count': cc, 'passphrase': pwv.hex()[:200]}, 'violation': 'key differs from RFC 4880 3.7.1',
                             'got': got.hex(), 'want': want.hex()})
                break
        return {'cases': cases, 'violations': viol}
    return Scenario(label, 'pgpy.packet.fields.String2Key.derive_key', gen, props=('C12',), native=native)


def scenarios(tier='quick'):
    out = []
    for specname in SPEC:
        for hname in HASHES:
            for cname in CIPH:
                # the configuration product is concrete (enum tables are read from the AST); salt, passphrase, count symbolic
                out.append(derive(specname, hname, cname, 'bytes'))
        out.append(derive(specname, 'SHA256', 'AES256', 'str'))
        out.append(derive(specname, 'SHA1', 'CAST5', 'str'))
    return out
