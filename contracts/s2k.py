"""C12: String2Key.derive_key against RFC 4880 3.7.1 (scenario per specifier x digest size x key size)."""
import hashlib, random
import z3
from pyvc import scn, engine as E, lower
from pyvc.runner import Scenario
from pyvc.scn import U, cat

SPEC = {'Simple': 0, 'Salted': 1, 'Iterated': 3}
HASHES = {'MD5': 1, 'SHA1': 2, 'RIPEMD160': 3, 'SHA256': 8, 'SHA384': 9, 'SHA512': 10, 'SHA224': 11}
CIPH = {'CAST5': (3, 128), 'TripleDES': (2, 192), 'AES256': (9, 256)}


def derive(specname, hname, cname, pass_kind):
    label = 'C12/String2Key.derive_key[%s,%s,%s,%s]' % (specname, hname, cname, pass_kind)

    def gen(repo):
        r = scn.Run(repo, 'pgpy.packet.fields.String2Key', 'derive_key', label)
        ex, st = r.ex, r.st
        o = E.VObj('pgpy.packet.fields.String2Key', 's2k')
        c = z3.Int('c')
        salt = z3.Const('salt', E.BYTES)
        pw = z3.Const('pw', E.BYTES)        # the passphrase octets (UTF-8 encoding when a str is given)
        st.pc += [c >= 0, c <= 255, z3.Length(salt) == 8]
        r.set('s2k', '_specifier', E.VInt(SPEC[specname], enum='pgpy.constants.String2KeyType'))
        r.set('s2k', '_halg', E.VInt(HASHES[hname], enum='pgpy.constants.HashAlgorithm'))
        r.set('s2k', '_encalg', E.VInt(CIPH[cname][0], enum='pgpy.constants.SymmetricKeyAlgorithm'))
        r.set('s2k', '_count', E.VInt(c))
        r.set('s2k', 'salt', ex.new_buf(st, salt))
        arg = E.VBytes(pw) if pass_kind == 'bytes' else E.VStr(z=pw)
        outs = r.call(o, [arg])
        hs = hashlib.new(hname).digest_size
        kb = CIPH[cname][1] // 8
        nctx = -(-kb // hs)
        for pi, (s, v) in enumerate(outs):
            if isinstance(v, E.Raise):
                r.oblige(s, 'safety(%s)/p%d' % (v.exc.split(':')[0], pi), z3.BoolVal(False), v.where)
                continue
            hashed = s.ghost.get('hashed', [])
            r.oblige(s, 'contexts/p%d' % pi, z3.BoolVal(len(hashed) == nctx))
            X = z3.Concat(salt, pw) if specname != 'Simple' else pw
            L = z3.Length(X)
            cnt = z3.IntVal(0)
            for k in range(16):
                cnt = z3.If(c / 16 == k, (16 + (c % 16)) * 2 ** (k + 6), cnt)
            N = z3.If(cnt > L, cnt, L) if specname == 'Iterated' else L
            digests = []
            for i, (alg, inp, dig) in enumerate(hashed):
                zeros = z3.Empty(E.BYTES) if i == 0 else cat(*[U(0)] * i)
                data = z3.Extract(inp, i, z3.Length(inp) - i)
                r.oblige(s, 'ctx%d-hash-is-%s/p%d' % (i, hname, pi), z3.BoolVal(alg.lower() == hname.lower()))
                r.oblige(s, 'ctx%d-preload-%d-zero-octets/p%d' % (i, i, pi), z3.Extract(inp, 0, i) == zeros)
                r.oblige(s, 'ctx%d-stream-length/p%d' % (i, pi), z3.Length(data) == N)
                j = z3.Int('j')
                inst = []
                for (R, XX, k) in s.ghost.get('repeats', []):
                    inst.append(z3.Implies(z3.And(0 <= j, j < z3.Length(R)), R[j] == XX[j % z3.Length(XX)]))
                hy, gl, dropped = lower.lower_obligation(list(s.facts) + list(s.pc) + inst + [0 <= j, j < N], data[j] == X[j % L])
                r.obls.append(('%s/ctx%d-stream-octet-j-is-material[j mod L]/p%d' % (label, i, pi), hy, gl, None))
                digests.append(dig)
            if hashed:
                full = digests[0] if len(digests) == 1 else z3.Concat(*digests)
                r.oblige(s, 'key-is-truncated-digest-concatenation/p%d' % pi, ex.seq(v, s) == z3.Extract(full, 0, kb))
        return r.result()

    def native(rng, n):
        import pgpy
        from pgpy.packet.fields import String2Key
        from pgpy.constants import String2KeyType, HashAlgorithm, SymmetricKeyAlgorithm
        from specs import s2k as spec
        viol = []
        cases = 0
        lens = [0, 1, 2, 7, 8, 9, 55, 56, 63, 64, 65, 100, 1000, 3000, 70000]
        for t in range(max(20, n // 10)):
            k = String2Key()
            k.specifier = String2KeyType(SPEC[specname])
            k.halg = HashAlgorithm(HASHES[hname])
            k.encalg = SymmetricKeyAlgorithm(CIPH[cname][0])
            saltv = bytes(rng.randrange(256) for _ in range(8))
            k.salt = bytearray(saltv)
            cc = rng.choice([0, 1, 15, 16, 96, 255, rng.randrange(256)])
            k.count = cc
            L = lens[t % len(lens)] if t < 2 * len(lens) else rng.randrange(0, 200)
            if cc > 150 and t % 3:
                cc = k.count = rng.randrange(0, 100)
            if pass_kind == 'bytes':
                pwv = bytes(rng.randrange(256) for _ in range(L))
                arg = pwv
            else:
                # code points incl. ones that are not in any Unicode normal form (combining accent after a base letter, ANGSTROM SIGN,
                # conjoining jamo, a compatibility ligature): the octets hashed are the UTF-8 encoding of the string as given
                arg = ''.join(rng.choice(['a', 'Z', ' ', 'é', '中', '\U0001F600', 'e\u0301', '\u212b', '\u1100\u1161', '\ufb01', '\u00a0'])
                              for _ in range(min(L, 300)))
                pwv = arg.encode('utf-8')
            cases += 1
            try:
                got = bytes(k.derive_key(arg))
            except Exception as e:
                viol.append({'args': {'salt': saltv.hex(), 'count': cc, 'passphrase': pwv.hex()}, 'violation': 'exception %r' % (e,)})
                break
            want = spec.derive(SPEC[specname], hname, CIPH[cname][1], saltv, cc, pwv)
            if got != want:
                viol.append({'args': {'salt': saltv.hex(), 'count': cc, 'passphrase': pwv.hex()[:200]}, 'violation': 'key differs from RFC 4880 3.7.1',
                             'got': got.hex(), 'want': want.hex()})
                break
        return {'cases': cases, 'violations': viol}
    return Scenario(label, 'pgpy.packet.fields.String2Key.derive_key', gen, props=('C12',), native=native)


def scenarios(tier='quick'):
    out = []
    for specname in SPEC:
        for hname in HASHES:
            for cname in CIPH:
                # the configuration product is concrete (enum tables are read from the AST); salt, passphrase, count symbolic
                out.append(derive(specname, hname, cname, 'bytes'))
        out.append(derive(specname, 'SHA256', 'AES256', 'str'))
        out.append(derive(specname, 'SHA1', 'CAST5', 'str'))
    return out


def derive_twice(specname, hname, cname):
    """no hidden state: a second derivation on the SAME specifier object, after its salt was replaced (what protect() does when it
    re-salts in place), depends on the new salt exactly like a first one"""
    label = 'C12/String2Key.derive_key[second call after re-salting,%s,%s,%s]' % (specname, hname, cname)

    def gen(repo):
        r = scn.Run(repo, 'pgpy.packet.fields.String2Key', 'derive_key', label)
        ex, st = r.ex, r.st
        o = E.VObj('pgpy.packet.fields.String2Key', 's2k')
        c = z3.Int('c')
        salt1, salt2, pw = z3.Const('salt_first', E.BYTES), z3.Const('salt_second', E.BYTES), z3.Const('pw', E.BYTES)
        st.pc += [c >= 0, c <= 255, z3.Length(salt1) == 8, z3.Length(salt2) == 8]
        r.set('s2k', '_specifier', E.VInt(SPEC[specname], enum='pgpy.constants.String2KeyType'))
        r.set('s2k', '_halg', E.VInt(HASHES[hname], enum='pgpy.constants.HashAlgorithm'))
        r.set('s2k', '_encalg', E.VInt(CIPH[cname][0], enum='pgpy.constants.SymmetricKeyAlgorithm'))
        r.set('s2k', '_count', E.VInt(c))
        r.set('s2k', 'salt', ex.new_buf(st, salt1))
        hs = hashlib.new(hname).digest_size
        kb = CIPH[cname][1] // 8
        nctx = -(-kb // hs)
        for pi, (s, v) in enumerate(r.call(o, [E.VBytes(pw)])):
            if isinstance(v, E.Raise):
                continue                                   # first call: covered by the single-call scenarios
            n_first = len(s.ghost.get('hashed', []))
            s.heap[('s2k', 'salt')] = ex.new_buf(s, salt2)
            for qi, (s2, v2) in enumerate(ex.call_func(E.VFunc(r.node, None, cls=r.dcls, self_val=o, mod=r.mod), [E.VBytes(pw)], {}, s, {'mod': r.mod})):
                if isinstance(v2, E.Raise):
                    r.oblige(s2, 'safety(%s)/p%d.%d' % (v2.exc.split(':')[0], pi, qi), z3.BoolVal(False), v2.where)
                    continue
                hashed = s2.ghost.get('hashed', [])[n_first:]
                r.oblige(s2, 'second-call-hashes-again:%d-contexts/p%d.%d' % (nctx, pi, qi), z3.BoolVal(len(hashed) == nctx))
                for i, (alg, inp, dig) in enumerate(hashed):
                    data = z3.Extract(inp, i, z3.Length(inp) - i)
                    # instances of the repetition law R = X * k  =>  R[j] = X[j mod len X]  for the first eight positions
                    inst = []
                    for (R, XX, k) in s2.ghost.get('repeats', []):
                        inst += [z3.Implies(z3.IntVal(j) < z3.Length(R), R[j] == XX[j % z3.Length(XX)]) for j in range(8)]
                    r.obls.append(('%s/second-call-ctx%d-stream-starts-with-the-NEW-salt/p%d.%d' % (label, i, pi, qi),
                                   list(s2.facts) + list(s2.pc) + inst,
                                   z3.And(z3.Length(data) >= 8, *[data[j] == salt2[j] for j in range(8)]), None))
                if len(hashed) == nctx and hashed:
                    full = hashed[0][2] if nctx == 1 else z3.Concat(*[h[2] for h in hashed])
                    r.oblige(s2, 'second-call-key-is-the-truncated-digests-of-the-second-run/p%d.%d' % (pi, qi), ex.seq(v2, s2) == z3.Extract(full, 0, kb))
        return r.result()

    def native(rng, n):
        from pgpy.packet.fields import String2Key
        from pgpy.constants import String2KeyType, HashAlgorithm, SymmetricKeyAlgorithm
        from specs import s2k as spec
        viol, cases = [], 0
        for t in range(max(10, n // 20)):
            k = String2Key()
            k.specifier = String2KeyType(SPEC[specname])
            k.halg = HashAlgorithm(HASHES[hname])
            k.encalg = SymmetricKeyAlgorithm(CIPH[cname][0])
            k.count = cc = rng.choice([0, 16, 96, rng.randrange(120)])
            pwv = bytes(rng.randrange(256) for _ in range(rng.choice([0, 1, 9, 40])))
            salts = [bytes(rng.randrange(256) for _ in range(8)) for _ in range(3)]
            for si, sv in enumerate(salts + [salts[0]]):          # ... and back to the first salt
                k.salt = bytearray(sv)
                cases += 1
                got, want = bytes(k.derive_key(pwv)), spec.derive(SPEC[specname], hname, CIPH[cname][1], sv, cc, pwv)
                if got != want:
                    viol.append({'args': {'salts_in_order': [x.hex() for x in salts], 'call': si, 'count': cc, 'passphrase': pwv.hex()},
                                 'violation': 'derivation %d on the same specifier object differs from RFC 4880 3.7.1 for its current salt' % (si + 1)})
                    return {'cases': cases, 'violations': viol}
        return {'cases': cases, 'violations': viol}
    return Scenario(label, 'pgpy.packet.fields.String2Key.derive_key', gen, props=('C12', 'C06', 'C13'), native=native)


_base_scn_s = scenarios


def scenarios(tier='quick'):
    # salted (not iterated) specifiers: the stream is salt || passphrase once, so these obligations stay in linear sequence reasoning
    # (an iterated variant needed the repetition law and took ~60 s; what it adds over the salted one is covered by the single-call scenarios)
    return _base_scn_s(tier) + [derive_twice('Salted', 'SHA1', 'CAST5'), derive_twice('Salted', 'MD5', 'AES256')]
