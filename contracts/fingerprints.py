"""C18: fingerprint / key id = RFC 4880 12.2 over the exported public-key packet body; stability by frame."""
import z3
from pyvc import scn, engine as E
from pyvc.runner import Scenario
from pyvc.scn import U, cat, be, lit
from pyvc.dsl import Contract, Obj, Bytes, Const, Int, Dom

B = E.BYTES
PK = 'pgpy.packet.packets.PubKeyV4'


def _time_hooks(r, created, EPOCH, LOCAL):
    """external datetime/calendar: calendar.timegm(d.utctimetuple()) is the instant's epoch; timegm(d.timetuple()) is the
    local wall clock read as UTC (a different number for aware non-UTC datetimes)"""
    def timegm(ex, st, o, a):
        x = a[0]
        if isinstance(x, E.VExt) and x.name.endswith('.utctimetuple') and x.args[0] is created:
            return [(st, E.VInt(EPOCH))]
        if isinstance(x, E.VExt) and x.name.endswith('.timetuple') and x.args[0] is created:
            return [(st, E.VInt(LOCAL))]
        raise E.ToolLimit('calendar.timegm of an unexpected value')
    r.ex.hooks[('ext', 'calendar.timegm')] = timegm
    scn.local_zone_reading(r.ex)


def fingerprint():
    label = 'C18/PubKeyV4.fingerprint'

    def gen(repo):
        r = scn.Run(repo, PK, 'fingerprint', label)
        ex, st = r.ex, r.st
        KM = z3.Const('KEYMATERIAL_OCTETS', B)
        plen, EPOCH, LOCAL, alg = z3.Ints('publen epoch local_wall_clock pkalg')
        st.pc += [plen >= 0, plen <= z3.Length(KM), plen < 65530, EPOCH >= 0, EPOCH < 2 ** 32, LOCAL >= 0, LOCAL < 2 ** 32, alg >= 0, alg < 256]
        me = E.VObj(PK, 'pkt')
        created = E.VExt('datetime', ())
        r.set('pkt', '_created', created)
        r.set('pkt', '_pkalg', E.VInt(alg, enum='pgpy.constants.PubKeyAlgorithm'))
        r.set('pkt', 'keymaterial', E.VObj('pgpy.packet.fields.RSAPub', 'km'))
        r.hook('pgpy.packet.fields.PubKey', 'publen', scn.mconst(E.VInt(plen)))
        r.hook('pgpy.packet.fields.PubKey', '__bytearray__', scn.method_hook(lambda ex, st, o, a: [(st, ex.new_buf(st, KM))]))
        _time_hooks(r, created, EPOCH, LOCAL)
        r.hook('pgpy.types.Fingerprint', '__call__', lambda ex, st, cls, a: [(st, E.VStr(z=a[0].z, cls='pgpy.types.Fingerprint'))])
        for pi, (s, v) in enumerate(r.call(me, [])):
            if isinstance(v, E.Raise):
                r.oblige(s, 'safety(%s)/p%d' % (v.exc.split(':')[0], pi), z3.BoolVal(False), v.where)
                continue
            hashed = s.ghost.get('hashed', [])
            shape = len(hashed) == 1 and hashed[0][0] == 'sha1'
            r.oblige(s, 'one-sha1-context/p%d' % pi, z3.BoolVal(bool(shape)))
            if not shape:
                continue
            body = cat(U(4), be(EPOCH, 4), U(alg), z3.Extract(KM, 0, plen))
            spec = cat(U(0x99), be(6 + plen, 2), body)
            r.oblige(s, 'rfc4880-12.2-hashed-octets/p%d' % pi, hashed[0][1] == spec)
            r.oblige(s, 'length-field-is-body-length/p%d' % pi, z3.Length(body) == 6 + plen)
            HEX = z3.Function('HEXLOWER', B, B)
            UP = z3.Function('STR_UPPER', B, B)
            r.oblige(s, 'fingerprint-is-uppercase-hex-of-digest/p%d' % pi,
                     z3.And(z3.BoolVal(isinstance(v, E.VStr) and v.z is not None), v.z == UP(HEX(hashed[0][2])) if isinstance(v, E.VStr) and v.z is not None else z3.BoolVal(False)))
        return r.result()
    return Scenario(label, PK + '.fingerprint', gen, props=('C18',))


def packet_bytes():
    label = 'C18/PubKeyV4.__bytearray__'

    def gen(repo):
        r = scn.Run(repo, PK, '__bytearray__', label)
        ex, st = r.ex, r.st
        KM, HDR = z3.Const('KEYMATERIAL_OCTETS', B), z3.Const('HEADER_AND_VERSION', B)
        EPOCH, LOCAL, alg = z3.Ints('epoch local_wall_clock pkalg')
        st.pc += [EPOCH >= 0, EPOCH < 2 ** 32, LOCAL >= 0, LOCAL < 2 ** 32, alg >= 0, alg < 256]
        me = E.VObj(PK, 'pkt')
        created = E.VExt('datetime', ())
        r.set('pkt', '_created', created)
        r.set('pkt', '_pkalg', E.VInt(alg, enum='pgpy.constants.PubKeyAlgorithm'))
        r.set('pkt', 'keymaterial', E.VObj('pgpy.packet.fields.RSAPub', 'km'))
        r.hook('pgpy.packet.fields.PubKey', '__bytearray__', scn.method_hook(lambda ex, st, o, a: [(st, ex.new_buf(st, KM))]))
        # callee contract: VersionedPacket.__bytearray__ = packet header followed by the version octet (C08/C09)
        r.hook('pgpy.packet.types.VersionedPacket', '__bytearray__', scn.method_hook(lambda ex, st, o, a: [(st, ex.new_buf(st, HDR))]))
        r.hook('pgpy.packet.types.Packet', '__bytearray__', scn.method_hook(lambda ex, st, o, a: [(st, ex.new_buf(st, HDR))]))
        _time_hooks(r, created, EPOCH, LOCAL)
        for pi, (s, v) in enumerate(r.call(me, [])):
            if isinstance(v, E.Raise):
                r.oblige(s, 'safety(%s)/p%d' % (v.exc.split(':')[0], pi), z3.BoolVal(False), v.where)
                continue
            r.oblige(s, 'rfc4880-5.5.2-body/p%d' % pi, ex.seq(v, s) == cat(HDR, be(EPOCH, 4), U(alg), KM))
        return r.result()
    return Scenario(label, PK + '.__bytearray__', gen, props=('C18', 'C09', 'C08'))


def fingerprint_octets():
    """Fingerprint.__bytes__: what is written into issuer-fingerprint, intended-recipient and revocation-key subpackets: the octets the 40 hex
    digits spell - all twenty, also when the first ones are zero"""
    label = 'C18/Fingerprint.__bytes__'
    FPC = 'pgpy.types.Fingerprint'

    def gen(repo):
        r = scn.Run(repo, FPC, '__bytes__', label)
        ex, st = r.ex, r.st
        HEXDIGITS = z3.Const('FORTY_HEX_DIGITS', B)
        st.pc += [z3.Length(HEXDIGITS) == 40]
        me = E.VStr(z=HEXDIGITS, cls=FPC)
        UNHEX = z3.Function('UNHEXLIFY', B, B)
        for pi, (s, v) in enumerate(r.call(me, [])):
            if isinstance(v, E.Raise):
                r.oblige(s, 'safety(%s)/p%d' % (v.exc.split(':')[0], pi), z3.BoolVal(False), v.where)
                continue
            r.oblige(s, 'the-octets-the-hex-digits-spell(digit-pairs,leading-zeros-kept)/p%d' % pi,
                     ex.seq(v, s) == UNHEX(HEXDIGITS) if isinstance(v, (E.VBytes, E.VBuf)) else z3.BoolVal(False))
        return r.result()

    def native(rng, n):
        from pgpy.types import Fingerprint
        viol, cases = [], 0
        samples = ['00' * 20, '00' + 'AB' * 19, '0000' + 'CD' * 18, '0' + 'F' * 39, 'FF' * 20] + ['%040X' % rng.getrandbits(160 - 8 * (i % 3)) for i in range(max(20, n // 10))]
        for h in samples:
            cases += 1
            try:
                got = bytes(Fingerprint(h))
                if got != bytes.fromhex(h):
                    viol.append({'args': {'fingerprint': h}, 'violation': 'bytes(Fingerprint) is %s (%d octets), the digits spell %d octets' % (got.hex(), len(got), 20)})
                    break
            except Exception as ex:
                viol.append({'args': {'fingerprint': h}, 'violation': 'raised %s' % type(ex).__name__})
                break
        return {'cases': cases, 'violations': viol}
    return Scenario(label, FPC + '.__bytes__', gen, props=('C18', 'C02'), native=native)


def parsed_packet_consistency():
    """a public key packet that was READ (from another encoder: its integers need not be in the form PGPy writes - bit counts rounded up,
    leading zero octets): the fingerprint is SHA-1 over 0x99, the two-octet length and the packet body AS EXPORTED. parse, then both
    __bytearray__ and fingerprint on the object parse left behind; the material parser / writer are given by contract: the writer yields the
    re-encoded public fields (some octets CANON, not provably the octets that were read)."""
    label = 'C18/PubKeyV4.parse,then-export-and-fingerprint[the fingerprint is over the body as exported]'
    F = 'pgpy.packet.fields.'

    def gen(repo):
        r = scn.Run(repo, PK, 'parse', label)
        ex, st = r.ex, r.st
        OLD, HL, HDRONLY, CANON = z3.Const('RECEIVED', B), z3.Int('header_length'), z3.Const('PACKET_HEADER', B), z3.Const('PUBLIC_FIELDS_AS_PGPY_WRITES_THEM', B)
        r.set('pkt', 'header', E.VObj('pgpy.packet.types.Header', 'hdr'))
        r.set('hdr', '_len', E.VInt(HL))
        for c in ('pgpy.packet.types.Packet', 'pgpy.packet.types.VersionedPacket'):
            r.hook(c, 'parse', scn.mconst(E.VNone()))
        st.pc += [HL >= 6, HL < 65536, z3.Length(OLD) == HL - 1, OLD[4] == 1, z3.Length(CANON) < 65000]
        for i in range(4):
            st.pc += [OLD[i] >= 0, OLD[i] < 256]
        buf = ex.new_buf(st, OLD)
        me = E.VObj(PK, 'pkt')
        ex.hooks[('ext', 'datetime.fromtimestamp')] = lambda ex, st, o, a: [(st, E.VExt('datetime', (a[0],)))]
        r.hook(F + 'RSAPub', '__call__', lambda ex, st, cls, a: [(st, E.VObj(F + 'RSAPub', 'material'))])
        r.hook(F + 'RSAPub', 'parse', scn.method_hook(lambda ex, st, o, a: [(st, E.VNone())]))
        r.hook(F + 'PubKey', 'publen', scn.mconst(E.VInt(z3.Length(CANON))))
        r.hook(F + 'PubKey', '__bytearray__', scn.method_hook(lambda ex, st, o, a: [(st, ex.new_buf(st, CANON))]))
        r.hook('pgpy.packet.types.VersionedPacket', '__bytearray__', scn.method_hook(lambda ex, st, o, a: [(st, ex.new_buf(st, cat(HDRONLY, U(4))))]))

        def timegm(ex, st, o, a):
            x = a[0]
            if isinstance(x, E.VExt) and x.name.endswith('.utctimetuple') and isinstance(x.args[0], E.VExt) and x.args[0].name == 'datetime' and x.args[0].args:
                return [(st, E.VInt(ex.as_int(x.args[0].args[0])))]          # the instant the four octets named
            raise E.ToolLimit('calendar.timegm of an unexpected value')
        ex.hooks[('ext', 'calendar.timegm')] = timegm
        scn.local_zone_reading(ex)
        for hc in ('pgpy.packet.types.Header', 'pgpy.packet.types.VersionedHeader'):
            r.hook(hc, '__len__', scn.mconst(E.VInt(z3.Length(HDRONLY) + 1)))          # a versioned header counts its version octet

        def upd(ex, st, o, a):
            st.heap[('hdr', '_len')] = E.VInt(6 + z3.Length(CANON))
            return [(st, E.VNone())]
        for pc_ in (PK, 'pgpy.packet.types.Packet', 'pgpy.packet.types.VersionedPacket'):
            r.hook(pc_, 'update_hlen', scn.method_hook(upd))
        r.hook('pgpy.types.Fingerprint', '__call__', lambda ex, st, cls, a: [(st, E.VStr(z=a[0].z, cls='pgpy.types.Fingerprint'))])
        call = lambda name, state: ex.call_func(E.VFunc(repo.lookup(PK, name)[2], None, cls=repo.lookup(PK, name)[1], self_val=me, mod=repo.classes[repo.lookup(PK, name)[1]].module),
                                                [], {}, state, {'mod': repo.classes[repo.lookup(PK, name)[1]].module})
        for pi, (s, v) in enumerate(r.call(me, [buf])):
            if isinstance(v, E.Raise):
                r.oblige(s, 'safety(%s)/p%d' % (v.exc.split(':')[0], pi), z3.BoolVal(False), v.where)
                continue
            for qi, (s2, exp) in enumerate(call('__bytearray__', s.clone())):
                if isinstance(exp, E.Raise):
                    r.oblige(s2, 'export:safety(%s)/p%d.%d' % (exp.exc.split(':')[0], pi, qi), z3.BoolVal(False), exp.where)
                    continue
                EXPORT = ex.seq(exp, s2)
                s3 = s2.clone()
                s3.ghost['hashed'] = []
                for ri, (s4, fp) in enumerate(call('fingerprint', s3)):
                    if isinstance(fp, E.Raise):
                        r.oblige(s4, 'fingerprint:safety(%s)/p%d.%d.%d' % (fp.exc.split(':')[0], pi, qi, ri), z3.BoolVal(False), fp.where)
                        continue
                    hashed = s4.ghost.get('hashed', [])
                    ok = len(hashed) == 1 and hashed[0][0] == 'sha1'
                    blen = z3.Length(EXPORT) - z3.Length(HDRONLY)
                    r.oblige(s4, 'fingerprint-hashes-0x99,length,and-the-body-as-exported/p%d.%d.%d' % (pi, qi, ri),
                             z3.And(z3.BoolVal(bool(ok)), hashed[0][1] == cat(U(0x99), be(blen, 2), z3.Extract(EXPORT, z3.Length(HDRONLY), blen)) if ok else z3.BoolVal(False)))
        return r.result()
    return Scenario(label, PK + '.parse', gen, props=('C18',))


# ---------------------------------------------------------------------------------------------------
# per-material: publen() is the length of the public prefix of __bytearray__() (MPI-only materials)
MATERIALS = {
    'RSAPub': ('n', 'e'), 'DSAPub': ('p', 'q', 'g', 'y'), 'ElGPub': ('p', 'g', 'y'),
    'RSAPriv': ('n', 'e'), 'DSAPriv': ('p', 'q', 'g', 'y'), 'ElGPriv': ('p', 'g', 'y'),
}
PRIV = {'RSAPriv': ('d', 'p', 'q', 'u'), 'DSAPriv': ('x',), 'ElGPriv': ('x',)}


def material(clsname, protected=None):
    cls = 'pgpy.packet.fields.' + clsname
    label = 'C18/fields.%s.public-prefix%s' % (clsname, '' if protected is None else ('[protected]' if protected else '[unprotected]'))

    def gen(repo):
        obls, infos, paths = [], [], 0
        pubs = MATERIALS[clsname]
        vals = {f: z3.Int('pub_' + f) for f in pubs}
        privs = {f: z3.Int('sec_' + f) for f in PRIV.get(clsname, ())}
        S2KB, ENC, CHK = z3.Const('S2K_OCTETS', B), z3.Const('ENCBYTES', B), z3.Const('CHKSUM', B)

        def setup(r):
            r.st.pc += [v >= 0 for v in list(vals.values()) + list(privs.values())]
            for v in list(vals.values()) + list(privs.values()):
                r.st.pc.append(r.ex.bl(r.st, v) < 65536)
            for f, v in {**vals, **privs}.items():
                r.set('km', f, E.VInt(v, enum='pgpy.packet.types.MPI'))
            if clsname in PRIV:
                r.set('km', 's2k', E.VObj('pgpy.packet.fields.String2Key', 's2k'))
                r.set('km', 'encbytes', r.ex.new_buf(r.st, ENC))
                r.set('km', 'chksum', r.ex.new_buf(r.st, CHK))
                r.hook('pgpy.packet.fields.String2Key', '__bytearray__', scn.method_hook(lambda ex, st, o, a: [(st, ex.new_buf(st, S2KB))]))
                r.hook('pgpy.packet.fields.String2Key', '__bool__', scn.mconst(E.VBool(bool(protected))))
                r.hook('pgpy.packet.fields.String2Key', '__len__', scn.method_hook(lambda ex, st, o, a: [(st, E.VInt(z3.Length(S2KB)))]))
                r.hook('pgpy.packet.fields.String2Key', 'usage', scn.const(E.VInt(254 if protected else 0)))
            return E.VObj(cls, 'km')

        def mpi_enc(ex, st, v):
            blv = ex.bl(st, v)
            return cat(be(blv, 2), E.BE(v, (blv + 7) / 8))
        r1 = scn.Run(repo, cls, 'publen', label)
        me = setup(r1)
        for pi, (s, v) in enumerate(r1.call(me, [])):
            paths += 1
            if isinstance(v, E.Raise):
                r1.oblige(s, 'publen/safety/p%d' % pi, z3.BoolVal(False), v.where)
                continue
            want = z3.Sum([2 + (r1.ex.bl(s, vals[f]) + 7) / 8 for f in pubs])
            r1.oblige(s, 'publen-is-length-of-public-mpis/p%d' % pi, r1.ex.as_int(v) == want)
        r2 = scn.Run(repo, cls, '__bytearray__', label)
        me = setup(r2)
        for pi, (s, v) in enumerate(r2.call(me, [])):
            paths += 1
            if isinstance(v, E.Raise):
                r2.oblige(s, 'bytes/safety/p%d' % pi, z3.BoolVal(False), v.where)
                continue
            pubenc = cat(*[mpi_enc(r2.ex, s, vals[f]) for f in pubs])
            plen = z3.Sum([2 + (r2.ex.bl(s, vals[f]) + 7) / 8 for f in pubs])
            for f in pubs:       # length law of the external-width encoding (int.to_bytes)
                blv = r2.ex.bl(s, vals[f])
                s.facts.append(z3.Length(E.BE(vals[f], (blv + 7) / 8)) == (blv + 7) / 8)
            out = r2.ex.seq(v, s)
            r2.oblige(s, 'public-mpis-come-first/p%d' % pi, z3.Extract(out, 0, plen) == pubenc)
            if clsname in PRIV:
                if protected:
                    r2.oblige(s, 'protected:rest-is-s2k-and-ciphertext-only/p%d' % pi, out == cat(pubenc, S2KB, ENC))
                else:
                    secenc = cat(*[mpi_enc(r2.ex, s, privs[f]) for f in PRIV[clsname]])
                    r2.oblige(s, 'unprotected:rest-is-s2k-secret-mpis-checksum/p%d' % pi, out == cat(pubenc, S2KB, secenc, CHK))
        res = r1.result()
        res2 = r2.result()
        return {'obligations': res['obligations'] + res2['obligations'], 'funcs': res['funcs'] + res2['funcs'], 'paths': paths}
    return Scenario(label, cls + '.publen/__bytearray__', gen, props=('C18', 'C06', 'C07', 'C08'))


# ---------------------------------------------------------------------------------------------------
class HexStr(Dom):
    """40 uppercase hex digits as a Fingerprint"""
    def sym(self, ex, st, name):
        z = z3.Const(name, B)
        st.pc.append(z3.Length(z) == 40)
        return E.VStr(z=z, cls='pgpy.types.Fingerprint')

    def samples(self, rng, n):
        return [''.join(rng.choice('0123456789ABCDEF') for _ in range(40)) for _ in range(min(n, 40))]

    def from_model(self, model, name):
        v = model.get(name)
        return '0' * 40

    def native(self, v):
        from pgpy.types import Fingerprint
        return Fingerprint(v)


keyid = Contract('C18/Fingerprint.keyid', 'pgpy.types.Fingerprint.keyid', params={'self': HexStr()},
                 ensures=[('low-64-bits', 'len(result) == 16 and result == self[24:40]')], props=('C18',))
shortid = Contract('C18/Fingerprint.shortid', 'pgpy.types.Fingerprint.shortid', params={'self': HexStr()},
                   ensures=[('low-32-bits', 'len(result) == 8 and result == self[32:40]')], props=('C18',))


def scenarios():
    out = [fingerprint(), packet_bytes(), parsed_packet_consistency(), fingerprint_octets(), keyid, shortid]
    for c in ('RSAPub', 'DSAPub', 'ElGPub'):
        out.append(material(c))
    for c in ('RSAPriv', 'DSAPriv', 'ElGPriv'):
        out.append(material(c, True))
        out.append(material(c, False))
    return out


def fingerprint_eq(kind):
    """Fingerprint.__eq__: another fingerprint must be identical; a plain string may also be the key id or the short id, spaces ignored"""
    import z3
    from pyvc import scn, engine as E
    from pyvc.runner import Scenario
    label = 'C18/Fingerprint.__eq__[%s]' % kind
    FPC = 'pgpy.types.Fingerprint'

    def gen(repo):
        r = scn.Run(repo, FPC, '__eq__', label)
        ex, st = r.ex, r.st
        FP, OTHER = z3.Const('FINGERPRINT', E.BYTES), z3.Const('OTHER', E.BYTES)
        st.pc += [z3.Length(FP) == 40]
        me = E.VStr(z=FP, cls=FPC)
        other = E.VStr(z=OTHER, cls=FPC) if kind == 'fingerprint' else E.VStr(z=OTHER)
        NOSP = z3.Function("STR_REPLACE[' '->'']", E.BYTES, E.BYTES)
        for pi, (s, v) in enumerate(r.call(me, [other])):
            if isinstance(v, E.Raise):
                r.oblige(s, 'safety(%s)/p%d' % (v.exc.split(':')[0], pi), z3.BoolVal(False), v.where)
                continue
            if kind == 'fingerprint':
                r.oblige(s, 'equal-iff-the-same-40-digits/p%d' % pi, ex.truth(v, s) == (FP == OTHER))
            else:
                n = NOSP(OTHER)
                r.oblige(s, 'equal-iff-the-string-without-spaces-is-the-fingerprint,its-low-64-bits-or-its-low-32-bits/p%d' % pi,
                         ex.truth(v, s) == z3.Or(FP == n, z3.Extract(FP, 24, 16) == n, z3.Extract(FP, 32, 8) == n))
        return r.result()
    return Scenario(label, FPC + '.__eq__', gen, props=('C18', 'C19', 'C16'))


_base_scn_f = scenarios


def scenarios():
    return _base_scn_f() + [fingerprint_eq('fingerprint'), fingerprint_eq('string')]
