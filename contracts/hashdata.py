"""C01/C02/C05: PGPSignature.hashdata == RFC 4880 5.2.4 for every signature type x subject class, and the
injectivity of that layout (peeling lemmas on the spec)."""
import z3
from pyvc import scn, engine as E
from pyvc.runner import Scenario
from pyvc.scn import U, cat, be

B = E.BYTES
CERTS = ('Generic_Cert', 'Persona_Cert', 'Casual_Cert', 'Positive_Cert', 'CertRevocation', 'Attestation')

# (signature type, subject kind) pairs PGPy can sign/verify
CASES = [(t, k) for t in CERTS for k in ('uid', 'ua')] + [
    ('Subkey_Binding', 'sub'), ('Subkey_Binding', 'primary-with-subkey'), ('PrimaryKey_Binding', 'sub'), ('PrimaryKey_Binding', 'primary-with-subkey'),
    ('SubkeyRevocation', 'sub'), ('Subkey_Binding', 'a-subkey-the-issuer-id-does-not-name'), ('PrimaryKey_Binding', 'a-subkey-the-issuer-id-does-not-name'),
    ('SubkeyRevocation', 'a-subkey-the-issuer-id-does-not-name'), ('KeyRevocation', 'key'), ('DirectlyOnKey', 'key'), ('DirectlyOnKey', 'sub-as-key'),
    ('BinaryDocument', 'doc'), ('BinaryDocument', 'str'), ('CanonicalDocument', 'doc'), ('Standalone', 'none'), ('Timestamp', 'none'),
    ('Standalone', 'doc'), ('Timestamp', 'doc'), ('Timestamp', 'uid'), ('Standalone', 'key'), ('ThirdParty_Confirmation', 'doc')]


def k99(body):
    return cat(U(0x99), be(z3.Length(body), 2), body)


def spec_hash(ST, typename, kind, KB, SB, UB, DOC, CANON, ver, pa, ha, HS):
    """RFC 4880 5.2.4 (and 4880bis for attestations / subkey revocations): the octets that are hashed"""
    t = ST[typename]
    trailer = cat(U(ver), U(t), U(pa), U(ha), HS, U(4), U(255), be(4 + z3.Length(HS), 4))
    if typename in CERTS:
        return cat(k99(KB), U(0xb4 if kind == 'uid' else 0xd1), be(z3.Length(UB), 4), UB, trailer)
    if typename in ('Subkey_Binding', 'PrimaryKey_Binding'):
        return cat(k99(KB), k99(SB), trailer)
    if typename == 'SubkeyRevocation':
        return cat(k99(KB), k99(SB), trailer)
    if typename in ('KeyRevocation', 'DirectlyOnKey'):
        return cat(k99(SB if kind == 'sub-as-key' else KB), trailer)
    if typename == 'BinaryDocument':
        return cat(DOC, trailer)
    if typename == 'CanonicalDocument':
        return cat(CANON, trailer)
    return trailer        # standalone, timestamp, third-party confirmation: only the trailer


def hashdata(typename, kind, fresh_signature=False):
    label = 'C01/PGPSignature.hashdata[%s over %s%s]' % (typename, kind, ',new' if fresh_signature else '')

    def gen(repo):
        ST = repo.enum_members('pgpy.constants.SignatureType')
        r = scn.Run(repo, 'pgpy.pgp.PGPSignature', 'hashdata', label)
        ex, st = r.ex, r.st
        KB, SB, UB, HS, DOC = [z3.Const(n, B) for n in ('KEYBODY', 'SUBKEYBODY', 'UIDBODY', 'HASHEDAREA', 'DOC')]
        pa, ha, ver = z3.Ints('pubalg halg version')
        st.pc += [z3.Length(KB) >= 6, z3.Length(SB) >= 6, z3.Length(KB) < 65536, z3.Length(SB) < 65536, z3.Length(UB) < 2 ** 32,
                  z3.Length(HS) < 2 ** 32 - 4, pa >= 0, pa < 256, ha >= 0, ha < 256, ver >= 0, ver < 256]
        sig = E.VObj('pgpy.pgp.PGPSignature', 'sig')
        for ref, attr, v in (('sig', '_signature', E.VObj('pgpy.packet.packets.SignatureV4', 'spkt')),
                             ('spkt', '_sigtype', E.VInt(ST[typename], enum='pgpy.constants.SignatureType')),
                             ('spkt', '_pubalg', E.VInt(pa)), ('spkt', '_halg', E.VInt(ha)),
                             ('spkt', 'header', E.VObj('pgpy.packet.types.VersionedHeader', 'hdr')),
                             ('hdr', '_version', E.VInt(ver)),
                             ('spkt', 'subpackets', E.VObj('pgpy.packet.fields.SubPackets', 'subp')),
                             ('spkt', '_signature', E.VObj('pgpy.packet.fields.RSASignature', 'sigfield'))):
            r.set(ref, attr, v)
        key, sub, uid = E.VObj('pgpy.pgp.PGPKey', 'key'), E.VObj('pgpy.pgp.PGPKey', 'sub'), E.VObj('pgpy.pgp.PGPUID', 'uid')
        SIGNER = z3.Int('signer_keyid')
        parent = lambda ex, st, o, a: [(st, {'sig': E.VNone(), 'uid': key, 'sub': key, 'sub2': key, 'key': E.VNone()}[o.ref])]
        r.hook('pgpy.types.ParentRef', 'parent', parent)
        r.hook('pgpy.types.ParentRef', '_parent', parent)
        # what the subject objects hash to NOW (epoch 0) and after they were changed in place (epoch 1: a second call on the same pair)
        KB2, SB2, UB2, DOC2 = [z3.Const(n + '_AFTER_THE_SUBJECT_CHANGED', B) for n in ('KEYBODY', 'SUBKEYBODY', 'UIDBODY', 'DOC')]
        st.pc += [z3.Length(KB2) >= 6, z3.Length(SB2) >= 6, z3.Length(KB2) < 65536, z3.Length(SB2) < 65536, z3.Length(UB2) < 2 ** 32]
        ep = lambda st: st.ghost.get('epoch', 0)
        # a second subkey of the same primary key; when IT is the subject (kind 'a-subkey-the-issuer-id-does-not-name': a cross-signature or
        # binding examined against another subkey than the one its issuer id names) it is the one that is hashed - the subject, not a lookup
        sub2 = E.VObj('pgpy.pgp.PGPKey', 'sub2')
        SB_OTHER = z3.Const('BODY_OF_THE_OTHER_SUBKEY', B)
        st.pc += [z3.Length(SB_OTHER) >= 6, z3.Length(SB_OTHER) < 65536]
        r.hook('pgpy.pgp.PGPKey', 'hashdata', lambda ex, st, o, a: [(st, E.VBytes(SB_OTHER if o.ref == 'sub2' else (KB2 if ep(st) else KB) if o.ref == 'key' else (SB2 if ep(st) else SB)))])
        r.hook('pgpy.pgp.PGPUID', 'hashdata', lambda ex, st, o, a: [(st, E.VBytes(UB2 if ep(st) else UB))])
        r.hook('pgpy.pgp.PGPKey', 'is_primary', lambda ex, st, o, a: [(st, E.VBool(o.ref == 'key'))])
        r.hook('pgpy.pgp.PGPUID', 'is_uid', scn.const(E.VBool(kind != 'ua')))
        r.hook('pgpy.pgp.PGPSignature', 'signer', scn.const(E.VInt(SIGNER)))
        r.hook('pgpy.pgp.PGPSignature', 'embedded', scn.const(E.VBool(False)))
        OTHERID = z3.Int('keyid_of_the_other_subkey')
        st.pc += [OTHERID != SIGNER]
        r.hook('pgpy.pgp.PGPKey', 'subkeys', lambda ex, st, o, a: [(st, E.VDict([(E.VInt(SIGNER), sub), (E.VInt(OTHERID), sub2)]) if o.ref == 'key' else E.VDict([]))])
        r.hook('pgpy.packet.fields.SubPackets', '__hashbytearray__', scn.mconst(None))
        r.ex.hooks[('pgpy.packet.fields.SubPackets', '__hashbytearray__')] = scn.method_hook(lambda ex, st, o, a: [(st, ex.new_buf(st, HS))])
        mpi = z3.Int('sig_mpi')
        st.pc += [mpi >= 0] if fresh_signature else [mpi > 0]
        if fresh_signature:
            st.pc += [mpi == 0]
        r.hook('pgpy.packet.fields.RSASignature', '__iter__', scn.method_hook(lambda ex, st, o, a: [(st, ex.new_list(st, [E.VInt(mpi)]))]))

        def update_hlen(ex, st, o, a):
            st.ghost['update_hlen'] = True
            return [(st, E.VNone())]
        r.hook('pgpy.packet.packets.SignatureV4', 'update_hlen', scn.method_hook(update_hlen))
        docbuf = ex.new_buf(st, DOC)            # a bytearray document: the same object can be edited in place between two calls
        subject = {'uid': uid, 'ua': uid, 'key': key, 'sub': sub, 'sub-as-key': sub, 'primary-with-subkey': key, 'a-subkey-the-issuer-id-does-not-name': sub2,
                   'doc': docbuf if typename == 'BinaryDocument' and not fresh_signature else E.VBytes(DOC), 'str': E.VStr(z=DOC), 'none': E.VNone()}[kind]
        outs = r.call(sig, [subject])
        second = (typename == 'BinaryDocument' and kind == 'doc' and not fresh_signature) or (typename in ('Positive_Cert', 'Subkey_Binding', 'DirectlyOnKey') and kind in ('uid', 'sub', 'key'))
        no_subject_type = typename in ('Standalone', 'Timestamp')
        for pi, (s, v) in enumerate(outs):
            if no_subject_type and kind != 'none':
                # these types sign only their own subpackets: a subject must be refused, never silently ignored
                r.oblige(s, 'subject-refused-for-a-signature-that-signs-no-subject/p%d' % pi,
                         z3.BoolVal(isinstance(v, E.Raise) and v.exc.split(':')[0] == 'PGPError'), getattr(v, 'where', None))
                continue
            if isinstance(v, E.Raise):
                r.oblige(s, 'safety(%s)/p%d' % (v.exc.split(':')[0], pi), z3.BoolVal(False), v.where)
                continue
            canon = z3.Const('CANON', B)
            rx = s.ghost.get('regex', [])
            if typename == 'CanonicalDocument':
                # the canonicalisation is exactly one substitution of \r?\n by \r\n applied to the subject (regex semantics: bounded, C11)
                okrx = len(rx) == 1 and rx[0][0] == b'\\r?\\n' and rx[0][1] == b'\r\n' and rx[0][2].eq(DOC)
                r.oblige(s, 'canonicalises-with-crlf-substitution/p%d' % pi, z3.BoolVal(bool(okrx)))
                canon = rx[0][3] if rx else canon
            spec = spec_hash(ST, typename, kind, KB, SB_OTHER if kind == 'a-subkey-the-issuer-id-does-not-name' else SB, UB, DOC, canon, ver, pa, ha, HS)
            r.oblige(s, 'rfc4880-5.2.4/p%d' % pi, ex.seq(v, s) == spec)
            if second:
                # no hidden state: the same signature object asked again about the same subject OBJECT, whose content has changed
                s.ghost['epoch'] = 1
                if subject is docbuf:
                    s.heap[docbuf.cell] = DOC2
                spec2 = spec_hash(ST, typename, kind, KB2, SB2, UB2, DOC2, canon, ver, pa, ha, HS)
                for qi, (s2, v2) in enumerate(ex.call_func(E.VFunc(r.node, None, cls=r.dcls, self_val=sig, mod=r.mod), [subject], {}, s, {'mod': r.mod})):
                    if isinstance(v2, E.Raise):
                        r.oblige(s2, 'second-call:safety(%s)/p%d.%d' % (v2.exc.split(':')[0], pi, qi), z3.BoolVal(False), v2.where)
                        continue
                    r.oblige(s2, 'second-call-on-the-same-subject-object-after-it-changed:rfc4880-5.2.4-of-its-present-content/p%d.%d' % (pi, qi), ex.seq(v2, s2) == spec2)
            if fresh_signature:
                r.oblige(s, 'header-length-updated-before-hashing/p%d' % pi, z3.BoolVal(bool(s.ghost.get('update_hlen'))))
        return r.result()
    return Scenario(label, 'pgpy.pgp.PGPSignature.hashdata', gen, props=('C01', 'C02', 'C05'))


# ---------------------------------------------------------------------------------------------------
# injectivity of the 5.2.4 layout, by peeling (DESIGN 3.1): if two hashed octet strings are equal then every component is
def injectivity():
    def gen(repo):
        obls = []
        K, K2, Uu, U2, HS, HS2, R, R2, d1, d2 = z3.Consts('K K2 Uu U2 HS HS2 R R2 d1 d2', B)
        t, p, h, v, t2, p2, h2, v2, n1, n2 = z3.Ints('t p h v t2 p2 h2 v2 n1 n2')
        dom = [0 <= t, t < 256, 0 <= p, p < 256, 0 <= h, h < 256, 0 <= t2, t2 < 256, 0 <= p2, p2 < 256, 0 <= h2, h2 < 256,
               0 <= v, v < 256, 0 <= v2, v2 < 256,
               z3.Length(K) < 65536, z3.Length(K2) < 65536, z3.Length(Uu) < 2 ** 32, z3.Length(U2) < 2 ** 32,
               z3.Length(HS) < 2 ** 32 - 4, z3.Length(HS2) < 2 ** 32 - 4]
        L = 'C01/lemma/sig-hash-injective'

        def ob(name, hyps, goal):
            obls.append(('%s/%s' % (L, name), hyps, goal))
        ob('be16-injective', [0 <= n1, n1 < 65536, 0 <= n2, n2 < 65536, be(n1, 2) == be(n2, 2)], n1 == n2)
        ob('be32-injective', [0 <= n1, n1 < 2 ** 32, 0 <= n2, n2 < 2 ** 32, be(n1, 4) == be(n2, 4)], n1 == n2)
        h1 = dom + [cat(U(0x99), be(z3.Length(K), 2), K, R) == cat(U(0x99), be(z3.Length(K2), 2), K2, R2)]
        ob('key-block-length', h1, z3.Length(K) == z3.Length(K2))
        ob('key-block-body-and-rest', h1 + [z3.Length(K) == z3.Length(K2)], z3.And(K == K2, R == R2))
        for tagname, tag in (('uid', 0xb4), ('ua', 0xd1)):
            h2_ = dom + [cat(U(tag), be(z3.Length(Uu), 4), Uu, R) == cat(U(tag), be(z3.Length(U2), 4), U2, R2)]
            ob('%s-block-length' % tagname, h2_, z3.Length(Uu) == z3.Length(U2))
            ob('%s-block-body-and-rest' % tagname, h2_ + [z3.Length(Uu) == z3.Length(U2)], z3.And(Uu == U2, R == R2))
        ob('uid-vs-attribute-prefix-differs', dom + [cat(U(0xb4), R) == cat(U(0xd1), R2)], z3.BoolVal(False))
        T = cat(U(v), U(t), U(p), U(h), HS, U(4), U(255), be(4 + z3.Length(HS), 4))
        T2 = cat(U(v2), U(t2), U(p2), U(h2), HS2, U(4), U(255), be(4 + z3.Length(HS2), 4))
        h3 = dom + [T == T2]
        ob('trailer-length', h3, z3.Length(HS) == z3.Length(HS2))
        ob('trailer-fields', h3 + [z3.Length(HS) == z3.Length(HS2)], z3.And(HS == HS2, t == t2, p == p2, h == h2, v == v2))
        h4 = dom + [cat(d1, T) == cat(d2, T2)]
        ob('document-suffix-length-field', h4, be(4 + z3.Length(HS), 4) == be(4 + z3.Length(HS2), 4))
        ob('document-hashed-length(for all lengths n1,n2)', [0 <= n1, n1 < 2 ** 32 - 4, 0 <= n2, n2 < 2 ** 32 - 4, be(4 + n1, 4) == be(4 + n2, 4)], n1 == n2)
        ob('document-and-trailer', h4 + [z3.Length(HS) == z3.Length(HS2)], z3.And(d1 == d2, T == T2))
        return {'obligations': obls, 'funcs': [{'qualname': 'specs: RFC 4880 5.2.4 layout (lemma over the spec function, no PGPy code)',
                                               'file': 'contracts/hashdata.py', 'line': 0, 'sha256': ''}], 'paths': 0}
    return Scenario('C01/lemma/sig-hash-injective', 'spec:sig_hash', gen, props=('C01', 'C05'))


def scenarios():
    out = [hashdata(t, k) for t, k in CASES]
    out.append(hashdata('Positive_Cert', 'uid', fresh_signature=True))
    out.append(hashdata('BinaryDocument', 'doc', fresh_signature=True))
    out.append(injectivity())
    return out


def uid_hashdata():
    """PGPUID.hashdata: for a user id, the packet's octets after its header - whatever the header form, and also when the body is EMPTY
    (the empty user id is a legitimate subject); for a user attribute, the body as it is kept"""
    label = 'C01/PGPUID.hashdata'
    UIDC = 'pgpy.pgp.PGPUID'

    def gen(repo):
        obls, funcs = [], []
        for kind in ('uid', 'ua'):
            r = scn.Run(repo, UIDC, 'hashdata', '%s[%s]' % (label, 'user id' if kind == 'uid' else 'user attribute'))
            ex, st = r.ex, r.st
            HDR, BODY = z3.Const('HEADER', B), z3.Const('BODY', B)
            st.pc += [z3.Length(HDR) >= 2, z3.Length(HDR) <= 6, z3.Length(BODY) >= 0]
            me = E.VObj(UIDC, 'uid')
            r.hook(UIDC, 'is_uid', scn.const(E.VBool(kind == 'uid')))
            r.hook(UIDC, 'is_ua', scn.const(E.VBool(kind == 'ua')))
            pcls = 'pgpy.packet.packets.UserID' if kind == 'uid' else 'pgpy.packet.packets.UserAttribute'
            r.set('uid', '_uid', E.VObj(pcls, 'pkt'))
            r.set('pkt', 'header', E.VObj('pgpy.packet.types.Header', 'hdr'))
            r.set('hdr', '_len', E.VInt(z3.Length(BODY)))
            r.hook('pgpy.packet.types.Header', '__len__', scn.method_hook(lambda ex, st, o, a: [(st, E.VInt(z3.Length(HDR)))]))
            r.hook(pcls, '__bytearray__', scn.method_hook(lambda ex, st, o, a: [(st, ex.new_buf(st, z3.Concat(HDR, BODY)))]))
            r.hook(pcls, 'body', scn.const(E.VBytes(BODY)))
            for pi, (s, v) in enumerate(r.call(me, [])):
                if isinstance(v, E.Raise):
                    r.oblige(s, 'safety(%s)/p%d' % (v.exc.split(':')[0], pi), z3.BoolVal(False), v.where)
                    continue
                r.oblige(s, 'the-octets-after-the-packet-header(also-none)/p%d' % pi, ex.seq(v, s) == BODY if isinstance(v, (E.VBytes, E.VBuf)) else z3.BoolVal(False))
            res = r.result()
            obls += res['obligations']
            funcs += res['funcs']
        return {'obligations': obls, 'funcs': funcs, 'paths': 0}
    return Scenario(label, UIDC + '.hashdata', gen, props=('C01', 'C02', 'C15'))


_base_scn_hd = scenarios


def scenarios():
    return _base_scn_hd() + [uid_hashdata()]
