"""C20: CompressionAlgorithm.compress / .decompress against the formats RFC 4880 9.3 names.

The codecs themselves (zlib, bz2) are externals with stated contracts:
  zlib.compress(d)            = ZLIB_STREAM(d) = 2-octet header || RFC 1951 DEFLATE stream of d || 4-octet Adler-32
  zlib.decompress(s, wbits)   accepts EVERY RFC 1951 stream exactly when wbits == -15 (raw stream, 32 KiB window: a smaller window refuses
                              streams whose back-references reach further; a positive one expects the zlib header)
  zlib.decompress(s)          accepts every RFC 1950 stream (default window)
  bz2.compress / bz2.decompress are an inverse pair
so what is proved is WHICH codec, with WHICH framing and window, each algorithm id reaches, and that the result is handed back untouched."""
import z3
from pyvc import scn, engine as E
from pyvc.runner import Scenario
from pyvc.scn import U, cat

B = E.BYTES
CA = 'pgpy.constants.CompressionAlgorithm'
ALGS = {'Uncompressed': 0, 'ZIP': 1, 'ZLIB': 2, 'BZ2': 3}


def compress():
    label = 'C20/CompressionAlgorithm.compress'

    def gen(repo):
        obls, funcs, paths = [], [], 0
        for aname, aid in ALGS.items():
            r = scn.Run(repo, CA, 'compress', '%s[%s]' % (label, aname))
            ex, st = r.ex, r.st
            DATA = z3.Const('DATA', B)
            DEFLATE, ADLER, BZ = z3.Function('RFC1951_DEFLATE_STREAM', B, B), z3.Function('ADLER32_4_OCTETS', B, B), z3.Function('BZIP2_STREAM', B, B)
            HDR = z3.Const('ZLIB_HEADER_2_OCTETS', B)
            st.pc += [z3.Length(HDR) == 2, z3.ForAll([DATA], z3.Length(ADLER(DATA)) == 4)]

            def zcompress(ex, st, o, a, kws=None):
                if len(a) != 1 or kws:
                    raise E.ToolLimit('zlib.compress with level/wbits arguments')
                d = ex.seq(a[0], st)
                st.ghost['codec'] = st.ghost.get('codec', ()) + ('zlib.compress',)
                return [(st, E.VBytes(z3.Concat(HDR, DEFLATE(d), ADLER(d))))]
            zcompress.wants_kws = True

            def bcompress(ex, st, o, a):
                st.ghost['codec'] = st.ghost.get('codec', ()) + ('bz2.compress',)
                return [(st, E.VBytes(BZ(ex.seq(a[0], st))))]
            ex.hooks[('ext', 'zlib.compress')] = zcompress
            ex.hooks[('ext', 'bz2.compress')] = bcompress
            for pi, (s, v) in enumerate(r.call(E.VInt(aid, enum=CA), [E.VBytes(DATA)])):
                paths += 1
                if isinstance(v, E.Raise):
                    r.oblige(s, 'safety(%s)/p%d' % (v.exc.split(':')[0], pi), z3.BoolVal(False), v.where)
                    continue
                want = {'Uncompressed': DATA, 'ZIP': DEFLATE(DATA), 'ZLIB': z3.Concat(HDR, DEFLATE(DATA), ADLER(DATA)), 'BZ2': BZ(DATA)}[aname]
                what = {'Uncompressed': 'the-data-itself', 'ZIP': 'the-bare-rfc1951-stream-of-the-data(no-zlib-header,no-checksum)',
                        'ZLIB': 'the-rfc1950-stream-of-the-data', 'BZ2': 'the-bzip2-stream-of-the-data'}[aname]
                r.oblige(s, '%s/p%d' % (what, pi), scn.same_octets(ex.seq(v, s), want))
            res = r.result()
            obls += res['obligations']
            funcs = res['funcs']
        return {'obligations': obls, 'funcs': funcs, 'paths': paths}
    return Scenario(label, CA + '.compress', gen, props=('C20', 'C03', 'C04'))


def decompress():
    label = 'C20/CompressionAlgorithm.decompress'

    def gen(repo):
        obls, funcs, paths = [], [], 0
        for aname, aid in ALGS.items():
            r = scn.Run(repo, CA, 'decompress', '%s[%s]' % (label, aname))
            ex, st = r.ex, r.st
            DATA, OUT = z3.Const('COMPRESSED', B), z3.Const('WHAT_THE_CODEC_RETURNS', B)

            def zdecompress(ex, st, o, a, kws=None):
                kws = kws or {}
                wb = a[1] if len(a) > 1 else kws.get('wbits')
                if len(a) > 2 or 'bufsize' in kws:
                    raise E.ToolLimit('zlib.decompress with a buffer size')
                st.ghost['calls'] = st.ghost.get('calls', ()) + (('zlib.decompress', a[0], wb),)
                return [(st, E.VBytes(OUT))]
            zdecompress.wants_kws = True

            def bdecompress(ex, st, o, a):
                st.ghost['calls'] = st.ghost.get('calls', ()) + (('bz2.decompress', a[0], None),)
                return [(st, E.VBytes(OUT))]
            ex.hooks[('ext', 'zlib.decompress')] = zdecompress
            ex.hooks[('ext', 'bz2.decompress')] = bdecompress
            for pi, (s, v) in enumerate(r.call(E.VInt(aid, enum=CA), [E.VBytes(DATA)])):
                paths += 1
                if isinstance(v, E.Raise):
                    r.oblige(s, 'safety(%s)/p%d' % (v.exc.split(':')[0], pi), z3.BoolVal(False), v.where)
                    continue
                calls = s.ghost.get('calls', ())
                if aname == 'Uncompressed':
                    r.oblige(s, 'the-data-itself,no-codec/p%d' % pi, z3.And(z3.BoolVal(len(calls) == 0), ex.seq(v, s) == DATA))
                    continue
                codec = 'bz2.decompress' if aname == 'BZ2' else 'zlib.decompress'
                ok = len(calls) == 1 and calls[0][0] == codec
                r.oblige(s, 'one-call-of-%s-on-all-the-octets;its-result-is-returned/p%d' % (codec, pi),
                         z3.And(z3.BoolVal(ok), z3.And(ex.seq(calls[0][1], s) == DATA, ex.seq(v, s) == OUT) if ok else z3.BoolVal(False)))
                if ok and aname == 'ZIP':
                    wb = calls[0][2]
                    r.oblige(s, 'bare-rfc1951-stream-with-the-full-32KiB-window(wbits=-15):every-conforming-stream-inflates/p%d' % pi,
                             ex.as_int(wb) == -15 if isinstance(wb, (E.VInt, E.VBool)) else z3.BoolVal(False))
                if ok and aname == 'ZLIB':
                    wb = calls[0][2]
                    r.oblige(s, 'rfc1950-stream-with-the-full-window(default-or-15)/p%d' % pi,
                             z3.BoolVal(True) if wb is None else (ex.as_int(wb) == 15 if isinstance(wb, (E.VInt, E.VBool)) else z3.BoolVal(False)))
            res = r.result()
            obls += res['obligations']
            funcs = res['funcs']
        return {'obligations': obls, 'funcs': funcs, 'paths': paths}
    return Scenario(label, CA + '.decompress', gen, props=('C20', 'C03', 'C04'))


def scenarios():
    return [compress(), decompress()]
