"""C19: the per-call clauses of PGPKeyring that are within the verifier's reach (the index as a whole is bounded: bounded/keyring*.py).
Alias layers and the key table are abstract maps given by contract: `a in m` is HAS(m, a), `m[a]` is VAL(m, a)."""
import z3
from pyvc import scn, engine as E
from pyvc.runner import Scenario

RING = 'pgpy.pgp.PGPKeyring'
B = E.BYTES
MAP = 'abstract:Map'


def _maps(r, n):
    HAS = z3.Function('HAS', z3.IntSort(), B, z3.BoolSort())
    VAL = z3.Function('VAL', z3.IntSort(), B, z3.IntSort())
    layers = [E.VObj(MAP, z3.IntVal(i)) for i in range(n)]

    def contains(ex, st, o, a):
        return [(st, E.VBool(HAS(o.ref, ex.strseq(a[0]))))]

    def getitem(ex, st, o, a):
        k = ex.strseq(a[0])
        miss = st.clone()
        st.pc.append(HAS(o.ref, k))
        miss.pc.append(z3.Not(HAS(o.ref, k)))
        outs = []
        if ex.feasible(st, z3.BoolVal(True)):
            outs.append((st, E.VInt(VAL(o.ref, k))))
        if ex.feasible(miss, z3.BoolVal(True)):
            outs.append((miss, E.Raise('KeyError', 0)))
        return outs
    r.hook(MAP, '__contains__', scn.method_hook(contains))
    r.hook(MAP, '__getitem__', scn.method_hook(getitem))
    return HAS, VAL, layers


def get_key(n):
    """PGPKeyring._get_key over n alias layers: the first layer that has the identifier as given, or with its spaces removed, decides"""
    label = 'C19/PGPKeyring._get_key[%d layers]' % n

    def gen(repo):
        r = scn.Run(repo, RING, '_get_key', label)
        ex, st = r.ex, r.st
        HAS, VAL, layers = _maps(r, n)
        ALIAS = z3.Const('IDENTIFIER', B)
        NOSP = z3.Function("STR_REPLACE[' '->'']", B, B)
        r.set('ring', '_aliases', ex.new_list(st, layers))
        KEYOF = z3.Function('KEY_OBJECT_OF_HANDLE', z3.IntSort(), z3.IntSort())
        table = E.VObj('abstract:Table', 'table')
        r.set('ring', '_keys', table)
        r.hook('abstract:Table', '__getitem__', scn.method_hook(lambda ex, st, o, a: [(st, E.VObj('pgpy.pgp.PGPKey', KEYOF(ex.as_int(a[0]))))]))

        def hit(i):
            return z3.Or(HAS(z3.IntVal(i), ALIAS), HAS(z3.IntVal(i), NOSP(ALIAS)))
        for pi, (s, v) in enumerate(r.call(E.VObj(RING, 'ring'), [E.VStr(z=ALIAS)])):
            if isinstance(v, E.Raise):
                r.oblige(s, 'KeyError-only-if-no-layer-has-the-identifier(with-or-without-spaces)/p%d' % pi,
                         z3.And(z3.BoolVal(v.exc.split(':')[0] == 'KeyError'), z3.Not(z3.Or(*[hit(i) for i in range(n)])) if n else z3.BoolVal(True)), v.where)
                continue
            ok = isinstance(v, E.VObj) and z3.is_expr(v.ref)
            r.oblige(s, 'returns-a-key-of-the-table/p%d' % pi, z3.BoolVal(ok))
            if not ok:
                continue
            want = None
            for i in reversed(range(n)):
                here = z3.If(HAS(z3.IntVal(i), ALIAS), KEYOF(VAL(z3.IntVal(i), ALIAS)), KEYOF(VAL(z3.IntVal(i), NOSP(ALIAS))))
                want = here if want is None else z3.If(hit(i), here, want)
            r.oblige(s, 'the-first-layer-that-has-it-decides;exact-form-before-the-space-free-form/p%d' % pi, v.ref == want)
            r.oblige(s, 'some-layer-has-it/p%d' % pi, z3.Or(*[hit(i) for i in range(n)]))
        return r.result()
    return Scenario(label, RING + '._get_key', gen, props=('C19',))


def get_keys(n):
    label = 'C19/PGPKeyring._get_keys[%d layers]' % n

    def gen(repo):
        r = scn.Run(repo, RING, '_get_keys', label)
        ex, st = r.ex, r.st
        HAS, VAL, layers = _maps(r, n)
        ALIAS = z3.Const('IDENTIFIER', B)
        r.set('ring', '_aliases', ex.new_list(st, layers))
        KEYOF = z3.Function('KEY_OBJECT_OF_HANDLE', z3.IntSort(), z3.IntSort())
        r.set('ring', '_keys', E.VObj('abstract:Table', 'table'))
        r.hook('abstract:Table', '__getitem__', scn.method_hook(lambda ex, st, o, a: [(st, E.VObj('pgpy.pgp.PGPKey', KEYOF(ex.as_int(a[0]))))]))
        for pi, (s, v) in enumerate(r.call(E.VObj(RING, 'ring'), [E.VStr(z=ALIAS)])):
            if isinstance(v, E.Raise):
                r.oblige(s, 'safety(%s)/p%d' % (v.exc.split(':')[0], pi), z3.BoolVal(False), v.where)
                continue
            its = ex.items(v, s) if isinstance(v, E.VList) else None
            r.oblige(s, 'a-list/p%d' % pi, z3.BoolVal(its is not None))
            if its is None:
                continue
            # one entry per layer that has the identifier, in layer order
            r.oblige(s, 'as-many-keys-as-layers-that-have-the-identifier/p%d' % pi,
                     z3.IntVal(len(its)) == sum([z3.If(HAS(z3.IntVal(i), ALIAS), 1, 0) for i in range(n)], z3.IntVal(0)))
            for j, x in enumerate(its):
                r.oblige(s, 'entry-%d-is-a-key-some-layer-maps-the-identifier-to/p%d' % (j, pi),
                         z3.Or(*[z3.And(HAS(z3.IntVal(i), ALIAS), x.ref == KEYOF(VAL(z3.IntVal(i), ALIAS))) for i in range(n)]) if isinstance(x, E.VObj) and z3.is_expr(x.ref) else z3.BoolVal(False))
        return r.result()
    return Scenario(label, RING + '._get_keys', gen, props=('C19',))


def scenarios():
    return [get_key(n) for n in (0, 1, 2, 3)] + [get_keys(n) for n in (0, 2, 3)]


def key_selector(kind):
    """PGPKeyring.key(identifier): a signature selects by its issuer key id; a message by the first of its issuers that is in the ring"""
    label = 'C19/PGPKeyring.key[%s]' % kind
    SIG, MSG = 'pgpy.pgp.PGPSignature', 'pgpy.pgp.PGPMessage'

    def gen(repo):
        r = scn.Run(repo, RING, 'key', label)
        ex, st = r.ex, r.st
        ex.yield_encoder = 'contextmanager'
        INRING = z3.Function('IN_RING', B, z3.BoolSort())
        asked = []

        def get_key(ex, st, o, a):
            asked.append(a[0])
            if not isinstance(a[0], E.VStr):
                return [(st, E.Raise('AttributeError', 0))]          # a message none of whose issuers is loaded is not a string
            k = ex.strseq(a[0])
            miss = st.clone()
            st.pc.append(INRING(k))
            miss.pc.append(z3.Not(INRING(k)))
            return [(st, E.VObj('pgpy.pgp.PGPKey', ('key-for', a[0]))), (miss, E.Raise('KeyError', 0))]
        r.hook(RING, '_get_key', scn.method_hook(get_key))
        r.hook(RING, '__contains__', scn.method_hook(lambda ex, st, o, a: [(st, E.VBool(INRING(ex.strseq(a[0]))))]))
        ids = [E.VStr(z=z3.Const('ISSUER_%d' % i, B)) for i in range(2)]
        # the surroundings of the selected key are arbitrary: it may be a subkey whose primary key is loaded as well (the usual layout:
        # certify-only primary, signing subkey) - the key handed out for a signature is still the one that carries the issuer key id
        primary = E.VObj('pgpy.pgp.PGPKey', 'primary-of-the-selected-key')
        ex._ids = {'primary-of-the-selected-key': 4001}
        r.set('ring', '_keys', E.VDict([(E.VInt(4001), primary)]))

        def parent(ex, st, o, a):
            if o is primary:
                return [(st, E.VNone())]
            if 'selected_has_parent' in st.ghost:
                return [(st, primary if st.ghost['selected_has_parent'] else E.VNone())]
            s2 = st.clone()
            st.ghost['selected_has_parent'], s2.ghost['selected_has_parent'] = True, False
            hasp = z3.Bool('the_selected_key_is_a_subkey_of_a_loaded_primary')
            st.pc.append(hasp)
            s2.pc.append(z3.Not(hasp))
            return [(st, primary), (s2, E.VNone())]
        r.hook('pgpy.pgp.PGPKey', 'parent', parent)
        r.hook('pgpy.pgp.PGPKey', '_parent', parent)
        if kind == 'signature':
            ident = E.VObj(SIG, 'sig')
            r.hook(SIG, 'signer', scn.const(ids[0]))
        elif kind == 'message':
            ident = E.VObj(MSG, 'msg')
            r.hook(MSG, 'issuers', scn.const(E.VSet([ids[0], ids[1]])))
        else:
            ident = ids[0]
        for pi, (s, v) in enumerate(r.call(E.VObj(RING, 'ring'), [ident])):
            y = s.ghost.get('yielded_value')
            if isinstance(v, E.Raise) and v.exc not in ('BlockException', 'BlockBaseException'):
                if kind == 'message':
                    r.oblige(s, 'nothing-selected-only-if-no-issuer-is-in-the-ring/p%d' % pi, z3.Not(z3.Or(*[INRING(x.z) for x in ids])), v.where)
                else:
                    r.oblige(s, 'KeyError-only-if-the-identifier-is-not-in-the-ring/p%d' % pi,
                             z3.And(z3.BoolVal(v.exc.split(':')[0] == 'KeyError'), z3.Not(INRING(ids[0].z))), v.where)
                continue
            ok = isinstance(y, E.VObj) and isinstance(y.ref, tuple) and y.ref[0] == 'key-for'
            r.oblige(s, 'yields-what-the-index-selects/p%d' % pi, z3.BoolVal(ok))
            if not ok:
                continue
            if kind == 'message':
                r.oblige(s, 'selected-by-an-issuer-of-the-message-that-is-in-the-ring/p%d' % pi,
                         z3.And(z3.BoolVal(any(y.ref[1] is x for x in ids)), INRING(y.ref[1].z)))
            else:
                r.oblige(s, 'selected-by-the-%s/p%d' % ('issuer key id of the signature' if kind == 'signature' else 'identifier given', pi), z3.BoolVal(y.ref[1] is ids[0]))
        return r.result()
    return Scenario(label, RING + '.key', gen, props=('C19',))


_base_scn_k = scenarios


def scenarios():
    return _base_scn_k() + [key_selector(k) for k in ('string', 'signature', 'message')]


def fingerprints_report():
    """PGPKeyring.fingerprints(keyhalf, keytype) on a reachable state in which the key table is NOT closed under 'subkey of':
    P (public primary; its subkey S is loaded, its subkey T was unloaded on its own), R (private primary), Q (private subkey loaded on its
    own, its primary is not loaded). For all nine argument combinations the report is exactly the fingerprints of the table entries of
    that half and kind - T, which is reachable through P.subkeys but is not loaded, is not reported; Q is."""
    label = 'C19/PGPKeyring.fingerprints[key table not closed under subkeys]'
    KEY = 'pgpy.pgp.PGPKey'
    # name -> (is_primary, is_public, loaded)
    SHAPE = {'P': (True, True, True), 'S': (False, True, True), 'T': (False, True, False), 'R': (True, False, True), 'Q': (False, False, True)}

    def gen(repo):
        obls, funcs, paths = [], [], 0
        for half in ('any', 'public', 'private'):
            for typ in ('any', 'primary', 'sub'):
                r = scn.Run(repo, RING, 'fingerprints', '%s[%s,%s]' % (label, half, typ))
                ex, st = r.ex, r.st
                objs = {n: E.VObj(KEY, n) for n in SHAPE}
                ids = {n: 1000 + i for i, n in enumerate(SHAPE)}
                r.hook(KEY, 'is_primary', lambda ex, st, o, a: [(st, E.VBool(SHAPE[o.ref][0]))])
                r.hook(KEY, 'is_public', lambda ex, st, o, a: [(st, E.VBool(SHAPE[o.ref][1]))])
                r.hook(KEY, 'fingerprint', lambda ex, st, o, a: [(st, E.VStr(s='FINGERPRINT-OF-' + o.ref))])
                r.hook(KEY, 'parent', lambda ex, st, o, a: [(st, {'S': objs['P'], 'T': objs['P']}.get(o.ref, E.VNone() if SHAPE[o.ref][0] else E.VObj(KEY, 'primary-not-loaded')))])
                r.hook(KEY, 'subkeys', lambda ex, st, o, a: [(st, E.VDict([(E.VStr(s='kid-' + n), objs[n]) for n in (('S', 'T') if o.ref == 'P' else ())]))])
                ring = E.VObj(RING, 'ring')
                r.set('ring', '_keys', E.VDict([(E.VInt(ids[n]), objs[n]) for n in SHAPE if SHAPE[n][2]]))
                r.set('ring', '_pubkeys', ex.new_list(st, [E.VInt(ids['P'])]))
                r.set('ring', '_privkeys', ex.new_list(st, [E.VInt(ids['R'])]))
                want = {n for n, (prim, pub, loaded) in SHAPE.items() if loaded and (half == 'any' or pub == (half == 'public')) and (typ == 'any' or prim == (typ == 'primary'))}
                for pi, (s, v) in enumerate(r.call(ring, [], {'keyhalf': E.VStr(s=half), 'keytype': E.VStr(s=typ)})):
                    paths += 1
                    if isinstance(v, E.Raise):
                        r.oblige(s, 'safety(%s)/p%d' % (v.exc.split(':')[0], pi), z3.BoolVal(False), v.where)
                        continue
                    if not isinstance(v, E.VSet):
                        r.oblige(s, 'is-a-set/p%d' % pi, z3.BoolVal(False))
                        continue
                    conds = v.conds or [z3.BoolVal(True)] * len(v.items)
                    known = all(isinstance(x, E.VStr) and isinstance(x.s, str) for x in v.items)
                    r.oblige(s, 'members-are-fingerprints/p%d' % pi, z3.BoolVal(known))
                    if not known:
                        continue
                    for n in SHAPE:
                        present = z3.Or(*([c for x, c in zip(v.items, conds) if x.s == 'FINGERPRINT-OF-' + n] or [z3.BoolVal(False)]))
                        what = 'reported' if n in want else ('not-reported(%s)' % ('not loaded' if not SHAPE[n][2] else 'other half or kind'))
                        r.oblige(s, '%s:%s/p%d' % (n, what, pi), present if n in want else z3.Not(present))
                res = r.result()
                obls += res['obligations']
                funcs = res['funcs']
        return {'obligations': obls, 'funcs': funcs, 'paths': paths}
    return Scenario(label, RING + '.fingerprints', gen, props=('C19',))


_base_scn_f = scenarios


def scenarios():
    return _base_scn_f() + [fingerprints_report()]


# ---------------------------------------------------------------------------------------------------------------------
# the index writers. Alias layers are abstract maps WITH updates: map i is (HAS_i, VAL_i) overridden by the writes a state has made to it.
def _amaps(r, n):
    HAS = z3.Function('HAS', z3.IntSort(), B, z3.BoolSort())
    VAL = z3.Function('VAL', z3.IntSort(), B, z3.IntSort())
    layers = [E.VObj(MAP, i) for i in range(n)]

    def ups(st, o):
        return st.heap.get(('amap', o.ref), ())

    def has(st, o, k):
        res = HAS(z3.IntVal(o.ref), k)
        for kk, pres, _ in ups(st, o):
            res = z3.If(k == kk, pres, res)
        return res

    def val(st, o, k):
        res = VAL(z3.IntVal(o.ref), k)
        for kk, _, v in ups(st, o):
            res = z3.If(k == kk, v, res)
        return res

    def contains(ex, st, o, a):
        return [(st, E.VBool(has(st, o, ex.strseq(a[0]))))]

    def getitem(ex, st, o, a):
        k = ex.strseq(a[0])
        outs = []
        for s2, t in ex.fork(st, has(st, o, k)):
            outs.append((s2, E.VInt(val(s2, o, k)) if t else E.Raise('KeyError', 0)))
        return outs

    def setitem(ex, st, o, a):
        st.heap[('amap', o.ref)] = ups(st, o) + ((ex.strseq(a[0]), z3.BoolVal(True), ex.as_int(a[1])),)
        return [(st, E.VNone())]

    def pop(ex, st, o, a):
        k = ex.strseq(a[0])
        outs = []
        for s2, t in ex.fork(st, has(st, o, k)):
            if t:
                v = val(s2, o, k)
                s2.heap[('amap', o.ref)] = ups(s2, o) + ((k, z3.BoolVal(False), z3.IntVal(0)),)
                outs.append((s2, E.VInt(v)))
            else:
                outs.append((s2, a[1] if len(a) > 1 else E.Raise('KeyError', 0)))
        return outs
    r.hook(MAP, '__contains__', scn.method_hook(contains))
    r.hook(MAP, '__getitem__', scn.method_hook(getitem))
    r.hook(MAP, '__setitem__', scn.method_hook(setitem))
    r.hook(MAP, 'pop', scn.method_hook(pop))
    return has, val, layers


def add_alias(n):
    """PGPKeyring._add_alias(alias, id) over n abstract alias layers (left = consulted first): afterwards the alias leads to the id in some
    layer; every link that existed before still exists (the frame: an arbitrary other identifier K in an arbitrary layer is untouched,
    and the ids the alias already led to are kept); a link that existed already changes nothing; the alias is re-sorted exactly when it
    already led to other ids. `_sort_alias` is a callee with its own contract (it permutes the ids of ONE alias among the layers)."""
    label = 'C19/PGPKeyring._add_alias[%d layers]' % n

    def gen(repo):
        r = scn.Run(repo, RING, '_add_alias', label)
        ex, st = r.ex, r.st
        has, val, layers = _amaps(r, n)
        ring = E.VObj(RING, 'ring')
        r.set('ring', '_aliases', ex.new_list(st, layers))
        A, K, ID = z3.Const('ALIAS', B), z3.Const('ANY_OTHER_IDENTIFIER', B), z3.Int('key_object_id')
        NOSP = z3.Function("STR_REPLACE[' '->'']", B, B)
        st.pc.append(K != A)
        pre = [(has(st, m, A), val(st, m, A), has(st, m, K), val(st, m, K)) for m in layers]

        def ring_contains(ex, st, o, a):
            k = ex.strseq(a[0])
            lst = ex.items(st.heap[('ring', '_aliases')], st)
            terms = []
            for m in lst:
                if isinstance(m, E.VObj) and m.cls == MAP:
                    terms += [has(st, m, k), has(st, m, NOSP(k))]
                elif isinstance(m, E.VDict):
                    terms += [ex.eq(a[0], kk, st) for kk, _ in m.of(st)]
            return [(st, E.VBool(z3.Or(*terms) if terms else z3.BoolVal(False)))]
        r.hook(RING, '__contains__', scn.method_hook(ring_contains))

        def sort_alias(ex, st, o, a):
            st.ghost['sorted'] = st.ghost.get('sorted', ()) + (a[0],)
            return [(st, E.VNone())]
        r.hook(RING, '_sort_alias', scn.method_hook(sort_alias))
        existed = z3.Or(*[p[0] for p in pre]) if pre else z3.BoolVal(False)
        linked = z3.Or(*[z3.And(p[0], p[1] == ID) for p in pre]) if pre else z3.BoolVal(False)
        for pi, (s, v) in enumerate(r.call(ring, [E.VStr(z=A), E.VInt(ID)])):
            if isinstance(v, E.Raise):
                r.oblige(s, 'safety(%s)/p%d' % (v.exc.split(':')[0], pi), z3.BoolVal(False), v.where)
                continue
            now = ex.items(s.heap[('ring', '_aliases')], s)
            leads = []
            for m in now:
                if isinstance(m, E.VObj) and m.cls == MAP:
                    leads.append(z3.And(has(s, m, A), val(s, m, A) == ID))
                elif isinstance(m, E.VDict):
                    leads += [z3.And(ex.eq(E.VStr(z=A), kk, s), ex.as_int(vv) == ID) for kk, vv in m.of(s)]
            r.oblige(s, 'afterwards-the-alias-leads-to-the-id-in-some-layer/p%d' % pi, z3.Or(*leads) if leads else z3.BoolVal(False))
            for i, m in enumerate(layers):
                r.oblige(s, 'layer-%d:any-other-identifier-is-untouched/p%d' % (i, pi),
                         z3.And(has(s, m, K) == pre[i][2], z3.Implies(pre[i][2], val(s, m, K) == pre[i][3])))
                r.oblige(s, 'layer-%d:an-id-the-alias-led-to-is-kept/p%d' % (i, pi), z3.Implies(pre[i][0], z3.And(has(s, m, A), val(s, m, A) == pre[i][1])))
            r.oblige(s, 'the-original-layers-are-still-there,in-order/p%d' % pi,
                     z3.BoolVal([x for x in now if isinstance(x, E.VObj) and x.cls == MAP] == layers))
            changed = any(s.heap.get(('amap', m.ref)) for m in layers) or len(now) != len(layers)
            r.oblige(s, 'a-link-that-existed-already-changes-nothing/p%d' % pi, z3.Implies(linked, z3.BoolVal(not changed)))
            srt = s.ghost.get('sorted', ())
            r.oblige(s, 're-sorted-when-the-alias-already-led-to-other-ids-only/p%d' % pi,
                     z3.Implies(z3.And(existed, z3.Not(linked)), z3.BoolVal(len(srt) == 1 and isinstance(srt[0], E.VStr))))
            r.oblige(s, 'not-re-sorted-for-a-new-alias-or-an-existing-link/p%d' % pi,
                     z3.Implies(z3.Or(linked, z3.Not(z3.Or(existed, *[has(st, m, NOSP(A)) for m in layers]))), z3.BoolVal(len(srt) == 0)))
        return r.result()
    return Scenario(label, RING + '._add_alias', gen, props=('C19',))


_base_scn_aa = scenarios


def scenarios():
    return _base_scn_aa() + [add_alias(n) for n in (1, 2)]


def sort_alias():
    """PGPKeyring._sort_alias(alias) over two abstract layers: the ids the alias led to are the same afterwards (none lost, none invented,
    none duplicated), one per layer from the first layer on; an arbitrary other identifier is untouched. (Which of several keys sharing an
    identifier comes first is not prescribed by the property and not stated here. Limit of the abstraction: whether a layer has become
    EMPTY cannot be told for an abstract map, so the removal of empty layers at the end is not covered - the bounded components are.)"""
    label = 'C19/PGPKeyring._sort_alias[2 layers]'
    KEYC = 'pgpy.pgp.PGPKey'

    def gen(repo):
        r = scn.Run(repo, RING, '_sort_alias', label)
        ex, st = r.ex, r.st
        has, val, layers = _amaps(r, 2)
        ring = E.VObj(RING, 'ring')
        r.set('ring', '_aliases', ex.new_list(st, layers))
        A, K = z3.Const('ALIAS', B), z3.Const('ANY_OTHER_IDENTIFIER', B)
        st.pc.append(K != A)
        pre = [(has(st, m, A), val(st, m, A), has(st, m, K), val(st, m, K)) for m in layers]
        st.pc.append(z3.Implies(z3.And(pre[0][0], pre[1][0]), pre[0][1] != pre[1][1]))      # invariant: an alias leads to an id in one layer only
        CREATED, ISPUB = z3.Function('CREATED', z3.IntSort(), z3.IntSort()), z3.Function('IS_PUBLIC', z3.IntSort(), z3.BoolSort())
        r.set('ring', '_keys', E.VObj('abstract:KeyTable', 'keys'))
        r.hook('abstract:KeyTable', '__getitem__', scn.method_hook(lambda ex, st, o, a: [(st, E.VObj(KEYC, ex.as_int(a[0])))]))
        r.hook(KEYC, 'created', lambda ex, st, o, a: [(st, E.VInt(CREATED(o.ref if z3.is_expr(o.ref) else z3.IntVal(0))))])
        r.hook(KEYC, 'is_public', lambda ex, st, o, a: [(st, E.VBool(ISPUB(o.ref if z3.is_expr(o.ref) else z3.IntVal(0))))])
        for pi, (s, v) in enumerate(r.call(ring, [E.VStr(z=A)])):
            if isinstance(v, E.Raise):
                r.oblige(s, 'safety(%s)/p%d' % (v.exc.split(':')[0], pi), z3.BoolVal(False), v.where)
                continue
            now = ex.items(s.heap[('ring', '_aliases')], s)
            r.oblige(s, 'the-layers-are-still-there,in-order/p%d' % pi, z3.BoolVal(now == layers))
            h0, v0, h1, v1 = has(s, layers[0], A), val(s, layers[0], A), has(s, layers[1], A), val(s, layers[1], A)
            c0, i0, c1, i1 = pre[0][0], pre[0][1], pre[1][0], pre[1][1]
            r.oblige(s, 'as-many-links-as-before,one-per-layer-from-the-first-layer-on/p%d' % pi,
                     z3.And(h0 == z3.Or(c0, c1), h1 == z3.And(c0, c1)))
            r.oblige(s, 'the-same-ids(none-lost,none-invented,none-twice)/p%d' % pi,
                     z3.And(z3.Implies(z3.And(c0, z3.Not(c1)), v0 == i0), z3.Implies(z3.And(c1, z3.Not(c0)), v0 == i1),
                            z3.Implies(z3.And(c0, c1), z3.Or(z3.And(v0 == i0, v1 == i1), z3.And(v0 == i1, v1 == i0)))))
            for i, m in enumerate(layers):
                r.oblige(s, 'layer-%d:any-other-identifier-is-untouched/p%d' % (i, pi),
                         z3.And(has(s, m, K) == pre[i][2], z3.Implies(pre[i][2], val(s, m, K) == pre[i][3])))
        return r.result()
    return Scenario(label, RING + '._sort_alias', gen, props=('C19',))


_base_scn_sa2 = scenarios


def scenarios():
    return _base_scn_sa2() + [sort_alias()]


def add_key():
    """PGPKeyring._add_key(key): a key object that is already in the table changes nothing; otherwise it is entered under its object id,
    listed among the public or the private top-level keys exactly when it has no parent, given the aliases fingerprint, key id, short id and
    the name, the (non-empty) comment and the (non-empty) e-mail of every user id - all leading to ITS id -, and every subkey of it is
    added the same way (with its own id). `_add_alias` is a callee (own contract)."""
    label = 'C19/PGPKeyring._add_key'
    KEYC, UIDC, FPC = 'pgpy.pgp.PGPKey', 'pgpy.pgp.PGPUID', 'pgpy.types.Fingerprint'

    def gen(repo):
        r = scn.Run(repo, RING, '_add_key', label)
        ex, st = r.ex, r.st
        ring = E.VObj(RING, 'ring')
        key, sub, other = E.VObj(KEYC, 'key'), E.VObj(KEYC, 'sub'), E.VObj(KEYC, 'other')
        loaded, pub, has_parent = z3.Bool('the_key_object_is_already_in_the_table'), z3.Bool('key_is_public'), z3.Bool('key_has_a_parent')
        ex._ids = {'key': 1001, 'sub': 1002, 'other': 1003}          # the executor's model of id(): an injective function of the object reference
        table = E.VObj('abstract:KeyTable', 'keys')
        r.set('ring', '_keys', table)

        def t_contains(ex, st, o, a):
            k = ex.as_int(a[0])
            added = st.ghost.get('entered', ())
            return [(st, E.VBool(z3.Or(z3.And(loaded, k == 1001), z3.BoolVal(any(i == kk for kk, _ in added for i in [z3.simplify(k).as_long() if z3.is_int_value(z3.simplify(k)) else None])))))]

        def t_set(ex, st, o, a):
            st.ghost['entered'] = st.ghost.get('entered', ()) + ((z3.simplify(ex.as_int(a[0])).as_long(), a[1]),)
            return [(st, E.VNone())]
        r.hook('abstract:KeyTable', '__contains__', scn.method_hook(t_contains))
        r.hook('abstract:KeyTable', '__setitem__', scn.method_hook(t_set))
        r.set('ring', '_pubkeys', ex.new_list(st, [E.VInt(1003)]))
        r.set('ring', '_privkeys', ex.new_list(st, []))
        r.hook(KEYC, 'parent', lambda ex, st, o, a: [(st, key if o.ref == 'sub' else (E.VNone() if o.ref != 'key' else None))] if o.ref != 'key' else
               [(s2, (other if t else E.VNone())) for s2, t in ex.fork(st, has_parent)])
        r.hook(KEYC, 'is_public', lambda ex, st, o, a: [(st, E.VBool(pub))])
        FPR = {n: E.VStr(z=z3.Const('FINGERPRINT_OF_' + n, B), cls=FPC) for n in ('key', 'sub')}
        r.hook(KEYC, 'fingerprint', lambda ex, st, o, a: [(st, FPR[o.ref])])
        r.hook(FPC, 'keyid', lambda ex, st, o, a: [(st, E.VStr(z=z3.Const('KEYID_OF_' + ('key' if o is FPR['key'] else 'sub'), B)))])
        r.hook(FPC, 'shortid', lambda ex, st, o, a: [(st, E.VStr(z=z3.Const('SHORTID_OF_' + ('key' if o is FPR['key'] else 'sub'), B)))])
        uids = [E.VObj(UIDC, 'uid0'), E.VObj(UIDC, 'uid1')]
        r.hook(KEYC, 'userids', lambda ex, st, o, a: [(st, ex.new_list(st, uids if o.ref == 'key' else []))])
        r.hook(KEYC, 'subkeys', lambda ex, st, o, a: [(st, E.VDict([(E.VStr(s='SUBID'), sub)]) if o.ref == 'key' else E.VDict([]))])
        for f in ('name', 'comment', 'email'):
            r.hook(UIDC, f, (lambda f: lambda ex, st, o, a: [(st, E.VStr(z=z3.Const('%s_OF_%s' % (f.upper(), o.ref), B)))])(f))

        def add_alias_(ex, st, o, a):
            st.ghost['aliases'] = st.ghost.get('aliases', ()) + ((a[0], ex.as_int(a[1])),)
            return [(st, E.VNone())]
        r.hook(RING, '_add_alias', scn.method_hook(add_alias_))
        for pi, (s, v) in enumerate(r.call(ring, [key])):
            if isinstance(v, E.Raise):
                r.oblige(s, 'safety(%s)/p%d' % (v.exc.split(':')[0], pi), z3.BoolVal(False), v.where)
                continue
            entered, al = s.ghost.get('entered', ()), s.ghost.get('aliases', ())
            pubs, privs = [x.conc() for x in ex.items(s.heap[('ring', '_pubkeys')], s)], [x.conc() for x in ex.items(s.heap[('ring', '_privkeys')], s)]
            nothing = not entered and not al and pubs == [1003] and privs == []
            r.oblige(s, 'a-key-object-already-in-the-table-changes-nothing/p%d' % pi, z3.Implies(loaded, z3.BoolVal(nothing)))
            if nothing:
                r.oblige(s, 'nothing-happens-only-then/p%d' % pi, loaded)
                continue
            r.oblige(s, 'the-key-and-its-subkey-are-entered-under-their-own-ids/p%d' % pi,
                     z3.BoolVal([(k, getattr(o, 'ref', None)) for k, o in entered] == [(1001, 'key'), (1002, 'sub')]))
            r.oblige(s, 'a-top-level-key(no-parent)-is-listed-with-its-half,once;a-key-with-a-parent-and-the-subkey-are-not/p%d' % pi,
                     z3.And(z3.BoolVal(1002 not in pubs + privs and pubs.count(1001) + privs.count(1001) <= 1 and pubs[:1] == [1003]),
                            z3.BoolVal(1001 in pubs) == z3.And(z3.Not(has_parent), pub), z3.BoolVal(1001 in privs) == z3.And(z3.Not(has_parent), z3.Not(pub))))
            want = [('FINGERPRINT_OF_key', 1001), ('KEYID_OF_key', 1001), ('SHORTID_OF_key', 1001)]
            got = []
            for a0, i0 in al:
                nm = str(a0.z) if isinstance(a0, E.VStr) and a0.z is not None else repr(a0)
                got.append((nm, z3.simplify(i0).as_long() if z3.is_int_value(z3.simplify(i0)) else None))
            base = [g for g in got if not g[0].startswith(('NAME_', 'COMMENT_', 'EMAIL_'))]
            r.oblige(s, 'aliases:fingerprint,key-id,short-id-of-the-key-and-of-its-subkey,each-leading-to-its-own-object/p%d' % pi,
                     z3.BoolVal(base == want + [('FINGERPRINT_OF_sub', 1002), ('KEYID_OF_sub', 1002), ('SHORTID_OF_sub', 1002)]))
            for u in ('uid0', 'uid1'):
                names = [g for g in got if g[0].endswith('_OF_' + u)]
                r.oblige(s, 'aliases-of-%s:its-name-always,comment-and-e-mail-when-not-empty,leading-to-the-key/p%d' % (u, pi),
                         z3.And(z3.BoolVal(('NAME_OF_' + u, 1001) in names and all(i == 1001 for _, i in names)),
                                z3.BoolVal(('COMMENT_OF_' + u, 1001) in names) == (z3.Length(z3.Const('COMMENT_OF_' + u, B)) > 0),
                                z3.BoolVal(('EMAIL_OF_' + u, 1001) in names) == (z3.Length(z3.Const('EMAIL_OF_' + u, B)) > 0)))
        return r.result()
    return Scenario(label, RING + '._add_key', gen, props=('C19',))


_base_scn_ak = scenarios


def scenarios():
    return _base_scn_ak() + [add_key()]


def unload(loaded):
    """PGPKeyring.unload(key) on a concrete shape with symbolic links: two alias layers {a1, a2} and {a1, a3} whose entries lead to the key,
    to its subkey or to another key (symbolic). A key object that is not in the table changes nothing. Otherwise: the key leaves the
    table and the top-level lists; every alias entry that led to it is gone and every entry that led elsewhere is still there, in its
    layer, with its id; an alias that lost an entry but is still known is re-sorted; a primary key takes its subkeys with it
    (their entries go the same way). `_sort_alias` is a callee (own contract)."""
    label = 'C19/PGPKeyring.unload[%s]' % ('key object in the table' if loaded else 'key object not in the table')
    KEYC = 'pgpy.pgp.PGPKey'

    def gen(repo):
        r = scn.Run(repo, RING, 'unload', label)
        ex, st = r.ex, r.st
        ring = E.VObj(RING, 'ring')
        key, sub, other = E.VObj(KEYC, 'key'), E.VObj(KEYC, 'sub'), E.VObj(KEYC, 'other')
        ex._ids = {'key': 1001, 'sub': 1002, 'other': 1003}
        primary = z3.Bool('key_is_primary')
        r.hook(KEYC, 'is_primary', lambda ex, st, o, a: [(st, E.VBool(primary if o.ref == 'key' else z3.BoolVal(o.ref == 'other')))])
        r.hook(KEYC, 'subkeys', lambda ex, st, o, a: [(st, E.VDict([(E.VStr(s='SUBID'), sub)]) if o.ref == 'key' else E.VDict([]))])
        tab = [(E.VInt(1002), sub), (E.VInt(1003), other)] + ([(E.VInt(1001), key)] if loaded else [])
        r.set('ring', '_keys', E.VDict(tab))
        r.set('ring', '_pubkeys', ex.new_list(st, [E.VInt(1003)] + ([E.VInt(1001)] if loaded else [])))
        r.set('ring', '_privkeys', ex.new_list(st, []))
        X = {n: z3.Int('entry_%s_leads_to' % n) for n in ('L0_a1', 'L0_a2', 'L1_a1', 'L1_a3')}
        for x in X.values():
            st.pc.append(z3.Or(x == 1001, x == 1002, x == 1003))
        st.pc.append(X['L0_a1'] != X['L1_a1'])          # invariant: an alias leads to an id in one layer only
        L0 = E.VDict([(E.VStr(s='a1'), E.VInt(X['L0_a1'])), (E.VStr(s='a2'), E.VInt(X['L0_a2']))])
        L1 = E.VDict([(E.VStr(s='a1'), E.VInt(X['L1_a1'])), (E.VStr(s='a3'), E.VInt(X['L1_a3']))])
        r.set('ring', '_aliases', ex.new_list(st, [L0, L1]))

        def ring_contains(ex, st, o, a):
            lst = ex.items(st.heap[('ring', '_aliases')], st)
            terms = [ex.eq(a[0], kk, st) for m in lst if isinstance(m, E.VDict) for kk, _ in m.of(st)]
            return [(st, E.VBool(z3.simplify(z3.Or(*terms)) if terms else z3.BoolVal(False)))]
        r.hook(RING, '__contains__', scn.method_hook(ring_contains))

        def sort_alias_(ex, st, o, a):
            st.ghost['sorted'] = st.ghost.get('sorted', ()) + (a[0].s if isinstance(a[0], E.VStr) else None,)
            return [(st, E.VNone())]
        r.hook(RING, '_sort_alias', scn.method_hook(sort_alias_))
        for pi, (s, v) in enumerate(r.call(ring, [key])):
            if isinstance(v, E.Raise):
                r.oblige(s, 'safety(%s)/p%d' % (v.exc.split(':')[0], pi), z3.BoolVal(False), v.where)
                continue
            keys_now = [k.conc() for k, _ in s.heap[('ring', '_keys')].of(s)] if isinstance(s.heap[('ring', '_keys')], E.VDict) else None
            pubs = [x.conc() for x in ex.items(s.heap[('ring', '_pubkeys')], s)]
            layers = ex.items(s.heap[('ring', '_aliases')], s)
            cur = {}
            for li, m in enumerate(layers[:2]):
                for kk, vv in (m.of(s) if isinstance(m, E.VDict) else []):
                    cur['L%d_%s' % (li, kk.s)] = ex.as_int(vv)
            if not loaded:
                r.oblige(s, 'a-key-object-that-is-not-in-the-table-changes-nothing/p%d' % pi,
                         z3.And(z3.BoolVal(sorted(keys_now) == [1002, 1003] and pubs == [1003] and sorted(cur) == sorted(X) and not s.ghost.get('sorted')),
                                *[cur[n] == X[n] for n in X if n in cur]))
                continue
            gone = lambda x: z3.Or(x == 1001, z3.And(primary, x == 1002))          # entries that must go: the key's, and its subkey's when it is primary
            r.oblige(s, 'the-key-leaves-the-table-and-the-top-level-lists;a-primary-key-takes-its-subkey-with-it/p%d' % pi,
                     z3.And(z3.BoolVal(1001 not in keys_now and 1003 in keys_now and pubs == [1003]), z3.BoolVal(1002 not in keys_now) == primary))
            for n in X:
                if n in cur:
                    r.oblige(s, 'entry-%s-is-still-there=>it-led-elsewhere,and-still-leads-there/p%d' % (n, pi), z3.And(z3.Not(gone(X[n])), cur[n] == X[n]))
                else:
                    r.oblige(s, 'entry-%s-is-gone=>it-led-to-the-unloaded-key(or-its-subkey)/p%d' % (n, pi), gone(X[n]))
            srt = s.ghost.get('sorted', ())
            # a1 is the only alias with two entries: it is re-sorted iff exactly one of them went (and the other is still known)
            g0, g1 = gone(X['L0_a1']), gone(X['L1_a1'])
            r.oblige(s, 'a1-is-re-sorted-when-it-lost-one-of-its-two-entries/p%d' % pi, z3.Implies(z3.Xor(g0, g1), z3.BoolVal('a1' in srt)))
            r.oblige(s, 'only-aliases-that-lost-an-entry-and-are-still-known-are-re-sorted/p%d' % pi,
                     z3.And(z3.BoolVal(all(x == 'a1' for x in srt)), z3.Implies(z3.BoolVal('a1' in srt), z3.Or(g0, g1))))
        return r.result()
    return Scenario(label, RING + '.unload', gen, props=('C19',))


_base_scn_ul = scenarios


def scenarios():
    return _base_scn_ul() + [unload(True), unload(False)]


def ring_contains():
    """PGPKeyring.__contains__(identifier): true exactly when some layer has the identifier as it is, or with its spaces removed"""
    label = 'C19/PGPKeyring.__contains__'

    def gen(repo):
        r = scn.Run(repo, RING, '__contains__', label)
        ex, st = r.ex, r.st
        ring = E.VObj(RING, 'ring')
        names = [['a1', 'a2'], ['a1', 'a3'], []]
        layers = [E.VDict([(E.VStr(s=n), E.VInt(z3.Int('id_%d_%s' % (i, n)))) for n in ns]) for i, ns in enumerate(names)]
        r.set('ring', '_aliases', ex.new_list(st, layers))
        A = z3.Const('IDENTIFIER', B)
        NOSP = z3.Function("STR_REPLACE[' '->'']", B, B)
        lit = lambda t: ex.strseq(E.VStr(s=t))
        known = sorted({n for ns in names for n in ns})
        for pi, (s, v) in enumerate(r.call(ring, [E.VStr(z=A)])):
            if isinstance(v, E.Raise):
                r.oblige(s, 'safety(%s)/p%d' % (v.exc.split(':')[0], pi), z3.BoolVal(False), v.where)
                continue
            r.oblige(s, 'known-iff-some-layer-has-it-as-it-is-or-without-its-spaces/p%d' % pi,
                     ex.truth(v, s) == z3.Or(*([A == lit(n) for n in known] + [NOSP(A) == lit(n) for n in known])))
        return r.result()
    return Scenario(label, RING + '.__contains__', gen, props=('C19',))


_base_scn_rc = scenarios


def scenarios():
    return _base_scn_rc() + [ring_contains()]


def ring_load():
    """PGPKeyring.load(*args): every argument (or every element of a list / tuple argument) is a key object, a file name or a blob; a blob
    (file) is parsed by PGPKey.from_blob (from_file) and yields a key plus the other keys of the blob; every such key is added with
    _add_key, in order; the result lists the fingerprints of all of them and of their subkeys (each once)."""
    label = 'C19/PGPKeyring.load'
    KEYC, FPC = 'pgpy.pgp.PGPKey', 'pgpy.types.Fingerprint'

    def gen(repo):
        r = scn.Run(repo, RING, 'load', label)
        ex, st = r.ex, r.st
        ring = E.VObj(RING, 'ring')
        k1, k2, k3, s1 = [E.VObj(KEYC, n) for n in ('given-object', 'first-of-the-blob', 'second-of-the-blob', 'subkey-of-the-given-object')]
        BLOB = E.VBytes(z3.Const('BLOB', B))
        FP = {o.ref: E.VStr(s='FPR-' + o.ref, cls=FPC) for o in (k1, k2, k3, s1)}
        r.hook(KEYC, 'fingerprint', lambda ex, st, o, a: [(st, FP[o.ref])])
        r.hook(KEYC, 'subkeys', lambda ex, st, o, a: [(st, E.VDict([(E.VStr(s='SUBID'), s1)]) if o.ref == 'given-object' else E.VDict([]))])

        def from_blob(ex, st, c, a):
            st.ghost['parsed'] = st.ghost.get('parsed', ()) + (a[0],)
            return [(st, E.VTuple([k2, E.VDict([(E.VTuple([E.VStr(s='KEYID-2'), E.VBool(True)]), k3)])]))]
        r.hook(KEYC, 'from_blob', scn.method_hook(from_blob))
        ex.hooks[('ext', 'os.path.isfile')] = lambda ex, st, o, a: [(st, E.VBool(False))]

        def add_key_(ex, st, o, a):
            st.ghost['added'] = st.ghost.get('added', ()) + (a[0],)
            return [(st, E.VNone())]
        r.hook(RING, '_add_key', scn.method_hook(add_key_))
        for pi, (s, v) in enumerate(r.call(ring, [k1, ex.new_list(st, [BLOB])])):
            if isinstance(v, E.Raise):
                r.oblige(s, 'safety(%s)/p%d' % (v.exc.split(':')[0], pi), z3.BoolVal(False), v.where)
                continue
            added = [getattr(x, 'ref', None) for x in s.ghost.get('added', ())]
            r.oblige(s, 'every-key-is-added,in-order:the-object,then-the-key-of-the-blob,then-the-other-keys-of-the-blob/p%d' % pi,
                     z3.BoolVal(added == ['given-object', 'first-of-the-blob', 'second-of-the-blob']))
            r.oblige(s, 'the-blob-is-parsed-once/p%d' % pi, z3.BoolVal(len(s.ghost.get('parsed', ())) == 1 and s.ghost['parsed'][0] is BLOB))
            items = ex.items(v, s) if isinstance(v, (E.VList, E.VTuple, E.VSet)) else None
            got = sorted(x.s for x in items) if items is not None and all(isinstance(x, E.VStr) and isinstance(x.s, str) for x in items) else None
            r.oblige(s, 'returns-the-fingerprints-of-all-of-them-and-of-their-subkeys,each-once/p%d' % pi,
                     z3.BoolVal(got == sorted('FPR-' + n for n in ('given-object', 'first-of-the-blob', 'second-of-the-blob', 'subkey-of-the-given-object'))))
        return r.result()
    return Scenario(label, RING + '.load', gen, props=('C19',))


_base_scn_ld = scenarios


def scenarios():
    return _base_scn_ld() + [ring_load()]
